#!/usr/bin/env python3
"""Regression over the stored independent changes (seeded/<id>/patch.diff) and refactorings (benign/*.diff).

Each patch is applied to a scratch export of /repo's HEAD under mktemp (removed afterwards); the property's quick
check is run on the copy with VERIF_REPO / VERIF_OUT so that /repo and /verif/evidence are never touched.
seeded: expected exit 1 with a VIOLATION line. benign: expected exit 0 for all 20 properties.

usage: seeded_regress.py [seeded|benign|all] [--only ID-substring] [--jobs N]
"""
import json, os, subprocess, sys, tempfile, shutil
from concurrent.futures import ThreadPoolExecutor
from pathlib import Path

VERIF = Path(__file__).resolve().parent.parent
PROPS = [f"C{i:02d}" for i in range(1, 21)]


def export(dst):
    subprocess.run(f"git -C /repo archive HEAD | tar -x -C {dst}", shell=True, check=True)


def run_check(root, prop, out):
    env = dict(os.environ, VERIF_REPO=str(root), VERIF_OUT=str(out))
    p = subprocess.run(["python3-vt", "-m", "sa", "check", prop, "--tier", "quick"], cwd=VERIF, env=env, capture_output=True, text=True)
    lines = [l for l in (p.stdout + p.stderr).splitlines() if "WARNING" not in l]
    rules = sorted({l.split("[", 1)[1].split("]", 1)[0] for l in lines if l.startswith("  ") and ": [" in l})
    errs = [l[:200] for l in lines if "ANALYSIS-ERROR" in l]
    return p.returncode, rules, errs


def one(job):
    kind, name, patch, props = job
    tmp = Path(tempfile.mkdtemp(prefix="sa_regress_"))
    try:
        export(tmp)
        pr = subprocess.run(["git", "apply", "--whitespace=nowarn", str(patch)], cwd=tmp, capture_output=True, text=True)
        if pr.returncode != 0:
            pr = subprocess.run(["patch", "-p1", "-s", "-f", "-i", str(patch)], cwd=tmp, capture_output=True, text=True)
            if pr.returncode != 0:
                return kind, name, "NOAPPLY", {}
        res = {}
        for p in props:
            res[p] = run_check(tmp, p, tmp / "_out")
        return kind, name, "ok", res
    finally:
        shutil.rmtree(tmp, ignore_errors=True)


def main():
    what = sys.argv[1] if len(sys.argv) > 1 and not sys.argv[1].startswith("-") else "all"
    only = sys.argv[sys.argv.index("--only") + 1] if "--only" in sys.argv else None
    jobs_n = int(sys.argv[sys.argv.index("--jobs") + 1]) if "--jobs" in sys.argv else 16
    jobs = []
    if what in ("seeded", "all"):
        for d in sorted((VERIF / "seeded").iterdir()):
            if not (d / "patch.diff").exists():
                continue
            meta = json.load(open(d / "meta.json")) if (d / "meta.json").exists() else {}
            prop = meta.get("property") or d.name.split("-")[0]
            jobs.append(("seeded", d.name, d / "patch.diff", [prop]))
    if what in ("benign", "all"):
        for f in sorted((VERIF / "benign").glob("*.diff")):
            jobs.append(("benign", f.stem, f, PROPS))
    if only:
        jobs = [j for j in jobs if only in j[1]]
    bad = 0
    with ThreadPoolExecutor(max_workers=jobs_n) as ex:
        for kind, name, st, res in ex.map(one, jobs):
            if st != "ok":
                print(f"{kind:7s} {name:10s} {st}")
                continue
            if kind == "seeded":
                (p, (rc, rules, errs)), = res.items()
                verdict = "CAUGHT" if rc == 1 else ("ERROR-ONLY" if rc == 2 else "MISSED")
                bad += rc != 1
                print(f"seeded  {name:10s} {verdict:10s} {p} {','.join(rules)} {errs[:1] if rc != 1 else ''}")
            else:
                noisy = {p: r for p, r in res.items() if r[0] != 0}
                bad += bool(noisy)
                print(f"benign  {name:10s} {'CLEAN' if not noisy else 'ALARM'} " + " ".join(f"{p}:rc{r[0]}:{','.join(r[1])}{r[2][:1]}" for p, r in noisy.items()))
    print(f"{len(jobs)} patches, {bad} not as expected")
    return 1 if bad else 0


if __name__ == "__main__":
    sys.exit(main())
