#!/bin/bash
# usage: with_patch.sh <patch file> RULE [RULE ...] : run rules (tools/dbg_rule.py) on a scratch export of /repo HEAD with the patch applied
p=$1; shift
d=$(mktemp -d /tmp/sa_wp_XXXX)
git -C /repo archive HEAD | tar -x -C $d
(cd $d && git apply --whitespace=nowarn $p) || { echo NOAPPLY; rm -rf $d; exit 3; }
for r in "$@"; do echo "== $r"; python3-vt /verif/tools/dbg_rule.py $r $d 2>&1 | tail -${TAILN:-4} | cut -c1-${CUT:-400}; done
rm -rf $d
