#!/usr/bin/env python3
"""Run the quick check of a property on scratch exports of /repo HEAD with each given patch applied.
usage: try_patches.py PROP patch1.diff [patch2.diff ...]   (prints CAUGHT / MISSED / ERROR-ONLY per patch)"""
import sys, subprocess, tempfile, shutil
from pathlib import Path
sys.path.insert(0, str(Path(__file__).resolve().parent))
from seeded_regress import export, run_check

prop = sys.argv[1]
for patch in sys.argv[2:]:
    tmp = Path(tempfile.mkdtemp(prefix="sa_try_"))
    try:
        export(tmp)
        pr = subprocess.run(["git", "apply", "--whitespace=nowarn", str(Path(patch).resolve())], cwd=tmp, capture_output=True, text=True)
        if pr.returncode != 0:
            print(patch, "NOAPPLY", pr.stderr[:200]); continue
        props = [prop] if prop != "ALL" else [f"C{i:02d}" for i in range(1, 21)]
        for p in props:
            rc, rules, errs = run_check(tmp, p, tmp / "_out")
            verdict = "CAUGHT" if rc == 1 else ("ERROR-ONLY" if rc == 2 else "MISSED")
            if prop != "ALL" or rc != 0:
                print(f"{Path(patch).name:16s} {p} {verdict:10s} {','.join(rules)} {errs[:1] if rc == 2 else ''}")
    finally:
        shutil.rmtree(tmp, ignore_errors=True)
