#!/bin/bash
# run every property's quick check on /repo; print only what is not clean; exit 1 if anything is not clean
cd /verif
bad=0
for p in C01 C02 C03 C04 C05 C06 C07 C08 C09 C10 C11 C12 C13 C14 C15 C16 C17 C18 C19 C20; do
  out=$(python3-vt -m sa check $p 2>&1 | grep -v WARNING)
  rc=$?
  if echo "$out" | grep -q "^VIOLATION\|ANALYSIS-ERROR"; then
    bad=1
    echo "$out" | grep "^VIOLATION\|ANALYSIS-ERROR\|^  ffcx" | cut -c1-220
  fi
done
[ $bad = 0 ] && echo "ALL 20 CLEAN"
exit $bad
