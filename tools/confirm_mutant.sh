#!/bin/bash
# Confirm a seeded change independently and store it under /verif/seeded/<id>/.
# usage: confirm_mutant.sh <id> <dir with patch.diff demo.py meta.json> <property>
# Steps (all in a scratch worktree of /repo's HEAD, removed afterwards):
#   1. demo on the clean tree must exit 0
#   2. patch applies; demo with the change must exit non-zero
#   3. the pinned test suite with the change must pass like the baseline (218 passed)
set -u
id=$1; src=$2; prop=$3
wt=$(mktemp -d /tmp/confirm_XXXX)
rmdir "$wt"
git -C /repo worktree add -q --detach "$wt" HEAD || exit 3
out=/verif/seeded/$id
mkdir -p "$out"
cp "$src/patch.diff" "$out/patch.diff"
cp "$src/demo.py" "$out/demo.py"
cd "$wt"
clean_rc=0; mut_rc=0
PYTHONPATH="$wt" timeout 900 /venv/bin/python "$out/demo.py" > "$out/demo_clean.log" 2>&1; clean_rc=$?
if git apply --check "$out/patch.diff" 2>/dev/null; then applied=yes; git apply "$out/patch.diff"; else
  if git apply --3way "$out/patch.diff" >/dev/null 2>&1; then applied=3way; git diff HEAD > "$out/patch.diff"; else applied=no; fi
fi
tests="not run"
if [ "$applied" != "no" ]; then
  PYTHONPATH="$wt" timeout 900 /venv/bin/python "$out/demo.py" > "$out/demo_mutated.log" 2>&1; mut_rc=$?
  /venv/bin/python -m pytest -q -p no:cacheprovider --timeout=900 -n 6 --dist loadfile test/ > "$out/tests.log" 2>&1
  tests=$(grep -E "passed|failed" "$out/tests.log" | tail -1)
fi
cd /
git -C /repo worktree remove --force "$wt"
python3 - "$id" "$src" "$prop" "$clean_rc" "$mut_rc" "$applied" "$tests" <<'EOF'
import json, sys, os
id_, src, prop, clean_rc, mut_rc, applied, tests = sys.argv[1:8]
meta = {}
try:
    meta = json.load(open(os.path.join(src, "meta.json")))
except Exception as e:
    meta = {"note": f"agent meta.json unreadable: {e}"}
out = {
    "id": id_,
    "property": prop,
    "summary": meta.get("summary"),
    "needs_to_manifest": meta.get("needs_to_manifest"),
    "files_changed": meta.get("files_changed"),
    "agent_report": {k: meta.get(k) for k in ("tests_run", "demo_without_change", "demo_with_change")},
    "confirmed_by_me": {
        "worktree": "scratch git worktree of /repo HEAD (removed afterwards)",
        "patch_applies": applied,
        "demo_clean_exit": int(clean_rc),
        "demo_mutated_exit": int(mut_rc),
        "test_suite_with_change": tests,
        "commands": [
            "/venv/bin/python demo.py   (clean tree)",
            "git apply patch.diff && /venv/bin/python demo.py",
            "/venv/bin/python -m pytest -q -p no:cacheprovider --timeout=900 -n 6 test/",
        ],
    },
}
ok = applied != "no" and int(clean_rc) == 0 and int(mut_rc) != 0 and "218 passed" in tests
out["kept"] = bool(ok)
json.dump(out, open(f"/verif/seeded/{id_}/meta.json", "w"), indent=1)
print(id_, "KEPT" if ok else "REJECTED", applied, clean_rc, mut_rc, tests)
EOF
tail -c 600 "$out/tests.log" > "$out/tests_tail.log" 2>/dev/null; rm -f "$out/tests.log"
