#!/bin/bash
# usage: apply_mut.sh <patch> <prop...> : apply to /repo, run quick checks, revert
patch=$1; shift
if [ -n "$(git -C /repo status --porcelain --untracked-files=no)" ]; then echo "REFUSING: /repo has uncommitted changes"; exit 8; fi
cd /repo && git apply --check "$patch" 2>/dev/null || { echo "PATCH DOES NOT APPLY (trying 3way)"; git apply --3way "$patch" || { echo "3way failed"; git reset -q --hard HEAD; exit 9; }; }
git apply "$patch" 2>/dev/null
cd /verif
for p in "$@"; do
  out=$(python3-vt -m sa check $p --tier quick 2>&1 | grep -v WARNING); rc=$?
  echo "== $p: $(echo "$out" | grep -c '^VIOLATION') violations; $(echo "$out" | grep -c 'ANALYSIS-ERROR') analysis-errors"
  echo "$out" | grep -E "^\s+ffcx|ANALYSIS-ERROR" | cut -c1-260 | head -8
done
cd /repo && git reset -q --hard HEAD && git status --short | grep -v '^??' | head
