#!/bin/bash
# Sequential confirmation queue. Lines "id srcdir prop" are appended to /tmp/confirm_queue.txt by hand.
touch /tmp/confirm_queue.txt /tmp/confirm_done.txt
while true; do
  line=$(grep -v -x -F -f /tmp/confirm_done.txt /tmp/confirm_queue.txt | head -1)
  if [ -z "$line" ]; then sleep 20; continue; fi
  set -- $line
  /verif/tools/confirm_mutant.sh "$1" "$2" "$3" >> /tmp/confirm_results.log 2>&1
  echo "$line" >> /tmp/confirm_done.txt
done
