"""debug helper: run one rule with a full traceback.  usage: python3-vt tools/dbg_rule.py RULE [repo_root]"""
import sys, traceback
sys.path.insert(0, "/verif")
from sa import rules  # noqa
from sa.model import Repo
from sa.registry import run_rule
from pathlib import Path
repo = Repo(Path(sys.argv[2])) if len(sys.argv) > 2 else Repo()
try:
    r = run_rule(sys.argv[1], repo)
    print(len(r.instances), "instances")
    for f in r.findings:
        print("FINDING", f.key, "|", f.msg[:400])
    for n in r.notes:
        print("note", n[:200])
except Exception:
    traceback.print_exc()
