#!/usr/bin/env python3
"""Generate /verif/MANIFEST.json from the per-property table below (single source of truth)."""

import json
import sys
from pathlib import Path

VERIF = Path(__file__).resolve().parent.parent
sys.path.insert(0, str(VERIF))

from sa import rules  # noqa: E402,F401
from sa.registry import RULES  # noqa: E402

# property -> (claimed?, level text, level note, technique, design_ref)
PROPS = json.loads((VERIF / "tools" / "props_table.json").read_text())

BASELINE_CMD = (
    "cd /repo && /venv/bin/python -m pytest -ra -q -p no:cacheprovider --timeout=900 "
    "--continue-on-collection-errors"
)


def main():
    all_ids = [json.loads(line)["id"] for line in (VERIF / "properties.jsonl").read_text().splitlines() if line.strip()]
    checks = []
    na = []
    for pid in all_ids:
        p = PROPS.get(pid)
        has_rules = any(pid in r["props"] for r in RULES.values())
        if p and p.get("claimed") and has_rules:
            rules_ = [n for n, r in RULES.items() if pid in r["props"]]
            checks.append(
                {
                    "property_id": pid,
                    "quick_cmd": f"python3-vt -m sa check {pid} --tier quick",
                    "thorough_cmd": f"python3-vt -m sa check {pid} --tier thorough",
                    "evidence_file": f"/verif/evidence/{pid}.json",
                    "replay_cmd_template": "python3-vt -m sa replay {path}",
                    "engine": "sa",
                    "level_claimed": {
                        "category": "other",
                        "text": p["text"] + " Rules: " + ", ".join(rules_) + ".",
                        "design_ref": p.get("design_ref", "DESIGN.md §5 " + pid),
                    },
                    "level_note": p["note"],
                    "technique": p["technique"],
                }
            )
        else:
            na.append({"property_id": pid, "reason": (p or {}).get("na_reason", "no sound static rule built yet for this property (see DESIGN.md §5)")})
    man = {
        "version": 1,
        "setup_cmd": "python3-vt -m compileall -q sa && python3-vt -m sa list > /dev/null",
        "hooks": {
            "guard": "FFCX_VERIF",
            "enable": "none: the checks read /repo's source with python3-vt's ast; no hook was added to /repo and nothing is built",
            "baseline_off_cmd": BASELINE_CMD,
            "source_commits": [],
            "add_only": True,
        },
        "engines": [
            {
                "name": "sa",
                "path": "/verif/sa",
                "serves_properties": [c["property_id"] for c in checks],
                "kind_free_text": "repository-specific static analysis: stdlib ast source model, structured CFG with exceptional edges, local def-use slices, table/template/header readers, rule registry with known-findings matching",
            }
        ],
        "checks": checks,
        "not_applicable": na,
        "notes": "All checks are static: they parse /repo/ffcx/**/*.py and ufcx.h on every run and never import or execute FFCx. Exit 0 = held, 1 = VIOLATION line, 2 = ANALYSIS-ERROR (vanished anchor / checker bug; never a property verdict). Thorough tier = same rules plus the rule self-test matrix (mutated scratch copies analysed, never executed).",
    }
    (VERIF / "MANIFEST.json").write_text(json.dumps(man, indent=1) + "\n")
    print(f"{len(checks)} checks, {len(na)} not_applicable")


if __name__ == "__main__":
    main()
