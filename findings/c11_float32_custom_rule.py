"""C11 / C09: a custom quadrature rule given as float32 arrays is not the rule the kernel integrates with.

The weights (and points) reach the generated code as NumPy float32 scalars, which both formatters print with str(): the shortest decimal that
identifies the number among float32 values (0.33333334).  Read by the C compiler as a double this is another number than the weight given
(0.3333333432674408): the integral deviates by ~1e-9 relative, also in float64 kernels.

Exit 0: every number of the emitted weights table is exactly a weight that was given.  Exit 1: otherwise.
"""
import re
import sys
import tempfile

import basix.ufl
import numpy as np
import ufl

import ffcx.codegeneration.jit

cell = "triangle"
mesh = ufl.Mesh(basix.ufl.element("P", cell, 1, shape=(2,)))
V = ufl.FunctionSpace(mesh, basix.ufl.element("P", cell, 1))
v = ufl.TestFunction(V)
w32 = np.array([1 / 3, 1 / 6], dtype=np.float32)
p32 = np.array([[0.1, 0.7], [0.7, 0.1]], dtype=np.float32)
md = {"quadrature_rule": "custom", "quadrature_points": p32, "quadrature_weights": w32}
L = v * ufl.dx(metadata=md)
with tempfile.TemporaryDirectory() as d:
    _, _, (decl, impl) = ffcx.codegeneration.jit.compile_forms([L], options={"scalar_type": "float64"}, cache_dir=d)
m = re.search(r"weights_\w+\[2\] = \{([^}]*)\}", impl)
assert m, "weights table not found in the generated code"
emitted = [float(x) for x in m.group(1).split(",")]
given = [float(x) for x in w32]
print("emitted:", m.group(1).strip(), " given:", given)
sys.exit(0 if emitted == given else 1)
