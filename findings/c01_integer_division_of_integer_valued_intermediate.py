"""C01 / C17: an intermediate whose operands are integer literals only is declared `int`, so a division it takes part in is C integer division.

(conditional(lt(x[0], 10.0), 3, 2) / 2) * v * dx on the reference triangle: the integrand is 3/2 everywhere, the element vector is
1.5 * (1/6) = 0.25 per entry.  The generated kernel declares `int sp = cond ? 3 : 2; int sp2 = sp / 2;` and tabulates 1/6.

Exit 0: the kernel gives 0.25.  Exit 1: it does not.
"""
import sys

import basix.ufl
import numpy as np
import ufl

import ffcx.codegeneration.jit

cell = "triangle"
mesh = ufl.Mesh(basix.ufl.element("P", cell, 1, shape=(2,)))
V = ufl.FunctionSpace(mesh, basix.ufl.element("P", cell, 1))
v = ufl.TestFunction(V)
x = ufl.SpatialCoordinate(mesh)
L = (ufl.conditional(ufl.lt(x[0], 10.0), 3, 2) / 2) * v * ufl.dx
compiled, module, code = ffcx.codegeneration.jit.compile_forms([L], options={"scalar_type": "float64"})
ffi = module.ffi
form = compiled[0]
kernel = getattr(form.form_integrals[0], "tabulate_tensor_float64")
A = np.zeros(3)
w = np.zeros(1)
c = np.zeros(1)
coords = np.array([0.0, 0.0, 0.0, 1.0, 0.0, 0.0, 0.0, 1.0, 0.0])
kernel(ffi.cast("double *", A.ctypes.data), ffi.cast("double *", w.ctypes.data), ffi.cast("double *", c.ctypes.data),
       ffi.cast("double *", coords.ctypes.data), ffi.NULL, ffi.NULL, ffi.NULL)
print("tabulated:", A, "expected:", [0.25] * 3)
if not np.allclose(A, 0.25):
    print("MISMATCH: the division was carried out on integers")
    sys.exit(1)
print("ok")
