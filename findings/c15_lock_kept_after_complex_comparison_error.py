"""C15: a code-generation failure that surfaces as an exception deriving from BaseException leaves the lock in the cache.

UFL's ComplexComparisonError (a comparison of complex values in a complex-mode form) derives from BaseException. compile_forms
releases the lock `<module>.c` (renames it to `.c.failed`) in `except Exception`, which does not catch it: the request raises, the lock
stays, and the next request for the same form waits for the timeout and raises TimeoutError instead of reporting the error again.

Exit 0: the second request fails with the same error (lock released).  Exit 1: it waits and times out / the lock is still there.
"""
import sys
import tempfile
from pathlib import Path

import basix.ufl
import ufl

import ffcx.codegeneration.jit

cell = "triangle"
mesh = ufl.Mesh(basix.ufl.element("P", cell, 1, shape=(2,)))
V = ufl.FunctionSpace(mesh, basix.ufl.element("P", cell, 1))
f, v = ufl.Coefficient(V), ufl.TestFunction(V)
L = ufl.conditional(ufl.lt(f, 0.5), 1.0, 2.0) * ufl.conj(v) * ufl.dx
cache = tempfile.mkdtemp()
kinds = []
for attempt in range(2):
    try:
        ffcx.codegeneration.jit.compile_forms([L], options={"scalar_type": "complex128"}, cache_dir=cache, timeout=3)
        kinds.append("built")
    except BaseException as e:  # noqa: B036
        kinds.append(type(e).__name__)
left = sorted(p.name[-12:] for p in Path(cache).iterdir())
print("attempts:", kinds, "cache:", left)
if kinds != ["ComplexComparisonError", "ComplexComparisonError"] or any(n.endswith(".c") for n in left):
    print("MISMATCH: the lock of the failed build was not released")
    sys.exit(1)
print("ok")
