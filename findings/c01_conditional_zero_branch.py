import ufl, basix.ufl, numpy as np, tempfile, basix
from ffcx.codegeneration.jit import compile_forms
import ffcx; print(ffcx.__file__)
cell="triangle"
el=basix.ufl.element("Lagrange",cell,1)
dom=ufl.Mesh(basix.ufl.element("Lagrange",cell,1,shape=(2,)))
V=ufl.FunctionSpace(dom,el)
u,v=ufl.TrialFunction(V),ufl.TestFunction(V)
x=ufl.SpatialCoordinate(dom)
a=ufl.conditional(ufl.lt(x[0],0.5), u*v, u.dx(1)*v)*ufl.dx(degree=2)
with tempfile.TemporaryDirectory() as d:
    compiled,mod,code=compile_forms([a],options={"scalar_type":np.float64},cache_dir=d)
    ffi=mod.ffi
    form=compiled[0]
    k=form.form_integrals[0].tabulate_tensor_float64
    A=np.zeros((3,3)); w=np.zeros(0); c=np.zeros(0)
    coords=np.array([[0,0,0],[1,0,0],[0,1,0]],dtype=np.float64)
    k(ffi.cast("double*",A.ctypes.data),ffi.cast("double*",w.ctypes.data),ffi.cast("double*",c.ctypes.data),ffi.cast("double*",coords.ctypes.data),ffi.NULL,ffi.NULL,ffi.NULL)
pts,wts=basix.make_quadrature(basix.CellType.triangle,2)
P=basix.create_element(basix.ElementFamily.P,basix.CellType.triangle,1)
tab=P.tabulate(1,pts)
ref=np.zeros((3,3))
for q in range(len(wts)):
    phi=tab[0,q,:,0]; dphi=tab[2,q,:,0]
    if pts[q,0]<0.5: ref+=wts[q]*np.outer(phi,phi)
    else: ref+=wts[q]*np.outer(phi,dphi)
print(np.abs(A-ref).max())
assert np.allclose(A,ref)
print("OK")
