"""C17 / C16 / C18: the quotient of two integer-typed LNodes operands is printed as a C integer division.

The overloaded operators fold `1.0 * 3` to the integer literal 3, so `(LiteralFloat(1.0) * LiteralInt(3)) / LiteralInt(2)` becomes
Div(LiteralInt(3), LiteralInt(2)); the C formatter prints `3 / 2`, which C evaluates to 1. The unsimplified operation (and the numba
backend, which prints the same tree as Python's `3 / 2`) gives 1.5.

Exit 0: the C text denotes 1.5.  Exit 1: it does not.
"""
import re
import sys

import cffi

import ffcx.codegeneration.lnodes as L
from ffcx.codegeneration.C.formatter import Formatter as CFormatter
from ffcx.codegeneration.numba.formatter import Formatter as NFormatter

tree = (L.LiteralFloat(1.0) * L.LiteralInt(3)) / L.LiteralInt(2)
ctext = CFormatter("float64")(tree)
ntext = NFormatter("float64")(tree)
ffi = cffi.FFI()
ffi.cdef("double f(void);")
lib = ffi.verify(f"double f(void) {{ return {ctext}; }}")
cval = lib.f()
nval = eval(re.sub(r"np\.\w+\(([^)]*)\)", r"\1", ntext))
print(f"tree: {tree!r}; C text `{ctext}` = {cval}; numba text `{ntext}` = {nval}; unsimplified 1.0*3/2 = 1.5")
if cval != 1.5:
    print("MISMATCH: C truncates the quotient of two integers")
    sys.exit(1)
print("ok")
