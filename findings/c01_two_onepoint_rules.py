import basix.ufl, ufl, numpy as np
import ffcx.compiler, ffcx.options
el = basix.ufl.element("Lagrange","triangle",2)
dom = ufl.Mesh(basix.ufl.element("Lagrange","triangle",1,shape=(2,)))
V = ufl.FunctionSpace(dom, el)
f = ufl.Coefficient(V); v = ufl.TestFunction(V)
def md(p): return {"quadrature_rule":"custom","quadrature_points":np.array([p]),"quadrature_weights":np.array([0.5])}
L = f*v*ufl.dx(metadata=md([0.2,0.2])) + f*v*ufl.dx(metadata=md([0.6,0.2]))
r = ffcx.compiler.compile_ufl_objects([L], options=ffcx.options.get_options(), namespace="x")
src = r[0][1]
i = src.find("void tabulate_tensor")
print(src[i:i+6000])
