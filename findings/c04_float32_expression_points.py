"""C04: the points an expression descriptor advertises are not the points its kernel was tabulated at when
the points are handed over as a float32 array.

The tables are tabulated at the float32 values (converted exactly to double), but the generator prints every
point with str(): np.float32(0.7) prints as "0.7", which the C compiler reads as the double 0.7 - another
number than 0.699999988079071. A caller that maps the descriptor's points to physical points evaluates
something else than the kernel does.

Exit 0: the descriptor lists exactly the tabulation points.  Exit 1: it does not.
"""
import re
import sys

import basix.ufl
import numpy as np
import ufl

import ffcx.compiler
import ffcx.options

cell = "triangle"
mesh = ufl.Mesh(basix.ufl.element("P", cell, 1, shape=(2,)))
x = ufl.SpatialCoordinate(mesh)
points = np.array([[0.1, 0.7], [0.3, 0.25]], dtype=np.float32)
(decl, impl), _ = ffcx.compiler.compile_ufl_objects([(x[0] * x[1], points)], options=ffcx.options.get_options({"scalar_type": "float64"}))
m = re.search(r"static double points_\w+\[(\d+)\] = \{([^}]*)\};", impl)
assert m, "points array not found in the generated source"
emitted = [float(t) for t in m.group(2).split(",")]
tabulated = [float(v) for v in points.flatten()]
print("emitted  :", emitted)
print("tabulated:", tabulated)
if emitted != tabulated:
    print("MISMATCH: the descriptor's points differ from the points the kernel's tables were evaluated at")
    sys.exit(1)
print("ok")
