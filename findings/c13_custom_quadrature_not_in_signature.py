"""C13 / C14: custom quadrature arrays do not enter the module name of a form.

UFL renders the arrays in integral metadata with str(): 8 significant digits, and "..." beyond 1000 entries.  Two forms whose custom
weights differ in the 10th digit (or in the middle of a long rule) have the same form.signature(), and ffcx.naming.compute_signature added
nothing of its own: the second form was served the first one's cached kernel.

Exit 0: the two forms get different module names.  Exit 1: the same.
"""
import sys

import basix.ufl
import numpy as np
import ufl

from ffcx.naming import compute_signature

cell = "triangle"
mesh = ufl.Mesh(basix.ufl.element("P", cell, 1, shape=(2,)))
V = ufl.FunctionSpace(mesh, basix.ufl.element("P", cell, 1))
v = ufl.TestFunction(V)


def form(weights, points):
    md = {"quadrature_rule": "custom", "quadrature_points": np.array(points), "quadrature_weights": np.array(weights)}
    return v * ufl.dx(metadata=md)


bad = 0
P = [[0.2, 0.2], [0.6, 0.2]]
n = 1200
long_p = [[i / 4096, 0.1] for i in range(n)]
w1 = [0.5 / n] * n
w2 = list(w1)
w2[600] *= 2
for label, a, b in (("weights differing in the 10th digit", form([0.25, 0.25], P), form([0.25 + 1e-9, 0.25], P)),
                    ("points differing in the 10th digit", form([0.25, 0.25], P), form([0.25, 0.25], [[0.2, 0.2], [0.6, 0.2 + 1e-9]])),
                    ("1200-point rules differing in the middle", form(w1, long_p), form(w2, long_p))):
    sa, sb = (compute_signature([f], "") for f in (a, b))
    same = sa == sb
    print(f"{label}: ufl signatures equal={a.signature() == b.signature()}  module names equal={same}")
    bad += same
sys.exit(1 if bad else 0)
