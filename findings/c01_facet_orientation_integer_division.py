import ufl, basix.ufl, numpy as np, tempfile
from ffcx.codegeneration.jit import compile_forms
cell="triangle"
dom=ufl.Mesh(basix.ufl.element("Lagrange",cell,1,shape=(2,)))
V=ufl.FunctionSpace(dom,basix.ufl.element("Lagrange",cell,1))
v=ufl.TestFunction(V)
res={}
for name,L in (("div",(ufl.classes.FacetOrientation(dom)/2)*v*ufl.ds),("mul",0.5*ufl.classes.FacetOrientation(dom)*v*ufl.ds)):
    with tempfile.TemporaryDirectory() as d:
        c,m,code=compile_forms([L],options={"scalar_type":np.float64},cache_dir=d)
        ffi=m.ffi; k=c[0].form_integrals[0].tabulate_tensor_float64
        out=[]
        for facet in range(3):
            A=np.zeros(3); w=np.zeros(0); cc=np.zeros(0)
            coords=np.array([[0,0,0],[1,0,0],[0,1,0]],dtype=np.float64)
            e=np.array([facet],dtype=np.intc)
            k(ffi.cast("double*",A.ctypes.data),ffi.cast("double*",w.ctypes.data),ffi.cast("double*",cc.ctypes.data),ffi.cast("double*",coords.ctypes.data),ffi.cast("int*",e.ctypes.data),ffi.NULL,ffi.NULL)
            out.append(A.copy())
        res[name]=np.array(out)
        if name=="div":
            import re
            print([l for l in code[1].split("\n") if "orientation" in l][:6])
print(res["div"]); print(res["mul"])
assert np.allclose(res["div"],res["mul"]), "FacetOrientation/2 differs from 0.5*FacetOrientation"
print("OK")
