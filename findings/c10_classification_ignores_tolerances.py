import ufl, basix.ufl, numpy as np, tempfile
from ffcx.codegeneration.jit import compile_forms
cell="triangle"
dom=ufl.Mesh(basix.ufl.element("Lagrange",cell,1,shape=(2,)))
el=basix.ufl.element("Bubble",cell,3)
V=ufl.FunctionSpace(dom,el)
v=ufl.TestFunction(V)
pts=np.array([[1e-11,0.3]]); wts=np.array([1.0])
L=v*ufl.dx(metadata={"quadrature_rule":"custom","quadrature_points":pts,"quadrature_weights":wts})
with tempfile.TemporaryDirectory() as d:
    compiled,mod,code=compile_forms([L],options={"scalar_type":np.float64,"table_atol":1e-16,"table_rtol":1e-16},cache_dir=d)
    ffi=mod.ffi
    k=compiled[0].form_integrals[0].tabulate_tensor_float64
    A=np.zeros(1); w=np.zeros(0); c=np.zeros(0)
    coords=np.array([[0,0,0],[1,0,0],[0,1,0]],dtype=np.float64)
    k(ffi.cast("double*",A.ctypes.data),ffi.cast("double*",w.ctypes.data),ffi.cast("double*",c.ctypes.data),ffi.cast("double*",coords.ctypes.data),ffi.NULL,ffi.NULL,ffi.NULL)
import basix
B=basix.create_element(basix.ElementFamily.bubble,basix.CellType.triangle,3)
ref=B.tabulate(0,pts)[0,0,0,0]
print(A[0], ref)
assert abs(A[0]-ref) <= 1e-16 + 1e-16*abs(ref) + 1e-25, "result moved by more than the configured tolerances"
print("OK")
