"""C19: a Bessel function of non-integer order is accepted and computed with the order truncated to an integer.

bessel_J(0.5, x[0]) * v * dx: FFCx emits `jn(0.5, ...)`; <math.h>'s jn takes an `int` order, so C converts 0.5 to 0 without a
diagnostic and the kernel integrates J_0. FFCx cannot generate J_0.5 with the C library: the input must be rejected.

Exit 0: rejected in Python.  Exit 1: accepted (the generated code calls jn with a non-integer order).
"""
import sys

import basix.ufl
import ufl

import ffcx.compiler
import ffcx.options

cell = "triangle"
mesh = ufl.Mesh(basix.ufl.element("P", cell, 1, shape=(2,)))
V = ufl.FunctionSpace(mesh, basix.ufl.element("P", cell, 1))
v = ufl.TestFunction(V)
x = ufl.SpatialCoordinate(mesh)
L = ufl.bessel_J(0.5, x[0] + 1.0) * v * ufl.dx
try:
    (decl, impl), _ = ffcx.compiler.compile_ufl_objects([L], options=ffcx.options.get_options({"scalar_type": "float64"}))
except Exception as e:
    print("rejected:", type(e).__name__, str(e)[:80])
    sys.exit(0)
import re
calls = re.findall(r"jn\([^,]+,", impl)
print("ACCEPTED; generated calls:", calls[:2])
sys.exit(1)
