"""C13 / C14: two quadrature elements with the same repr whose rules are exchanged between two coefficients.

Q1 and Q2 are 501-point quadrature elements that differ only in rows NumPy's repr elides.  A = f{Q1}*v*dx(1) + g{Q2}*v*dx(2) and
B = f{Q2}*v*dx(1) + g{Q1}*v*dx(2) integrate dx(1) with different rules, but the digests of the rules were sorted before they entered the
signature, so A and B shared a module name.

Exit 0: different module names.  Exit 1: the same.
"""
import sys

import basix.ufl
import numpy as np
import ufl

from ffcx.naming import compute_signature

cell = "triangle"
mesh = ufl.Mesh(basix.ufl.element("P", cell, 1, shape=(2,)))
V = ufl.FunctionSpace(mesh, basix.ufl.element("P", cell, 1))
v = ufl.TestFunction(V)
n = 501
pts1 = np.array([[i / (4 * n), 0.1] for i in range(n)])
pts2 = pts1.copy()
pts2[100:400, 1] = 0.2
w = np.full(n, 0.5 / n)
Q1 = ufl.FunctionSpace(mesh, basix.ufl.quadrature_element(cell, value_shape=(), points=pts1, weights=w))
Q2 = ufl.FunctionSpace(mesh, basix.ufl.quadrature_element(cell, value_shape=(), points=pts2, weights=w))
assert repr(Q1.ufl_element()) == repr(Q2.ufl_element()) and Q1.ufl_element() != Q2.ufl_element()


def form(S1, S2):
    f, g = ufl.Coefficient(S1), ufl.Coefficient(S2)
    return f * v * ufl.dx(1) + g * v * ufl.dx(2)


def expression(S1, S2):
    f, g = ufl.Coefficient(S1), ufl.Coefficient(S2)
    return (f * v + 2 * g * v, np.array([[0.25, 0.25]]))


bad = 0
for kind, make in (("forms", form), ("expressions", expression)):
    a, b = compute_signature([make(Q1, Q2)], ""), compute_signature([make(Q2, Q1)], "")
    print(f"{kind} with the two rules exchanged: module names equal={a == b}")
    bad += a == b
sys.exit(1 if bad else 0)
