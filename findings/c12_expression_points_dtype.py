"""C12 / C13: the text generated for an expression depends on the dtype of the points array, the module name does not.

Points given as a float32 array and the same values given as float64 get the same module name (the signature hashes their double-precision
values) but different generated text: the quadrature rule is identified by a digest of the raw buffer, which names every table.  Which of
the two texts a shared cache holds under the name depends on which request came first.

Exit 0: same name and same text.  Exit 1: same name, different text.
"""
import sys

import basix.ufl
import numpy as np
import ufl

import ffcx.codegeneration.jit
from ffcx.naming import compute_signature

cell = "triangle"
mesh = ufl.Mesh(basix.ufl.element("P", cell, 1, shape=(2,)))
V = ufl.FunctionSpace(mesh, basix.ufl.element("P", cell, 2))
f = ufl.Coefficient(V)
p64 = np.array([[0.25, 0.5], [0.5, 0.125]], dtype=np.float64)   # exactly representable in single precision
p32 = p64.astype(np.float32)
assert np.array_equal(p64, p32.astype(np.float64))
texts, names = [], []
for pts in (p64, p32):
    names.append(compute_signature([(f * f, pts)], ""))
    _, _, (decl, impl) = ffcx.codegeneration.jit.compile_expressions([(f * f, pts)], options={"scalar_type": "float64"})
    texts.append(impl)
print("module names equal:", names[0] == names[1], " generated text equal:", texts[0] == texts[1])
sys.exit(0 if (names[0] != names[1] or texts[0] == texts[1]) else 1)
