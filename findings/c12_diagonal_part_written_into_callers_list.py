"""C12: compile_forms(forms, options={"part": "diagonal"}) writes the diagonal form into the caller's list.

The next compilation of the same list with part="full" then compiles the diagonal part: the result for (forms, options) depends on what was
compiled before.

Exit 0: the caller's list is unchanged and the second compilation is of the full form.  Exit 1: otherwise.
"""
import sys

import basix.ufl
import numpy as np
import ufl

import ffcx.codegeneration.jit

cell = "triangle"
mesh = ufl.Mesh(basix.ufl.element("P", cell, 1, shape=(2,)))
P1 = basix.ufl.element("P", cell, 1)
W = ufl.FunctionSpace(mesh, basix.ufl.mixed_element([P1, P1]))
(u0, u1), (v0, v1) = ufl.TrialFunctions(W), ufl.TestFunctions(W)
a = (u0 * v0 + u1 * v1 + u0 * v1) * ufl.dx
forms = [a]


def element_tensor(obj):
    ffi = obj  # noqa
    k = obj.form_integrals[0].tabulate_tensor_float64
    A = np.zeros((6, 6))
    w = np.zeros(1)
    c = np.zeros(1)
    x = np.array([0.0, 0, 0, 1, 0, 0, 0, 1, 0])
    import cffi
    f = cffi.FFI()
    k(f.cast("double *", A.ctypes.data), f.cast("double *", w.ctypes.data), f.cast("double *", c.ctypes.data), f.cast("double *", x.ctypes.data),
      f.NULL, f.NULL, f.NULL)
    return A


fresh, _, _ = ffcx.codegeneration.jit.compile_forms([a], options={"part": "full"})
A_full = element_tensor(fresh[0])
ffcx.codegeneration.jit.compile_forms(forms, options={"part": "diagonal"})
unchanged = forms[0] is a
again, _, _ = ffcx.codegeneration.jit.compile_forms(forms, options={"part": "full"})
A_again = element_tensor(again[0])
same = np.allclose(A_full, A_again)
print(f"caller's list unchanged: {unchanged};  full compilation after a diagonal one gives the full element matrix: {same}")
sys.exit(0 if unchanged and same else 1)
