import ufl, basix.ufl, numpy as np, tempfile
from ffcx.codegeneration.jit import compile_forms
cell="triangle"
dom=ufl.Mesh(basix.ufl.element("Lagrange",cell,1,shape=(2,)))
V=ufl.FunctionSpace(dom,basix.ufl.element("Lagrange",cell,1))
u,v=ufl.TrialFunction(V),ufl.TestFunction(V)
a=u*v*ufl.dx(2**31)+u*v*ufl.dx(5,degree=1)
try:
    with tempfile.TemporaryDirectory() as d:
        compiled,mod,code=compile_forms([a],options={"scalar_type":np.float64},cache_dir=d)
        f=compiled[0]
        off=[f.form_integral_offsets[i] for i in range(2)]
        ids=[f.form_integral_ids[i] for i in range(off[1])]
        print("ids",ids)
        assert ids==sorted(ids) and all(i>=-1 for i in ids), f"ids wrapped / out of order: {ids}"
except ValueError as e:
    print("rejected:", e)
print("OK")
