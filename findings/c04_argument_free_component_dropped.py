"""C04 / C19: a rank-1 expression with a component that does not depend on the argument.

as_vector([u, f]) with a trial function u and a coefficient f: the factorisation treats the argument-free component as zero ("zero form of
arity 1"), the kernel leaves A[:, 1, :] untouched and nothing is reported - although the value of that component is f, not 0.  (The sum u + f
is rejected; UFL's arity check covers forms only.)

Exit 0: the expression is rejected (or, should it ever be supported, compiled).  Exit 1: compiled with the component silently dropped.
"""
import sys

import basix.ufl
import numpy as np
import ufl

import ffcx.codegeneration.jit

cell = "triangle"
mesh = ufl.Mesh(basix.ufl.element("P", cell, 1, shape=(2,)))
V = ufl.FunctionSpace(mesh, basix.ufl.element("P", cell, 1))
u, f = ufl.TrialFunction(V), ufl.Coefficient(V)
pts = np.array([[0.25, 0.25], [0.5, 0.1]])
bad = 0
for label, e, must_compile in (("as_vector([u, f])", ufl.as_vector([u, f]), False), ("as_vector([f*u, f])", ufl.as_vector([f * u, f]), False),
                               ("as_vector([u, 0])", ufl.as_vector([u, 0]), True), ("as_vector([u, 2*u])", ufl.as_vector([u, 2 * u]), True)):
    try:
        ffcx.codegeneration.jit.compile_expressions([(e, pts)], options={"scalar_type": "float64"})
        print(f"{label}: compiled")
        bad += not must_compile
    except BaseException as ex:
        print(f"{label}: rejected ({type(ex).__name__}: {str(ex)[:70]})")
        bad += must_compile
sys.exit(1 if bad else 0)
