"""C19: an expression that orders a complex-valued quantity is accepted in complex mode and becomes invalid C.

compile_expressions([(conditional(lt(f, 0.5), 1.0, 2.0), points)], scalar_type=complex128) with a P1 coefficient f: UFL checks
comparisons of forms in complex mode (ComplexComparisonError), expressions are not checked by UFL and FFCx does not check them either:
the generated kernel contains `w0 < 0.5` on a `double _Complex`, which the C compiler rejects.

Exit 0: the request is rejected in Python (or builds).  Exit 1: it reaches the C compiler and fails there.
"""
import sys

import basix.ufl
import numpy as np
import ufl

import ffcx.codegeneration.jit

cell = "triangle"
mesh = ufl.Mesh(basix.ufl.element("P", cell, 1, shape=(2,)))
V = ufl.FunctionSpace(mesh, basix.ufl.element("P", cell, 1))
f = ufl.Coefficient(V)
expr = ufl.conditional(ufl.lt(f, 0.5), 1.0, 2.0)
points = np.array([[0.25, 0.25]])
try:
    ffcx.codegeneration.jit.compile_expressions([(expr, points)], options={"scalar_type": "complex128"})
except BaseException as e:  # UFL's ComplexComparisonError derives from BaseException
    name = type(e).__name__
    print("raised:", name, str(e)[:100].replace("\n", " "))
    if "Compile" in name or "Verification" in name or "compil" in str(e).lower():
        print("MISMATCH: the request was accepted by FFCx and failed in the C compiler")
        sys.exit(1)
    print("ok: rejected before the C compiler")
    sys.exit(0)
print("ok: built")
