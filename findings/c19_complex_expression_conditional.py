import ufl, basix.ufl, numpy as np, tempfile
from ffcx.codegeneration.jit import compile_expressions
import ffcx; print(ffcx.__file__)
cell="triangle"
dom=ufl.Mesh(basix.ufl.element("Lagrange",cell,1,shape=(2,)))
V=ufl.FunctionSpace(dom,basix.ufl.element("Lagrange",cell,1))
f=ufl.Coefficient(V)
x=ufl.SpatialCoordinate(dom)
e=ufl.conditional(ufl.lt(x[0]*x[1],0.1), f, 2*f)
pts=np.array([[0.1,0.2],[0.6,0.3]])
for st in (np.float64, np.complex128):
    with tempfile.TemporaryDirectory() as d:
        compiled,mod,code=compile_expressions([(e,pts)],options={"scalar_type":st},cache_dir=d)
        ffi=mod.ffi
        k=getattr(compiled[0], "tabulate_tensor_"+np.dtype(st).name)
        A=np.zeros(2,dtype=st); w=np.array([1.0,2.0,3.0],dtype=st); c=np.zeros(0,dtype=st)
        coords=np.array([[0,0,0],[1,0,0],[0,1,0]],dtype=np.float64)
        ct = "double _Complex*" if st==np.complex128 else "double*"
        k(ffi.cast(ct,A.ctypes.data),ffi.cast(ct,w.ctypes.data),ffi.cast(ct,c.ctypes.data),ffi.cast("double*",coords.ctypes.data),ffi.NULL,ffi.NULL,ffi.NULL)
        fv=[1*(1-p[0]-p[1])+2*p[0]+3*p[1] for p in pts]
        ref=[fv[0] if pts[0,0]*pts[0,1]<0.1 else 2*fv[0], fv[1] if pts[1,0]*pts[1,1]<0.1 else 2*fv[1]]
        print(st.__name__, A, ref)
        assert np.allclose(A,ref)
print("OK")
