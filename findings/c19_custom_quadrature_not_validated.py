"""C19 / C11: custom quadrature rules are not validated.

(a) three points and two weights are accepted: the kernel integrates over the first two points only, silently;
(b) weights given as an (n, 1) column are accepted: the table is declared weights_x[n][1] and used as a scalar - the C compiler rejects it.

Exit 0: both are rejected with a Python exception before anything is compiled.  Exit 1: otherwise.
"""
import sys

import basix.ufl
import numpy as np
import ufl

import ffcx.codegeneration.jit

cell = "triangle"
mesh = ufl.Mesh(basix.ufl.element("P", cell, 1, shape=(2,)))
V = ufl.FunctionSpace(mesh, basix.ufl.element("P", cell, 1))
v = ufl.TestFunction(V)
bad = 0
for label, pts, wts in (("three points, two weights", [[0.2, 0.2], [0.6, 0.2], [0.2, 0.6]], [0.25, 0.25]),
                        ("weights as a column", [[0.2, 0.2], [0.6, 0.2]], [[0.25], [0.25]])):
    md = {"quadrature_rule": "custom", "quadrature_points": np.array(pts), "quadrature_weights": np.array(wts)}
    L = v * ufl.dx(metadata=md)
    try:
        ffcx.codegeneration.jit.compile_forms([L], options={"scalar_type": "float64"})
        print(f"{label}: ACCEPTED and built")
        bad += 1
    except Exception as e:
        name = type(e).__name__
        msg = str(e)[:80].replace("\n", " ")
        if "Verification" in name or "Compile" in name:
            print(f"{label}: accepted by FFCx, failed in the C compiler ({name})")
            bad += 1
        else:
            print(f"{label}: rejected ({name}: {msg})")
sys.exit(1 if bad else 0)
