import ufl, basix.ufl, numpy as np, tempfile, sys
from ffcx.codegeneration.jit import compile_forms, compile_expressions
cell="triangle"
dom=ufl.Mesh(basix.ufl.element("Lagrange",cell,1,shape=(2,)))
V=ufl.FunctionSpace(dom,basix.ufl.element("Lagrange",cell,1))
u,v=ufl.TrialFunction(V),ufl.TestFunction(V)
f=ufl.Coefficient(V)
def run(label, fn):
    try:
        r=fn(); print(label, "->", r)
    except Exception as e:
        print(label, "-> EXC", type(e).__name__, str(e)[:150].replace("\n"," "))
def q4():
    L=ufl.bessel_J(1,f)*ufl.conj(v)*ufl.dx
    with tempfile.TemporaryDirectory() as d:
        c,m,_=compile_forms([L],options={"scalar_type":np.complex128},cache_dir=d)
        ffi=m.ffi; k=c[0].form_integrals[0].tabulate_tensor_complex128
        out=[]
        for val in (1.0, 1+1j):
            A=np.zeros(3,dtype=np.complex128); w=np.full(3,val,dtype=np.complex128); cc=np.zeros(0,dtype=np.complex128)
            coords=np.array([[0,0,0],[1,0,0],[0,1,0]],dtype=np.float64)
            k(ffi.cast("double _Complex*",A.ctypes.data),ffi.cast("double _Complex*",w.ctypes.data),ffi.cast("double _Complex*",cc.ctypes.data),ffi.cast("double*",coords.ctypes.data),ffi.NULL,ffi.NULL,ffi.NULL)
            out.append(A[0])
        return out
def q5():
    K=ufl.Constant(dom,shape=(np.int64(2),))
    with tempfile.TemporaryDirectory() as d:
        c,m,_=compile_forms([K[0]*u*v*ufl.dx],options={"scalar_type":np.float64},cache_dir=d)
        return "compiled"
def q6():
    pts=np.array([[0.25,0.25]])
    with tempfile.TemporaryDirectory() as d:
        c,m,_=compile_expressions([(u+f,pts)],options={"scalar_type":np.float64},cache_dir=d)
        ffi=m.ffi; k=c[0].tabulate_tensor_float64
        A=np.zeros(3); w=np.array([5.0,5.0,5.0]); cc=np.zeros(0)
        coords=np.array([[0,0,0],[1,0,0],[0,1,0]],dtype=np.float64)
        k(ffi.cast("double*",A.ctypes.data),ffi.cast("double*",w.ctypes.data),ffi.cast("double*",cc.ctypes.data),ffi.cast("double*",coords.ctypes.data),ffi.NULL,ffi.NULL,ffi.NULL)
        return A
def q9():
    L=(ufl.classes.FacetOrientation(dom)/2)*v*ufl.ds
    with tempfile.TemporaryDirectory() as d:
        c,m,code=compile_forms([L],options={"scalar_type":np.float64},cache_dir=d)
        ffi=m.ffi; k=c[0].form_integrals[0].tabulate_tensor_float64
        A=np.zeros(3); w=np.zeros(0); cc=np.zeros(0)
        coords=np.array([[0,0,0],[1,0,0],[0,1,0]],dtype=np.float64)
        e=np.array([0],dtype=np.intc)
        k(ffi.cast("double*",A.ctypes.data),ffi.cast("double*",w.ctypes.data),ffi.cast("double*",cc.ctypes.data),ffi.cast("double*",coords.ctypes.data),ffi.cast("int*",e.ctypes.data),ffi.NULL,ffi.NULL)
        return A
for n,fn in (("Q4 bessel complex",q4),("Q5 np.int64 shape",q5),("Q6 expr u+f",q6),("Q9 int division",q9)):
    run(n,fn)
