"""C13 / C14: the custom rule of a quadrature element does not enter the module name exactly.

UFL's signatures see an element through repr(element); basix renders the points and weights of a quadrature element with NumPy's repr (8
significant digits, "..." beyond 1000 entries).  Two forms (or expressions) over quadrature elements whose rules differ beyond that get the
same module name: with a shared cache the second is served the first one's kernels.

Exit 0: different module names.  Exit 1: the same.
"""
import sys

import basix.ufl
import numpy as np
import ufl

from ffcx.naming import compute_signature

cell = "triangle"
mesh = ufl.Mesh(basix.ufl.element("P", cell, 1, shape=(2,)))
V = ufl.FunctionSpace(mesh, basix.ufl.element("P", cell, 1))
v = ufl.TestFunction(V)


def qspace(points, weights):
    e = basix.ufl.quadrature_element(cell, value_shape=(), points=np.array(points), weights=np.array(weights))
    return ufl.FunctionSpace(mesh, e)


def form(points, weights):
    return ufl.Coefficient(qspace(points, weights)) * v * ufl.dx


def expression(points, weights):
    return (ufl.Coefficient(qspace(points, weights)) * v, np.array([[0.25, 0.25]]))


P = [[0.2, 0.2], [0.6, 0.2]]
n = 1200
long_p = [[i / 4096, 0.1] for i in range(n)]
w1 = [0.5 / n] * n
w2 = list(w1)
w2[600] *= 2
bad = 0
for kind, make in (("form", form), ("expression", expression)):
    for label, a, b in (("weights differing in the 10th digit", make(P, [0.25, 0.25]), make(P, [0.25 + 1e-9, 0.25])),
                        ("points differing in the 10th digit", make(P, [0.25, 0.25]), make([[0.2, 0.2], [0.6, 0.2 + 1e-9]], [0.25, 0.25])),
                        ("1200-point rules differing in the middle", make(long_p, w1), make(long_p, w2))):
        sa, sb = (compute_signature([f], "") for f in (a, b))
        print(f"{kind}, quadrature element with {label}: module names equal={sa == sb}")
        bad += sa == sb
sys.exit(1 if bad else 0)
