"""C20/C19: (a) a namespace that is not a C identifier, (b) one expression listed at two point sets: the generated pair must not be
emitted with invalid / duplicate global names - FFCx has to refuse (ValueError) or emit distinct valid names."""
import re, ufl, basix.ufl, numpy as np
from ffcx.compiler import compile_ufl_objects
from ffcx.options import get_options
cell="triangle"
dom=ufl.Mesh(basix.ufl.element("Lagrange",cell,1,shape=(2,)))
V=ufl.FunctionSpace(dom,basix.ufl.element("Lagrange",cell,1))
u,v=ufl.TrialFunction(V),ufl.TestFunction(V)
f=ufl.Coefficient(V)
a=u*v*ufl.dx
opts=get_options({})
bad=[]
try:
    src,_=compile_ufl_objects([a],opts,object_names={id(a):"a"},namespace="a-b")
    names=re.findall(r"ufcx_form\*\s+([^\s;=]+)", src[0])
    if any(not re.fullmatch(r"[A-Za-z_]\w*", n) for n in names): bad.append(f"invalid identifiers {names}")
except ValueError as e:
    print("namespace rejected:", e)
flux=ufl.grad(f)
p1=np.array([[0.25,0.25]]); p2=np.array([[0.5,0.25]])
try:
    src,_=compile_ufl_objects([(flux,p1),(flux,p2)],opts,object_names={id(flux):"flux"},namespace="ns")
    decl=re.findall(r"extern ufcx_expression\*\s+(\w+);", src[0])
    if len(set(decl))!=len(decl): bad.append(f"alias declared twice: {decl}")
except ValueError as e:
    print("duplicate alias rejected:", e)
assert not bad, bad
print("OK")
