"""CLI: python3-vt -m sa check <PROP> [--tier quick|thorough] [--only RULE]
        python3-vt -m sa list
        python3-vt -m sa selftest [--prop PROP] [--jobs N]
"""

from __future__ import annotations

import argparse
import os
import sys
import time
import traceback


def main(argv=None) -> int:
    ap = argparse.ArgumentParser(prog="sa")
    sub = ap.add_subparsers(dest="cmd", required=True)
    c = sub.add_parser("check")
    c.add_argument("prop")
    c.add_argument("--tier", default=os.environ.get("VERIF_TIER", "quick"), choices=["quick", "thorough"])
    c.add_argument("--only", default=None, help="run a single rule")
    c.add_argument("--no-selftest", action="store_true")
    sub.add_parser("list")
    rp = sub.add_parser("replay")
    rp.add_argument("path")
    s = sub.add_parser("selftest")
    s.add_argument("--prop", default=None)
    s.add_argument("--jobs", type=int, default=16)
    s.add_argument("--only", default=None)
    args = ap.parse_args(argv)

    from . import rules  # noqa: F401  (registers everything)
    from .model import AnalysisError, Repo
    from .registry import RULES, rules_for, run_rule
    from .report import finish

    if args.cmd == "list":
        for n, r in RULES.items():
            print(f"{n:24s} {','.join(r['props']):20s} tier={r['tier']} min={r['min_instances']}")
        return 0

    if args.cmd == "replay":
        import json

        d = json.load(open(args.path))
        print(f"replaying rule {d['finding']['rule']} of {d['property']} (recorded finding: {d['finding']['key']})")
        return main(["check", d["property"], "--tier", "quick", "--only", d["finding"]["rule"]])

    if args.cmd == "selftest":
        from .selftest import run_selftest

        return run_selftest(prop=args.prop, jobs=args.jobs, only=args.only)

    t0 = time.time()
    prop = args.prop
    try:
        repo = Repo()
        names = rules_for(prop, args.tier)
        if args.only:
            names = [n for n in names if n == args.only]
        if not names:
            print(f"ANALYSIS-ERROR property={prop}: no rule registered")
            return 2
        results = []
        errors = []
        for n in names:
            try:
                results.append(run_rule(n, repo))
            except AnalysisError as e:
                errors.append(f"{n}: {e}")
            except Exception as e:  # a bug in one rule must not hide the other rules' verdicts
                tb = traceback.extract_tb(e.__traceback__)[-1]
                errors.append(f"{n}: internal error {type(e).__name__}: {e} ({tb.filename.split('/')[-1]}:{tb.lineno})")
        # second opinions: an analysis error is tolerated when the rules deciding the same obligations by other means completed
        from .registry import apply_cover, apply_demote

        demoted = apply_demote(results, repo) if not args.only else []

        tolerated = []
        if not args.only:
            errors, tolerated = apply_cover(errors, {r.rule for r in results}, repo)
        extra = {
            "modules_parsed": len(repo.modules),
            "functions_in_repo": sum(len(m.funcs) for m in repo.modules.values()),
            "repo_root": str(repo.root),
        }
        if args.tier == "thorough" and not args.no_selftest:
            from .selftest import selftest_for_check

            st = selftest_for_check(prop)
            extra["selftest"] = st
            if st.get("failed"):
                print(f"ANALYSIS-ERROR property={prop}: rule self-test failed: {st['failed']}")
                return 2
        if errors:
            extra["analysis_errors"] = errors
        if tolerated:
            extra["second_opinion_unavailable"] = tolerated
        if demoted:
            extra["structural_second_opinions_overruled"] = demoted
        rc = finish(prop, args.tier, results, t0, extra) if results else 0
        for d_ in demoted:
            print(f"NOTE property={prop}: structural second opinion overruled by the interpreting rule: {d_[:200]}")
        for e in tolerated:
            print(f"NOTE property={prop}: second opinion unavailable ({e}); the same obligations were decided by the covering rule(s)")
        for e in errors:
            print(f"ANALYSIS-ERROR property={prop}: {e}")
        if rc == 1:
            return 1  # a violation found by one rule stands even if another rule could not run
        return 2 if errors else rc
    except AnalysisError as e:
        print(f"ANALYSIS-ERROR property={prop}: {e}")
        return 2
    except Exception:  # a bug in the checker is not a violation
        traceback.print_exc()
        print(f"ANALYSIS-ERROR property={prop}: internal error in checker")
        return 2


if __name__ == "__main__":
    sys.exit(main())
