"""E3 (light): local def-use slices inside one function, flow-insensitive but scope-exact.

`Slicer(func).roots(expr)` answers "which expressions can this value be computed from": it expands
names through every local assignment (tuple unpacking keeps the whole right-hand side), for-loop
targets expand to the iterable, with-targets to the context expression, parameters stay as
parameters. Used for "same source", "contains constant", "derives from parameter" questions.
"""

from __future__ import annotations

import ast

from .model import walk_no_nested


class Slicer:
    def __init__(self, fnode: ast.FunctionDef):
        self.fnode = fnode
        self.params = {a.arg for a in fnode.args.posonlyargs + fnode.args.args + fnode.args.kwonlyargs}
        if fnode.args.vararg:
            self.params.add(fnode.args.vararg.arg)
        if fnode.args.kwarg:
            self.params.add(fnode.args.kwarg.arg)
        self.defs: dict[str, list[ast.AST]] = {}
        for n in walk_no_nested(fnode):
            if isinstance(n, ast.Assign):
                for t in n.targets:
                    self._bind(t, n.value)
            elif isinstance(n, ast.AnnAssign) and n.value is not None:
                self._bind(n.target, n.value)
            elif isinstance(n, ast.AugAssign):
                self._bind(n.target, n.value)
            elif isinstance(n, (ast.For, ast.AsyncFor)):
                self._bind(n.target, n.iter)
            elif isinstance(n, (ast.With, ast.AsyncWith)):
                for it in n.items:
                    if it.optional_vars is not None:
                        self._bind(it.optional_vars, it.context_expr)
            elif isinstance(n, ast.NamedExpr):
                self._bind(n.target, n.value)
            elif isinstance(n, ast.comprehension):
                self._bind(n.target, n.iter)

    def _bind(self, target, value):
        for t in ast.walk(target):
            if isinstance(t, ast.Name) and isinstance(t.ctx, ast.Store):
                self.defs.setdefault(t.id, []).append(value)

    def expand(self, expr: ast.AST, depth: int = 6) -> list[ast.AST]:
        """All expressions in the backward slice of expr (including expr)."""
        out: list[ast.AST] = []
        seen: set[int] = set()
        todo = [(expr, 0)]
        while todo:
            e, d = todo.pop()
            if id(e) in seen:
                continue
            seen.add(id(e))
            out.append(e)
            if d >= depth:
                continue
            for n in ast.walk(e):
                if isinstance(n, ast.Name) and isinstance(n.ctx, ast.Load) and n.id in self.defs:
                    for v in self.defs[n.id]:
                        todo.append((v, d + 1))
        return out

    def text(self, expr: ast.AST, depth: int = 6) -> str:
        return " ;; ".join(ast.unparse(e) for e in self.expand(expr, depth))

    def constants(self, expr: ast.AST, depth: int = 6) -> set:
        out = set()
        for e in self.expand(expr, depth):
            for n in ast.walk(e):
                if isinstance(n, ast.Constant):
                    out.add(n.value)
        return out

    def names(self, expr: ast.AST, depth: int = 6) -> set[str]:
        out = set()
        for e in self.expand(expr, depth):
            for n in ast.walk(e):
                if isinstance(n, ast.Name):
                    out.add(n.id)
        return out

    def param_roots(self, expr: ast.AST, depth: int = 6) -> set[str]:
        return self.names(expr, depth) & self.params

    def attr_chains(self, expr: ast.AST, depth: int = 6) -> set[str]:
        from .model import dotted

        out = set()
        for e in self.expand(expr, depth):
            for n in ast.walk(e):
                if isinstance(n, ast.Attribute):
                    d = dotted(n)
                    if d:
                        out.add(d)
        return out
