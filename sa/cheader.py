"""E5: a small declaration reader for ffcx/codegeneration/ufcx.h (enums, structs, kernel typedefs)."""

from __future__ import annotations

import re
from dataclasses import dataclass, field

from .model import AnalysisError


@dataclass
class Field:
    ctype: str
    name: str
    conditional: str | None  # macro guarding the field (e.g. __STDC_NO_COMPLEX__) or None


@dataclass
class Header:
    enums: dict[str, list[tuple[str, int]]] = field(default_factory=dict)
    structs: dict[str, list[Field]] = field(default_factory=dict)
    typedefs: dict[str, list[tuple[str, str]]] = field(default_factory=dict)  # name -> [(type, param)]
    text: str = ""


def _strip_comments(text: str) -> str:
    text = re.sub(r"/\*.*?\*/", "", text, flags=re.S)
    text = re.sub(r"//[^\n]*", "", text)
    return text


def parse_header(text: str) -> Header:
    h = Header(text=text)
    src = _strip_comments(text)
    # enums
    for m in re.finditer(r"typedef\s+enum\s*\{(.*?)\}\s*(\w+)\s*;", src, re.S):
        items = []
        nxt = 0
        for it in m.group(1).split(","):
            it = it.strip()
            if not it:
                continue
            mm = re.match(r"(\w+)\s*(?:=\s*(-?\d+))?$", it)
            if not mm:
                raise AnalysisError(f"ufcx.h: cannot parse enumerator `{it}`")
            val = int(mm.group(2)) if mm.group(2) is not None else nxt
            items.append((mm.group(1), val))
            nxt = val + 1
        h.enums[m.group(2)] = items
    # structs
    for m in re.finditer(r"typedef\s+struct\s+(\w+)\s*\{(.*?)\}\s*(\w+)\s*;", src, re.S):
        body = m.group(2)
        fields = []
        cond = None
        for line in body.split("\n"):
            ls = line.strip()
            if not ls:
                continue
            mm = re.match(r"#\s*ifndef\s+(\w+)", ls)
            if mm:
                cond = "!" + mm.group(1)
                continue
            mm = re.match(r"#\s*ifdef\s+(\w+)", ls)
            if mm:
                cond = mm.group(1)
                continue
            if re.match(r"#\s*endif", ls):
                cond = None
                continue
            if ls.startswith("#"):
                continue
            mm = re.match(r"(.+?)\s*(\w+)\s*;$", ls)
            if not mm:
                raise AnalysisError(f"ufcx.h: cannot parse field `{ls}` of struct {m.group(1)}")
            fields.append(Field(re.sub(r"\s+", " ", mm.group(1)).strip(), mm.group(2), cond))
        h.structs[m.group(3)] = fields
    # kernel typedefs: typedef void(name)(params);
    for m in re.finditer(r"typedef\s+void\s*\(\s*(\w+)\s*\)\s*\((.*?)\)\s*;", src, re.S):
        params = []
        for p in m.group(2).split(","):
            p = re.sub(r"\s+", " ", p).strip()
            mm = re.match(r"(.+?)\s*(\w+)$", p)
            if not mm:
                raise AnalysisError(f"ufcx.h: cannot parse parameter `{p}`")
            params.append((mm.group(1).strip(), mm.group(2)))
        h.typedefs[m.group(1)] = params
    if "ufcx_form" not in h.structs or "ufcx_integral" not in h.structs or "ufcx_expression" not in h.structs:
        raise AnalysisError("ufcx.h: expected structs ufcx_form, ufcx_integral, ufcx_expression")
    if "ufcx_integral_type" not in h.enums:
        raise AnalysisError("ufcx.h: enum ufcx_integral_type not found")
    return h
