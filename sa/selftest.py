"""Rule self-test: each rule must fire on a scratch copy with one instance broken and stay silent
on a behaviour-preserving variant. Variants are textual edits (anchor must match exactly once)
applied to a temporary copy of /repo/ffcx *outside* /repo and /verif; the copy is only analysed,
never executed, and removed afterwards. Results are judged relative to the findings on the
unedited tree, so the self-test stays meaningful when the tree under analysis already carries a
finding.
"""

from __future__ import annotations

import os
import shutil
import tempfile
import time
from concurrent.futures import ProcessPoolExecutor
from pathlib import Path

from .variants import VARIANTS


def _copy_repo(dst: Path, src: Path):
    (dst / "ffcx").mkdir(parents=True)
    for p in (src / "ffcx").rglob("*"):
        if p.is_file() and p.suffix in (".py", ".h"):
            q = dst / p.relative_to(src)
            q.parent.mkdir(parents=True, exist_ok=True)
            shutil.copyfile(p, q)


def _finding_keys(root: str, rule_names: list[str]):
    from . import rules  # noqa: F401
    from .model import AnalysisError, Repo
    from .registry import run_rule

    repo = Repo(Path(root))
    keys = set()
    errors = []
    ok = set()
    results = []
    for n in rule_names:
        try:
            r = run_rule(n, repo)
            results.append(r)
        except AnalysisError as e:
            errors.append(f"{n}: {e}")
        except Exception as e:  # a checker bug on a mutated tree is an analysis error of that rule, not a crash of the self-test
            errors.append(f"{n}: internal error {type(e).__name__}: {e}")
        else:
            ok.add(n)
    from .registry import apply_cover, apply_demote

    apply_demote(results, repo)
    for r in results:
        for f in r.findings:
            keys.add((f.rule, f.key))

    errors, _tolerated = apply_cover(errors, ok, repo)
    return keys, errors


def _run_variant(args):
    v, src_root = args
    t0 = time.time()
    tmp = Path(tempfile.mkdtemp(prefix="sa_selftest_"))
    try:
        _copy_repo(tmp, Path(src_root))
        base_keys, base_err = _finding_keys(str(tmp), v["rules"])
        applied = 0
        if v.get("patch"):
            # a unified diff (behaviour-preserving refactoring produced by an independent agent): applied with patch(1) to the copy
            import subprocess

            try:
                pr = subprocess.run(["patch", "-p1", "-s", "-f", "-d", str(tmp), "-i", v["patch"]], capture_output=True, text=True)
            except FileNotFoundError:
                return {"name": v["name"], "status": "skipped", "why": "patch(1) not installed", "wall": time.time() - t0}
            if pr.returncode != 0:
                return {"name": v["name"], "status": "skipped", "why": "patch no longer applies to the current tree", "wall": time.time() - t0}
        for rel, old, new in v["edits"]:
            p = tmp / rel
            if not p.exists():
                continue
            s = p.read_text()
            if s.count(old) != 1:
                continue
            p.write_text(s.replace(old, new))
            applied += 1
        if applied != len(v["edits"]):
            return {"name": v["name"], "status": "skipped", "why": "anchor text not present exactly once", "wall": time.time() - t0}
        keys, err = _finding_keys(str(tmp), v["rules"])
        new = keys - base_keys
        analysis_error = [e for e in err if e not in base_err]
        if v["kind"] == "fire":
            ok = bool(new) or (bool(analysis_error) and v.get("error_ok", False))
            if ok and v.get("expect_key"):
                ok = any(v["expect_key"] in k for _r, k in new)
        elif v["kind"] == "repair":
            # a variant that repairs an open finding: the finding must disappear and nothing new may appear
            gone = base_keys - keys
            ok = any(v["expect_key"] in k for _r, k in gone) and not new and not analysis_error
        else:
            ok = not new and not analysis_error
        return {
            "name": v["name"], "status": "ok" if ok else "FAILED", "kind": v["kind"],
            "new_findings": sorted(f"{r}:{k}" for r, k in new)[:6], "analysis_errors": analysis_error[:3],
            "wall": round(time.time() - t0, 2),
        }
    finally:
        shutil.rmtree(tmp, ignore_errors=True)


def run_variants(selected, jobs=16):
    src = os.environ.get("VERIF_REPO", "/repo")
    if not selected:
        return []
    with ProcessPoolExecutor(max_workers=min(jobs, len(selected))) as ex:
        return list(ex.map(_run_variant, [(v, src) for v in selected]))


def benign_patches(prop=None):
    """One benign variant per stored refactoring patch, checked with every rule of the property (or all rules)."""
    from .registry import RULES

    out = []
    d = Path(__file__).resolve().parent.parent / "benign"
    for f in sorted(d.glob("[RST][0-9]*.diff")):
        rules_ = [n for n, r in RULES.items() if (prop is None or prop in r["props"]) and r["tier"] == "quick"]
        out.append({"name": f"benign-patch-{f.stem}", "props": [prop] if prop else [], "rules": rules_, "kind": "benign", "edits": [], "patch": str(f)})
    return out


def selftest_for_check(prop: str) -> dict:
    from . import rules  # noqa: F401

    sel = [v for v in VARIANTS if prop in v["props"]] + benign_patches(prop)
    results = run_variants(sel)
    failed = [r for r in results if r["status"] == "FAILED"]
    for r in results:
        print(f"    selftest {r['status']:7s} {r.get('kind', ''):6s} {r['name']}" + (f"  {r.get('new_findings') or r.get('why', '')}" if r["status"] != "ok" else ""))
    return {
        "variants": len(results),
        "ok": sum(1 for r in results if r["status"] == "ok"),
        "skipped": [r["name"] for r in results if r["status"] == "skipped"],
        "failed": [r["name"] for r in failed],
        "firing_ok": sum(1 for r in results if r["status"] == "ok" and r.get("kind") == "fire"),
        "benign_ok": sum(1 for r in results if r["status"] == "ok" and r.get("kind") in ("benign", "repair")),
    }


def run_selftest(prop=None, jobs=16, only=None) -> int:
    from . import rules  # noqa: F401

    sel = [v for v in VARIANTS if (prop is None or prop in v["props"]) and (only is None or only in v["name"])]
    sel += [v for v in benign_patches(prop) if only is None or only in v["name"]]
    t0 = time.time()
    results = run_variants(sel, jobs)
    bad = 0
    for r in results:
        print(f"{r['status']:7s} {r.get('kind', ''):6s} {r['name']:60s} {r.get('wall', '')}s  {r.get('new_findings', r.get('why', ''))}")
        if r["status"] == "FAILED":
            bad += 1
    print(f"{len(results)} variants, {bad} failed, {sum(1 for r in results if r['status'] == 'skipped')} skipped, {time.time() - t0:.1f}s")
    return 2 if bad else 0
