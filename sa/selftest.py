"""placeholder, replaced below"""
def run_selftest(**kw): return 0
def selftest_for_check(prop): return {"variants": 0}
