"""E0/E1: source model of the analysed repository (never imports or runs it).

All rules get a `Repo` object. The repository root is taken from $VERIF_REPO (default /repo) so
that the self-test can point the *same* checker at a mutated scratch copy.
"""

from __future__ import annotations

import ast
import hashlib
import os
import re
from pathlib import Path


class AnalysisError(Exception):
    """The analysis itself cannot proceed (vanished anchor, unparsable file, unresolved callee).

    Never means "property violated"; the CLI turns it into exit status 2.
    """


def repo_root() -> Path:
    return Path(os.environ.get("VERIF_REPO", "/repo"))


def norm(node: ast.AST | str) -> str:
    """Normalised statement/expression text (position independent)."""
    if isinstance(node, str):
        return node
    return ast.unparse(node)


def short_hash(text: str) -> str:
    return hashlib.sha1(text.encode()).hexdigest()[:8]


class Func:
    """A function or method with its qualified name."""

    def __init__(self, module: "Module", qualname: str, node: ast.FunctionDef, cls: ast.ClassDef | None):
        self.module = module
        self.qualname = qualname
        self.node = node
        self.cls = cls

    @property
    def key(self) -> str:
        return f"{self.module.name}:{self.qualname}"

    @property
    def params(self) -> list[str]:
        a = self.node.args
        return [x.arg for x in a.posonlyargs + a.args + a.kwonlyargs] + (
            [a.vararg.arg] if a.vararg else []
        ) + ([a.kwarg.arg] if a.kwarg else [])

    def __repr__(self):
        return f"<Func {self.key}>"


class Module:
    def __init__(self, root: Path, path: Path):
        self.path = path
        self.rel = str(path.relative_to(root))
        self.name = self.rel[:-3].replace("/", ".")
        if self.name.endswith(".__init__"):
            self.name = self.name[: -len(".__init__")]
        self.source = path.read_text()
        try:
            self.tree = ast.parse(self.source, filename=str(path))
        except SyntaxError as e:  # pragma: no cover
            raise AnalysisError(f"cannot parse {path}: {e}") from e
        self.imports: dict[str, str] = {}
        self.funcs: dict[str, Func] = {}
        self.classes: dict[str, ast.ClassDef] = {}
        self.assigns: dict[str, ast.AST] = {}
        self._index()

    def _index(self):
        pkg = self.name if self.rel.endswith("__init__.py") else self.name.rpartition(".")[0]
        for node in ast.walk(self.tree):
            if isinstance(node, ast.Import):
                for a in node.names:
                    self.imports[a.asname or a.name.split(".")[0]] = (
                        a.name if a.asname else a.name.split(".")[0]
                    )
            elif isinstance(node, ast.ImportFrom):
                base = node.module or ""
                if node.level:
                    parts = pkg.split(".")
                    up = parts[: len(parts) - (node.level - 1)]
                    base = ".".join(up + ([node.module] if node.module else []))
                for a in node.names:
                    self.imports[a.asname or a.name] = f"{base}.{a.name}"

        def visit(body, prefix, cls):
            for st in body:
                if isinstance(st, (ast.FunctionDef, ast.AsyncFunctionDef)):
                    q = prefix + st.name
                    # singledispatch registrations are all called `_`: disambiguate by index
                    if q in self.funcs:
                        k = 1
                        while f"{q}#{k}" in self.funcs:
                            k += 1
                        q = f"{q}#{k}"
                    self.funcs[q] = Func(self, q, st, cls)
                    visit(st.body, q + ".<locals>.", None)
                elif isinstance(st, ast.ClassDef):
                    self.classes[prefix + st.name] = st
                    visit(st.body, prefix + st.name + ".", st)
                elif isinstance(st, (ast.If, ast.Try, ast.With, ast.For, ast.While)):
                    for fld in ("body", "orelse", "finalbody"):
                        visit(getattr(st, fld, []) or [], prefix, cls)
                    for h in getattr(st, "handlers", []) or []:
                        visit(h.body, prefix, cls)

        visit(self.tree.body, "", None)
        for st in self.tree.body:
            if isinstance(st, ast.Assign) and len(st.targets) == 1 and isinstance(st.targets[0], ast.Name):
                self.assigns[st.targets[0].id] = st.value
            elif isinstance(st, ast.AnnAssign) and isinstance(st.target, ast.Name) and st.value is not None:
                self.assigns[st.target.id] = st.value
        # module-level names bound inside a compound statement of the module body (`if sys.platform ...: X = [...] else: X = [...]`)
        self.cond_assigns: dict[str, list[ast.AST]] = {}

        def nested(body):
            for st in body:
                if isinstance(st, (ast.If, ast.Try, ast.With, ast.For, ast.While)):
                    for fld in ("body", "orelse", "finalbody"):
                        inner = getattr(st, fld, []) or []
                        for s2 in inner:
                            if isinstance(s2, ast.Assign) and len(s2.targets) == 1 and isinstance(s2.targets[0], ast.Name):
                                self.cond_assigns.setdefault(s2.targets[0].id, []).append(s2.value)
                            elif isinstance(s2, ast.AnnAssign) and isinstance(s2.target, ast.Name) and s2.value is not None:
                                self.cond_assigns.setdefault(s2.target.id, []).append(s2.value)
                        nested(inner)
                    for h in getattr(st, "handlers", []) or []:
                        nested([ast.If(test=ast.Constant(True), body=h.body, orelse=[])])
        nested(self.tree.body)

    def func(self, qualname: str) -> Func:
        f = self.funcs.get(qualname)
        if f is None:
            raise AnalysisError(f"anchor vanished: function {self.name}:{qualname}")
        return f

    def cls(self, name: str) -> ast.ClassDef:
        c = self.classes.get(name)
        if c is None:
            raise AnalysisError(f"anchor vanished: class {self.name}:{name}")
        return c

    def assign(self, name: str) -> ast.AST:
        v = self.assigns.get(name)
        if v is None:
            raise AnalysisError(f"anchor vanished: module-level assignment {self.name}:{name}")
        return v

    def line(self, node: ast.AST) -> str:
        return f"{self.rel}:{getattr(node, 'lineno', '?')}"


class Repo:
    def __init__(self, root: Path | None = None):
        self.root = Path(root) if root else repo_root()
        self.modules: dict[str, Module] = {}
        pkg = self.root / "ffcx"
        if not pkg.is_dir():
            raise AnalysisError(f"no ffcx package under {self.root}")
        for p in sorted(pkg.rglob("*.py")):
            m = Module(self.root, p)
            self.modules[m.name] = m
        self.header_path = pkg / "codegeneration" / "ufcx.h"

    def mod(self, name: str) -> Module:
        m = self.modules.get(name)
        if m is None:
            raise AnalysisError(f"anchor vanished: module {name}")
        return m

    def func(self, key: str) -> Func:
        mod, _, q = key.partition(":")
        return self.mod(mod).func(q)

    def all_funcs(self):
        for m in self.modules.values():
            yield from m.funcs.values()

    def header_text(self) -> str:
        try:
            return self.header_path.read_text()
        except OSError as e:
            raise AnalysisError(f"anchor vanished: {self.header_path}: {e}") from e

    # ---- class attribute resolution with in-repo inheritance -------------------------------
    def class_attr(self, mod: Module, clsname: str, attr: str):
        """Value node of a class-level attribute, following bases defined in the same module."""
        seen = set()
        todo = [clsname]
        while todo:
            c = todo.pop(0)
            if c in seen or c not in mod.classes:
                continue
            seen.add(c)
            node = mod.classes[c]
            found = None
            for st in node.body:
                if isinstance(st, ast.Assign):
                    for t in st.targets:
                        if isinstance(t, ast.Name) and t.id == attr:
                            found = st.value
                elif isinstance(st, ast.AnnAssign) and isinstance(st.target, ast.Name):
                    if st.target.id == attr and st.value is not None:
                        found = st.value
            if found is not None:
                return found
            for b in node.bases:
                if isinstance(b, ast.Name):
                    todo.append(b.id)
        return None

    def class_bases(self, mod: Module, clsname: str) -> list[str]:
        """Transitive base names (in-module), nearest first (MRO-ish for single inheritance)."""
        out = []
        todo = [clsname]
        while todo:
            c = todo.pop(0)
            node = mod.classes.get(c)
            if node is None:
                continue
            for b in node.bases:
                n = b.id if isinstance(b, ast.Name) else (b.attr if isinstance(b, ast.Attribute) else None)
                if n and n not in out:
                    out.append(n)
                    todo.append(n)
        return out


# ---- small AST helpers ------------------------------------------------------------------------


def dotted(node: ast.AST) -> str | None:
    """`a.b.c` as text for Name/Attribute chains, else None."""
    parts = []
    while isinstance(node, ast.Attribute):
        parts.append(node.attr)
        node = node.value
    if isinstance(node, ast.Name):
        parts.append(node.id)
        return ".".join(reversed(parts))
    return None


def call_name(node: ast.AST) -> str | None:
    if isinstance(node, ast.Call):
        return dotted(node.func)
    return None


def names_in(node: ast.AST, ctx=None) -> set[str]:
    out = set()
    for n in ast.walk(node):
        if isinstance(n, ast.Name) and (ctx is None or isinstance(n.ctx, ctx)):
            out.add(n.id)
    return out


def calls_in(node: ast.AST):
    for n in ast.walk(node):
        if isinstance(n, ast.Call):
            yield n


def const_value(node: ast.AST):
    """Python value of a literal expression (incl. tuples/lists/dicts of literals, -1)."""
    try:
        return ast.literal_eval(node)
    except Exception:
        raise ValueError(f"not a literal: {ast.unparse(node)[:60]}")


def kwarg(call: ast.Call, name: str):
    for k in call.keywords:
        if k.arg == name:
            return k.value
    return None


def walk_no_nested(node: ast.AST):
    """Walk a function body without descending into nested defs/lambdas/classes."""
    todo = list(ast.iter_child_nodes(node))
    while todo:
        n = todo.pop()
        yield n
        if isinstance(n, (ast.FunctionDef, ast.AsyncFunctionDef, ast.Lambda, ast.ClassDef)):
            continue
        todo.extend(ast.iter_child_nodes(n))


def fstring_pattern(node: ast.AST) -> str | None:
    """Abstract an f-string / str constant to `lit{}lit` with `{expr}` placeholders kept."""
    if isinstance(node, ast.Constant) and isinstance(node.value, str):
        return node.value
    if isinstance(node, ast.JoinedStr):
        out = ""
        for v in node.values:
            if isinstance(v, ast.Constant):
                out += str(v.value)
            elif isinstance(v, ast.FormattedValue):
                spec = ""
                if v.format_spec is not None:
                    spec = ":" + "".join(
                        str(x.value) if isinstance(x, ast.Constant) else "{}" for x in v.format_spec.values
                    )
                out += "{" + ast.unparse(v.value) + spec + "}"
        return out
    return None


_ident_re = re.compile(r"^[A-Za-z_][A-Za-z0-9_]*$")


def is_identifier(s: str) -> bool:
    return bool(_ident_re.match(s))
