"""Abstract interpreter for the small pure helper functions of lnodes.py (operator overloads,
float_product, MultiIndex.__init__, the ufl->lnodes lambda table).

The functions are interpreted from their *source AST* over abstract operand shapes (literal zero /
one / minus one / other literals, symbols, negated symbols, Python numbers). Node constructors are
modelled from the class table (kinds), nothing from /repo is imported or executed. Unsupported
syntax raises AnalysisError (fail closed).
"""

from __future__ import annotations

import ast
import re
from fractions import Fraction

from .lnodes_model import LNODES, LClass
from .model import AnalysisError, Repo, const_value, dotted


class Raised(Exception):
    """The interpreted code executed a `raise` (or a failing assert)."""

    def __init__(self, what=""):
        self.what = what


class Node:
    def __init__(self, cls: str, **fields):
        self.cls = cls
        self.f = fields

    def __hash__(self):
        return hash(repr(self))

    def __eq__(self, other):
        return isinstance(other, Node) and repr(self) == repr(other)

    def __repr__(self):
        if self.cls in ("LiteralInt", "LiteralFloat"):
            return f"{self.cls}({self.f['value']})"
        if self.cls == "Symbol":
            return self.f["name"]
        return f"{self.cls}({', '.join(f'{k}={v!r}' for k, v in self.f.items() if k != 'dtype')})"


# ---- rational normal form --------------------------------------------------------------------
class Rat:
    """num/den with polynomials as {monomial(tuple of (var,pow)): Fraction}."""

    def __init__(self, num, den=None):
        self.num = {k: v for k, v in num.items() if v != 0}
        self.den = den if den is not None else {(): Fraction(1)}

    @staticmethod
    def const(c):
        return Rat({(): Fraction(c)})

    @staticmethod
    def var(name):
        return Rat({((name, 1),): Fraction(1)})

    @staticmethod
    def _pmul(a, b):
        out = {}
        for ma, ca in a.items():
            for mb, cb in b.items():
                d = dict(ma)
                for v, p in mb:
                    d[v] = d.get(v, 0) + p
                m = tuple(sorted(d.items()))
                out[m] = out.get(m, 0) + ca * cb
        return {k: v for k, v in out.items() if v != 0}

    @staticmethod
    def _padd(a, b, sign=1):
        out = dict(a)
        for m, c in b.items():
            out[m] = out.get(m, 0) + sign * c
        return {k: v for k, v in out.items() if v != 0}

    def __add__(self, o):
        return Rat(Rat._padd(Rat._pmul(self.num, o.den), Rat._pmul(o.num, self.den)), Rat._pmul(self.den, o.den))

    def __sub__(self, o):
        return Rat(Rat._padd(Rat._pmul(self.num, o.den), Rat._pmul(o.num, self.den), -1), Rat._pmul(self.den, o.den))

    def __mul__(self, o):
        return Rat(Rat._pmul(self.num, o.num), Rat._pmul(self.den, o.den))

    def __truediv__(self, o):
        if not o.num:
            raise ZeroDivisionError
        return Rat(Rat._pmul(self.num, o.den), Rat._pmul(self.den, o.num))

    def __neg__(self):
        return Rat({k: -v for k, v in self.num.items()}, self.den)

    def is_zero(self):
        return not self.num

    def __eq__(self, o):
        if not isinstance(o, Rat):
            return NotImplemented
        return _reduce_i(Rat._pmul(self.num, o.den)) == _reduce_i(Rat._pmul(o.num, self.den))

    __hash__ = None

    def __repr__(self):
        return f"Rat({self.num}/{self.den})"


IMAG = "\u2148"  # the imaginary unit as an indeterminate; powers are reduced (i*i = -1) when comparing


def _reduce_i(poly):
    out = {}
    for mono, c in poly.items():
        p = dict(mono).get(IMAG, 0)
        if p:
            rest = tuple((v, k) for v, k in mono if v != IMAG)
            sign = (1, 1, -1, -1)[p % 4]
            mono = tuple(sorted(rest + (((IMAG, 1),) if p % 2 else ())))
            c = c * sign
        out[mono] = out.get(mono, 0) + c
    return {k: v for k, v in out.items() if v != 0}


def _num(x) -> "Rat":
    if isinstance(x, complex):
        return Rat.const(Fraction(x.real)) + Rat.const(Fraction(x.imag)) * Rat.var(IMAG)
    return Rat.const(Fraction(x))


def value(x) -> Rat:
    """Algebraic meaning of an abstract LNode / Python number."""
    if isinstance(x, bool):
        raise AnalysisError("value of bool")
    if isinstance(x, (int, float, complex)):
        return _num(x)
    if isinstance(x, Node):
        c = x.cls
        if c in ("LiteralInt", "LiteralFloat"):
            return _num(x.f["value"])
        if c == "Symbol":
            return Rat.var(x.f["name"])
        if c == "Neg":
            return -value(x.f["arg"])
        if c in ("Add", "Sub", "Mul", "Div"):
            a, b = value(x.f["lhs"]), value(x.f["rhs"])
            return {"Add": a + b, "Sub": a - b, "Mul": a * b}.get(c) if c != "Div" else a / b
        if c in ("Sum", "Product"):
            vals = [value(a) for a in x.f["args"]]
            out = Rat.const(0 if c == "Sum" else 1)
            for v in vals:
                out = out + v if c == "Sum" else out * v
            return out
        if c == "MathFunction":
            nm = x.f["function"] + "(" + ",".join(repr(value(a)) for a in x.f["args"]) + ")"
            return Rat.var(nm)
        if c == "ArrayAccess":
            return Rat.var(repr(x))
        if c == "Conditional":
            return Rat.var("cond(" + ",".join(repr(value(x.f[k])) if k != "condition" else repr(x.f[k]) for k in ("condition", "true", "false")) + ")")
    raise AnalysisError(f"value: no algebraic meaning for {x!r}")


BINOP_METHODS = {
    ast.Add: ("__add__", "__radd__"),
    ast.Sub: ("__sub__", "__rsub__"),
    ast.Mult: ("__mul__", "__rmul__"),
    ast.Div: ("__truediv__", "__rtruediv__"),
    ast.FloorDiv: ("__floordiv__", "__rfloordiv__"),
}


class Interp:
    def __init__(self, repo: Repo, classes: dict[str, LClass], primary: str | None = None):
        self.repo = repo
        self.mod = repo.mod(LNODES)
        self.primary = repo.mod(primary) if primary else None  # module whose functions are interpreted first
        self.lalias = set()
        if self.primary is not None:
            self.lalias = {a for a, t in self.primary.imports.items() if t == LNODES}
        self.classes = classes
        self.extra_bases: dict = {}  # class name of a sample Node -> names of its (foreign) base classes, for isinstance
        self.overrides: dict = {}  # name -> _PyCall / value: stubs for callees outside the interpreted modules
        self.obj_classes: dict[str, str] = {}  # class name -> module name, for sample objects of non-LNodes classes
        self._eq_depth = 0
        self.fstack: list = []  # functions being interpreted (innermost last): `super()` needs the class that defines the running method
        self.ctx: list = []  # module context of the function being interpreted (name resolution follows its imports)
        self.modconsts: dict = {}  # module-level literal containers, one object per interpreter
        self.prec: dict[str, int] = {}  # PRECEDENCE table, when a rule needs the numbers
        self.depth = 0
        # class-level aliases such as `__truediv__ = __div__`
        self.aliases: dict[tuple[str, str], str] = {}
        for cname, cnode in self.mod.classes.items():
            for st in cnode.body:
                if isinstance(st, ast.Assign) and isinstance(st.value, ast.Name):
                    for t in st.targets:
                        if isinstance(t, ast.Name) and t.id.startswith("__"):
                            self.aliases[(cname, t.id)] = st.value.id

    def cur(self):
        return self.ctx[-1] if self.ctx else self.primary

    def is_lalias(self, name: str) -> bool:
        m = self.cur()
        return m is not None and m.imports.get(name) == LNODES

    def resolve_global(self, name: str):
        """A module-level name of the current module: own function, or a function imported from a repo module."""
        m = self.cur()
        if m is None:
            return None
        if name in m.funcs:
            return m.funcs[name]
        tgt = m.imports.get(name)
        if tgt and "." in tgt:
            modname, fn = tgt.rsplit(".", 1)
            if modname in self.repo.modules and fn in self.repo.modules[modname].funcs:
                return self.repo.modules[modname].funcs[fn]
        return None

    def resolve_constant(self, name: str):
        """A module-level literal constant (dict / tuple / number / string) of the current module."""
        m = self.cur()
        if m is None:
            return _MISSING
        for st in m.tree.body:
            if isinstance(st, (ast.Assign, ast.AnnAssign)):
                tg = st.targets if isinstance(st, ast.Assign) else [st.target]
                if any(isinstance(t, ast.Name) and t.id == name for t in tg) and st.value is not None:
                    ck = (m.name, name)
                    if ck not in self.modconsts:
                        try:
                            self.modconsts[ck] = const_value(st.value)
                        except ValueError:
                            try:
                                self.modconsts[ck] = self.expr(st.value, {})  # e.g. a table mentioning type names (stubs given by the rule)
                            except AnalysisError:
                                return _MISSING
                        # module initialisation continues after the assignment: later top-level statements that fill the same container
                        # (`for k in (...): table[k] = f`, `table[k] = v`, `table.update(...)`) are interpreted in source order
                        later = m.tree.body[m.tree.body.index(st) + 1:]
                        mut = [s_ for s_ in later if _mutates_name(s_, name)]
                        if mut and isinstance(self.modconsts[ck], (dict, list, set)):
                            env_ = {name: self.modconsts[ck]}
                            try:
                                for s_ in mut:
                                    self.stmt(s_, env_)
                            except (AnalysisError, Raised):
                                del self.modconsts[ck]
                                return _MISSING
                    return self.modconsts[ck]  # one object per interpreter: module-level state persists across calls
        return _MISSING

    def resolve_imported_constant(self, name: str):
        """`from <repo module> import NAME` where NAME is a module-level value there (a Literal type, a table)."""
        m = self.cur()
        tgt = m.imports.get(name) if m is not None else None
        if tgt and "." in tgt:
            modname, nm = tgt.rsplit(".", 1)
            if modname in self.repo.modules and modname != LNODES:
                try:
                    return self.module_value(modname, nm)
                except AnalysisError:
                    return _MISSING
        return _MISSING

    def module_value(self, modname: str, name: str):
        """Value of a module-level container of a repository module after module initialisation (see resolve_constant)."""
        self.ctx.append(self.repo.mod(modname))
        try:
            v = self.resolve_constant(name)
        finally:
            self.ctx.pop()
        if v is _MISSING:
            raise AnalysisError(f"absint: module-level `{modname}.{name}` cannot be evaluated")
        return v

    def module_env(self, modname: str, skip=()):
        """The module-level names of a repository module as its top-level statements leave them, executed in order (imports, function and class
        definitions are resolved elsewhere and skipped; a statement that cannot be interpreted leaves the names it binds undefined and is reported in
        the second result)."""
        m = self.repo.mod(modname)
        env: dict = {}
        problems = []
        self.ctx.append(m)
        try:
            for st in m.tree.body:
                if isinstance(st, (ast.Import, ast.ImportFrom, ast.FunctionDef, ast.AsyncFunctionDef, ast.ClassDef)):
                    continue
                if isinstance(st, ast.Expr) and isinstance(st.value, ast.Constant):
                    continue  # docstring
                bound = {n.id for n in ast.walk(st) if isinstance(n, ast.Name) and isinstance(n.ctx, ast.Store)}
                if bound & set(skip):
                    continue
                try:
                    self.stmt(st, env)
                except (AnalysisError, Raised) as ex:
                    problems.append((sorted(bound), str(getattr(ex, "what", ex))))
                    for b in bound:
                        env.pop(b, None)
        finally:
            self.ctx.pop()
        return env, problems

    def install_ufl_classes(self, *modnames):
        """Every `ufl.<...>.<Class>` the given modules mention stands for itself: a class value compared by name."""
        for mn in modnames:
            for n in ast.walk(self.repo.mod(mn).tree):
                if isinstance(n, ast.Attribute):
                    d = dotted(n)
                    if d and d.startswith("ufl.") and d.split(".")[-1][:1].isupper() and d not in self.overrides:
                        self.overrides[d] = _Cls(d.split(".")[-1])
        return self

    def resolve_module(self, name: str):
        m = self.cur()
        if m is None:
            return None
        tgt = m.imports.get(name)
        if tgt in self.repo.modules and tgt != LNODES:
            return _ModRef(self.repo.modules[tgt])
        return None

    def resolve_record(self, name: str):
        """A NamedTuple class of a repo module visible under `name`: constructing it gives a record Node."""
        m = self.cur()
        if m is None:
            return None
        c = m.classes.get(name)
        if c is None:
            tgt = m.imports.get(name)
            if tgt and "." in tgt:
                modname, cn = tgt.rsplit(".", 1)
                if modname in self.repo.modules:
                    c = self.repo.modules[modname].classes.get(cn)
        if c is not None and any((dotted(b) or "").split(".")[-1] == "NamedTuple" for b in c.bases):
            fields = [st.target.id for st in c.body if isinstance(st, ast.AnnAssign) and isinstance(st.target, ast.Name)]
            return _Record(c.name, fields)
        return None

    def resolve_enum(self, name: str):
        """An Enum class of a repo module visible under `name` in the current module."""
        m = self.cur()
        if m is None:
            return None
        cands = []
        if name in m.classes:
            cands.append(m.classes[name])
        tgt = m.imports.get(name)
        if tgt and "." in tgt:
            modname, cn = tgt.rsplit(".", 1)
            if modname in self.repo.modules and cn in self.repo.modules[modname].classes:
                cands.append(self.repo.modules[modname].classes[cn])
        for c in cands:
            if any((dotted(b) or "").split(".")[-1] in ("Enum", "IntEnum") for b in c.bases):
                ec = _EnumCls(c.name)
                for mod_ in self.repo.modules.values():
                    if mod_.classes.get(c.name) is c:
                        ec.module = mod_
                return ec
        return None

    # ---- method lookup ----------------------------------------------------------------------
    def find_method(self, cls: str, name: str):
        if cls in self.obj_classes:
            return self.repo.mod(self.obj_classes[cls]).funcs.get(f"{cls}.{name}")
        chain = [cls] + (self.classes[cls].bases if cls in self.classes else [])
        for c in chain:
            if (c, name) in self.aliases:
                return self.find_method(c, self.aliases[(c, name)])
            f = self.mod.funcs.get(f"{c}.{name}")
            if f is not None:
                return f
        return None

    def call_method(self, obj: Node, name: str, *args):
        f = self.find_method(obj.cls, name)
        if f is None:
            raise AnalysisError(f"absint: {obj.cls} has no method {name}")
        return self.call_f(f, [obj] + list(args))

    def init_object(self, obj: "Node", init, args: list, kwargs=None) -> list[str]:
        """Run a constructor's statements on `obj` one by one; a statement the interpreter cannot model (dispatch tables keyed by
        foreign classes, ...) is skipped and reported, so that plain state (`self.cache = {}`) the methods rely on exists."""
        skipped = []
        params = [a.arg for a in init.node.args.args]
        env = {params[0]: obj}
        defaults = init.node.args.defaults
        for i, p_ in enumerate(params[1:], start=1):
            if i - 1 < len(args):
                env[p_] = args[i - 1]
            elif kwargs and p_ in kwargs:
                env[p_] = kwargs[p_]
            elif i - (len(params) - len(defaults)) >= 0:
                env[p_] = self.expr(defaults[i - (len(params) - len(defaults))], {})
            else:
                env[p_] = None
        self.ctx.append(init.module)
        try:
            for st in init.node.body:
                try:
                    self.stmt(st, env)
                except (AnalysisError, Raised):
                    skipped.append(ast.unparse(st).split("\n")[0][:60])
        finally:
            self.ctx.pop()
        return skipped

    def call_f(self, f, args: list, kwargs=None):
        """Call a model.Func in the context of its own module."""
        self.ctx.append(f.module)
        self.fstack.append(f)
        try:
            return self.call_func(f.node, args, kwargs)
        finally:
            self.fstack.pop()
            self.ctx.pop()

    def call_func(self, fnode: ast.FunctionDef, args: list, kwargs=None, base_env=None):
        self.depth += 1
        if self.depth > 60:
            raise AnalysisError("absint: recursion too deep")
        try:
            params = [a.arg for a in fnode.args.args]
            env = dict(base_env) if base_env else {}
            defaults = fnode.args.defaults
            for i, p in enumerate(params):
                if i < len(args):
                    env[p] = args[i]
                else:
                    di = i - (len(params) - len(defaults))
                    if kwargs and p in kwargs:
                        env[p] = kwargs[p]
                    elif di >= 0:
                        env[p] = self.expr(defaults[di], {})
                    else:
                        raise AnalysisError(f"absint: missing argument {p} for {fnode.name}")
            if fnode.args.vararg:
                env[fnode.args.vararg.arg] = list(args[len(params):])
            for ka, kd in zip(fnode.args.kwonlyargs, fnode.args.kw_defaults):
                if kwargs and ka.arg in kwargs:
                    env[ka.arg] = kwargs[ka.arg]
                elif kd is not None:
                    env[ka.arg] = self.expr(kd, {})
                else:
                    raise AnalysisError(f"absint: missing keyword-only argument {ka.arg} for {fnode.name}")
            # names the function binds somewhere: reading one before its binding is Python's UnboundLocalError, not a gap of the model
            env["__locals__"] = _local_names(fnode)
            if fnode.args.kwarg:
                named = set(params) | {a.arg for a in fnode.args.kwonlyargs}
                env[fnode.args.kwarg.arg] = {k_: v_ for k_, v_ in (kwargs or {}).items() if k_ not in named}
            from .model import walk_no_nested as _wnn
            is_gen = any(isinstance(n_, (ast.Yield, ast.YieldFrom)) for n_ in _wnn(fnode))
            if is_gen and any((dotted(d_) or "").split(".")[-1] == "contextmanager" for d_ in fnode.decorator_list):
                return _GenCtx(self, fnode, env)
            if is_gen:
                # a generator function: evaluated eagerly, the caller gets the list of yielded values
                env["__yielded__"] = []
                self.block(fnode.body, env)
                return env["__yielded__"]
            r = self.block(fnode.body, env)
            return r.value if isinstance(r, _Ret) else None
        finally:
            self.depth -= 1

    # ---- statements -------------------------------------------------------------------------
    def block(self, stmts, env):
        for st in stmts:
            r = self.stmt(st, env)
            if r is not None:
                return r
        return None

    def stmt(self, st, env):
        if isinstance(st, ast.FunctionDef):
            env[st.name] = _Closure(st, env)
            return None
        if isinstance(st, ast.Expr):
            if isinstance(st.value, ast.Yield):
                if "__yielded__" not in env:
                    raise AnalysisError("absint: yield outside a generator function")
                env["__yielded__"].append(self.expr(st.value.value, env) if st.value.value is not None else None)
                return None
            if isinstance(st.value, ast.YieldFrom):
                if "__yielded__" not in env:
                    raise AnalysisError("absint: yield from outside a generator function")
                env["__yielded__"].extend(self.iterate(self.expr(st.value.value, env)))
                return None
            if not isinstance(st.value, ast.Constant):
                self.expr(st.value, env)
            return None
        if isinstance(st, ast.Return):
            return _Ret(self.expr(st.value, env) if st.value is not None else None)
        if isinstance(st, (ast.Import, ast.ImportFrom)):
            # an import inside a function: the names stand for what they are imported from (a repository module, or a library name a rule has a stand-in for)
            for a in st.names:
                if isinstance(st, ast.Import):
                    full = a.name
                    bound = a.asname or a.name.split(".")[0]
                    if not a.asname:
                        full = a.name.split(".")[0]
                else:
                    full = f"{st.module}.{a.name}" if st.module else a.name
                    bound = a.asname or a.name
                if full in self.repo.modules:
                    env[bound] = _ModRef(self.repo.modules[full])
                elif full in self.overrides:
                    env[bound] = self.overrides[full]
                else:
                    env[bound] = _ImpRef(full)
            return None
        if isinstance(st, ast.Raise):
            if st.exc is None or (isinstance(st.exc, ast.Name) and isinstance(env.get(st.exc.id), Raised)):
                cur = env.get(st.exc.id) if st.exc is not None else (env.get("__exc__") or next((v for v in reversed(list(env.values())) if isinstance(v, Raised)), None))
                if cur is not None:
                    raise cur
            raise Raised(ast.unparse(st)[:60])
        if isinstance(st, ast.Assert):
            v = self.expr(st.test, env)
            if v is False:
                raise Raised("assert " + ast.unparse(st.test)[:50])
            return None
        if isinstance(st, (ast.Assign, ast.AnnAssign)):
            if isinstance(st, ast.AnnAssign) and st.value is None:
                return None
            v = self.expr(st.value, env)
            targets = st.targets if isinstance(st, ast.Assign) else [st.target]
            for t in targets:
                self.store(t, v, env)
            return None
        if isinstance(st, ast.AugAssign):
            import copy

            load = copy.deepcopy(st.target)
            for n in ast.walk(load):
                if hasattr(n, "ctx"):
                    n.ctx = ast.Load()
            cur = self.expr(load, env)
            rhs_ = self.expr(st.value, env)
            if isinstance(cur, list) and isinstance(st.op, ast.Add) and isinstance(rhs_, (tuple, range)):
                rhs_ = list(rhs_)  # list += iterable extends
            v = self.binop(st.op, cur, rhs_)
            self.store(st.target, v, env)
            return None
        if isinstance(st, ast.If):
            c = self.truth(self.expr(st.test, env), st.test)
            return self.block(st.body if c else st.orelse, env)
        if isinstance(st, ast.For):
            it = self.expr(st.iter, env)
            for x in self.iterate(it):
                self.store(st.target, x, env)
                r = self.block(st.body, env)
                if isinstance(r, _Brk):
                    break
                if isinstance(r, _Cont):
                    continue
                if r is not None:
                    return r
            else:
                if st.orelse:
                    return self.block(st.orelse, env)
            return None
        if isinstance(st, ast.With):
            mgrs = []
            for item in st.items:
                m_ = self.expr(item.context_expr, env)
                if not isinstance(m_, (PyNative, _Suppress, _GenCtx)) or not hasattr(m_, "__enter__"):
                    raise AnalysisError(f"absint: context manager `{ast.unparse(item.context_expr)[:40]}` not modelled")
                v = m_.__enter__()
                mgrs.append(m_)
                if item.optional_vars is not None:
                    self.store(item.optional_vars, v, env)
            try:
                r = self.block(st.body, env)
            except Raised as ex_:
                swallowed = False
                for m_ in reversed(mgrs):
                    if swallowed:
                        m_.__exit__(None, None, None)
                    elif m_.__exit__(Raised, ex_, None):
                        swallowed = True  # the context manager suppresses the exception (contextlib.suppress)
                if not swallowed:
                    raise
                return None
            for m_ in reversed(mgrs):
                m_.__exit__(None, None, None)
            return r
        if isinstance(st, ast.Try):
            def fin(r_):
                if st.finalbody:
                    r2 = self.block(st.finalbody, env)
                    if r2 is not None:
                        return r2
                return r_
            try:
                r = self.block(st.body, env)
            except Raised as ex:
                for h in st.handlers:
                    names = []
                    if h.type is not None:
                        for t_ in (h.type.elts if isinstance(h.type, ast.Tuple) else [h.type]):
                            names.append((dotted(t_) or "").split(".")[-1])
                    parents = {"FileNotFoundError": ("OSError", "IOError"), "KeyError": ("LookupError",), "IndexError": ("LookupError",),
                               "ZeroDivisionError": ("ArithmeticError",), "ModuleNotFoundError": ("ImportError",)}
                    what = ex.what
                    kind = what.split(":")[0].replace("raise ", "").split("(")[0].strip()
                    # exceptions that derive from BaseException directly are not caught by `except Exception`
                    base_only = kind in BASE_ONLY_EXCEPTIONS
                    if h.type is None or any(n_ == "BaseException" or (n_ == "Exception" and not base_only) or n_ == kind or n_ in parents.get(kind, ()) for n_ in names):
                        if h.name:
                            env[h.name] = ex
                        prev_exc = env.get("__exc__")
                        env["__exc__"] = ex   # the exception being handled: what a bare `raise` re-raises
                        try:
                            return fin(self.block(h.body, env))
                        except Raised:
                            fin(None)
                            raise
                        finally:
                            if prev_exc is None:
                                env.pop("__exc__", None)
                            else:
                                env["__exc__"] = prev_exc
                fin(None)
                raise
            if r is None and st.orelse:
                try:
                    r = self.block(st.orelse, env)
                except Raised:
                    fin(None)
                    raise
            return fin(r)
        if isinstance(st, ast.While):
            n_ = 0
            while self.truth(self.expr(st.test, env), st.test):
                n_ += 1
                if n_ > 100000:
                    raise AnalysisError("absint: while loop budget exceeded")
                r = self.block(st.body, env)
                if isinstance(r, _Brk):
                    break
                if isinstance(r, _Cont):
                    continue
                if r is not None:
                    return r
            return None
        if isinstance(st, ast.Break):
            return _Brk()
        if isinstance(st, ast.Continue):
            return _Cont()
        if isinstance(st, ast.Pass):
            return None
        raise AnalysisError(f"absint: unsupported statement `{ast.unparse(st)[:60]}`")

    def store(self, t, v, env):
        if isinstance(t, ast.Name):
            env[t.id] = v
        elif isinstance(t, ast.Attribute):
            obj = self.expr(t.value, env)
            if isinstance(obj, Node):
                obj.f[t.attr] = v
            else:
                raise AnalysisError("absint: attribute store on non-node")
        elif isinstance(t, (ast.Tuple, ast.List)):
            vals = list(self.iterate(v))
            stars = [i_ for i_, a in enumerate(t.elts) if isinstance(a, ast.Starred)]
            if len(stars) > 1:
                raise AnalysisError("absint: two starred targets")
            if stars:
                k_ = stars[0]
                after = len(t.elts) - k_ - 1
                if len(vals) < len(t.elts) - 1:
                    raise Raised(f"ValueError: not enough values to unpack (expected at least {len(t.elts) - 1}, got {len(vals)})")
                for a, b in zip(t.elts[:k_], vals[:k_]):
                    self.store(a, b, env)
                self.store(t.elts[k_].value, list(vals[k_:len(vals) - after]), env)
                for a, b in zip(t.elts[k_ + 1:], vals[len(vals) - after:]):
                    self.store(a, b, env)
                return
            if len(vals) != len(t.elts):
                raise Raised(f"ValueError: unpack {len(vals)} values into {len(t.elts)} targets")
            for a, b in zip(t.elts, vals):
                self.store(a, b, env)
        elif isinstance(t, ast.Subscript):
            base = self.expr(t.value, env)
            idx = self.expr(t.slice, env)
            base[idx] = v
        else:
            raise AnalysisError(f"absint: unsupported store `{ast.unparse(t)}`")

    def truth(self, v, where=None):
        if isinstance(v, bool):
            return v
        if isinstance(v, (int, float)):
            return bool(v)
        if isinstance(v, (list, tuple, dict, str, set, frozenset)):
            return bool(v)
        if v is None:
            return False
        if isinstance(v, Node):
            return True
        if isinstance(v, (_Bound, _Lam, _PyCall, _Closure, _Cls, _Record, type)) or (hasattr(v, "node") and hasattr(v, "module")):
            return True  # functions, bound methods and classes are truthy
        if isinstance(v, (Fraction, complex)):
            return bool(v)
        if isinstance(v, re.Match):
            return True  # a match object (of a regex call the rule let through to `re`) is truthy; no match is None
        if isinstance(v, PyNative) and hasattr(v, "truth") and hasattr(v, "flat"):
            try:
                return v.truth()
            except ValueError as ex:
                raise Raised(f"ValueError: {ex}")
        if isinstance(v, PyNative):
            try:
                return bool(v)
            except Exception:
                return True
        raise AnalysisError(f"absint: truth value undecidable at `{ast.unparse(where) if where else v}`")

    def iterate(self, it):
        if isinstance(it, (list, tuple, range)):
            return list(it)
        if isinstance(it, Node) and "__fields__" in it.f:
            return [it.f[k_] for k_ in it.f["__fields__"]]  # a NamedTuple record is a tuple of its fields
        if isinstance(it, dict):
            return list(it.keys())
        if isinstance(it, _Counter):
            raise AnalysisError("absint: iteration over an unbounded counter")
        if isinstance(it, PyNative):
            return list(it)
        if isinstance(it, (set, frozenset)):
            if all(isinstance(x, int) and not isinstance(x, bool) for x in it):
                # ints hash to themselves (no hash seed): the order is CPython's slot order, reproduced by the analysis host's own CPython
                return list(it)
            if len(it) <= 1:
                return list(it)  # a single element has one order
            raise AnalysisError("absint: iteration over a set (order not defined)")
        raise AnalysisError(f"absint: cannot iterate {type(it).__name__}")

    # ---- expressions ------------------------------------------------------------------------
    def binop(self, op, a, b):
        an, bn = isinstance(a, Node), isinstance(b, Node)
        if an or bn:
            meths = BINOP_METHODS.get(type(op))
            if meths is None:
                raise AnalysisError("absint: unsupported operator on nodes")
            if an:
                return self.call_method(a, meths[0], b)
            return self.call_method(b, meths[1], a)
        if isinstance(a, (int, float, Fraction)) and isinstance(b, (int, float, Fraction)):
            try:
                return {
                    ast.Add: lambda: a + b, ast.Sub: lambda: a - b, ast.Mult: lambda: a * b,
                    ast.Div: lambda: a / b, ast.FloorDiv: lambda: a // b, ast.Mod: lambda: a % b, ast.Pow: lambda: a ** b,
                    ast.LShift: lambda: a << b, ast.RShift: lambda: a >> b, ast.BitAnd: lambda: a & b, ast.BitOr: lambda: a | b, ast.BitXor: lambda: a ^ b,
                }[type(op)]()
            except ZeroDivisionError:
                raise Raised("ZeroDivisionError")
        if isinstance(a, Rat) or isinstance(b, Rat):
            a2 = a if isinstance(a, Rat) else _num(a)
            b2 = b if isinstance(b, Rat) else _num(b)
            try:
                return {ast.Add: lambda: a2 + b2, ast.Sub: lambda: a2 - b2, ast.Mult: lambda: a2 * b2, ast.Div: lambda: a2 / b2}[type(op)]()
            except ZeroDivisionError:
                raise Raised("ZeroDivisionError")
            except KeyError:
                raise AnalysisError("absint: unsupported operator on symbolic values")
        if isinstance(op, ast.BitOr) and all(isinstance(x, (type, _Cls, tuple)) for x in (a, b)):
            # `A | B` of classes (a union type used as second argument of isinstance): the tuple of classes
            flat_ = []
            for x in (a, b):
                flat_.extend(x if isinstance(x, tuple) else [x])
            return tuple(flat_)
        if isinstance(a, (set, frozenset)) and isinstance(b, (set, frozenset)):
            if isinstance(op, ast.BitOr):
                return a | b
            if isinstance(op, ast.BitAnd):
                return a & b
            if isinstance(op, ast.Sub):
                return a - b
        if isinstance(op, ast.Mult) and ((isinstance(a, list) and isinstance(b, int)) or (isinstance(b, list) and isinstance(a, int))):
            return a * b
        if isinstance(a, list) and isinstance(b, list) and isinstance(op, ast.Add):
            return a + b
        if isinstance(a, tuple) and isinstance(b, tuple) and isinstance(op, ast.Add):
            return a + b
        if isinstance(a, str) and isinstance(b, str) and isinstance(op, ast.Add):
            return a + b
        if isinstance(op, ast.Mult) and ((isinstance(a, (str, tuple)) and isinstance(b, int)) or (isinstance(b, (str, tuple)) and isinstance(a, int))):
            return a * b
        if isinstance(a, PyNative) or isinstance(b, PyNative):
            import operator as _op
            fn = {ast.Add: _op.add, ast.Sub: _op.sub, ast.Mult: _op.mul, ast.Div: _op.truediv, ast.FloorDiv: _op.floordiv, ast.Mod: _op.mod,
                  ast.BitOr: _op.or_, ast.BitAnd: _op.and_}.get(type(op))
            if fn is not None:
                try:
                    return fn(a, b)
                except TypeError as e:
                    raise Raised(f"TypeError: {e}")
        raise AnalysisError(f"absint: unsupported binop {type(op).__name__} on {type(a).__name__},{type(b).__name__}")

    def isinstance_(self, x, target_node, env):
        if isinstance(x, Rat):
            names = {n.id for n in ast.walk(target_node) if isinstance(n, ast.Name)} | {n.attr for n in ast.walk(target_node) if isinstance(n, ast.Attribute)}
            if names == {"Zero"}:
                return x.is_zero()
            raise AnalysisError(f"absint: isinstance of a symbolic value against {sorted(names)}")
        # a class held in a variable (`for k in table.keys(): if isinstance(o, k)`): decided on the value
        if isinstance(target_node, ast.Name) and target_node.id in env:
            tv = env[target_node.id]
            tvs = tv if isinstance(tv, tuple) else (tv,)
            if tvs and all(isinstance(t_, (type, _Cls)) for t_ in tvs):
                for t_ in tvs:
                    if isinstance(t_, type):
                        if isinstance(x, t_):
                            return True
                    elif isinstance(x, Node) and t_.name in self.class_chain(x):
                        return True
                return False
        targets = []

        def flat(t):
            if isinstance(t, ast.Tuple):
                for e in t.elts:
                    flat(e)
            elif isinstance(t, ast.BinOp) and isinstance(t.op, ast.BitOr):
                flat(t.left)
                flat(t.right)
            elif isinstance(t, ast.Call) and isinstance(t.func, ast.Name) and t.func.id == "type" and len(t.args) == 1 and not t.keywords:
                # isinstance(other, type(self)): the class of the value
                v_ = self.expr(t.args[0], env)
                if isinstance(v_, Node):
                    targets.append(v_.cls)
                elif isinstance(v_, PyNative):
                    targets.append(type(v_).__name__)
                elif isinstance(v_, (bool, int, float, complex, str, list, tuple, dict)):
                    targets.append(type(v_).__name__)
                else:
                    raise AnalysisError("absint: isinstance against type(<value of unknown class>)")
            elif isinstance(t, ast.Attribute) and t.attr == "__class__":
                v_ = self.expr(t.value, env)
                if isinstance(v_, Node):
                    targets.append(v_.cls)
                elif isinstance(v_, PyNative):
                    targets.append(type(v_).__name__)
                else:
                    raise AnalysisError("absint: isinstance against <value>.__class__ of unknown class")
            else:
                targets.append(dotted(t) or ast.unparse(t))

        flat(target_node)
        for t in targets:
            last = t.split(".")[-1]
            if isinstance(x, PyNative):
                if last in [c.__name__ for c in type(x).__mro__]:
                    return True
            elif isinstance(x, Node):
                chain = [x.cls] + (self.classes[x.cls].bases if x.cls in self.classes else []) + list(self.extra_bases.get(x.cls, ()))
                if last in chain:
                    return True
                if last in env and isinstance(env[last], tuple):
                    if any(c in chain for c in env[last]):
                        return True
            elif isinstance(x, bool):
                if last in ("bool",):
                    return True
            elif isinstance(x, int):
                if last in ("int", "Integral", "number", "Real", "Number"):
                    return True
            elif isinstance(x, float):
                if last in ("float", "Real", "Number"):
                    return True
            elif isinstance(x, complex):
                if last in ("complex", "Complex", "Number"):
                    return True
            elif isinstance(x, str) and last == "str":
                return True
            elif isinstance(x, list) and last == "list":
                return True
            elif isinstance(x, tuple) and last == "tuple":
                return True
        return False

    def to_str(self, x):
        """str(x) as Python would compute it: the class's own __str__/__repr__ when it defines one."""
        if isinstance(x, Node):
            for meth in ("__str__", "__repr__"):
                m = self.find_method(x.cls, meth)
                if m is not None:
                    return self.call_f(m, [x])
            raise AnalysisError(f"absint: str() of {x.cls}, which has no __repr__ (the text would contain an address)")
        if isinstance(x, PyNative):
            return str(x)
        if isinstance(x, (list, tuple)):
            inner = ", ".join(self.to_str(i) if isinstance(i, Node) else repr(i) for i in x)
            return f"[{inner}]" if isinstance(x, list) else f"({inner}{',' if len(x) == 1 else ''})"
        return str(x)

    def apply(self, f, args):
        """Call an interpreter-level callable value."""
        if isinstance(f, _Lam):
            env2 = dict(f.env)
            for p_, v_ in zip([a.arg for a in f.node.args.args], args):
                env2[p_] = v_
            return self.expr(f.node.body, env2)
        if isinstance(f, _PyCall):
            return f.fn(*args)
        if isinstance(f, _Bound):
            return self.call_f(f.func, [f.obj] + list(args))
        if isinstance(f, _Closure):
            return self.call_func(f.node, list(args), None, base_env=f.env)
        if isinstance(f, _DictMeth) and f.name in ("get", "setdefault"):
            return getattr(f.d, f.name)(*args)
        if hasattr(f, "node") and hasattr(f, "module"):
            return self.call_f(f, list(args))
        if isinstance(f, type) and f in (int, float, str, bool, len.__class__) or f in (int, float, str, bool, abs, len, repr):
            # a builtin used as a function value (`key=int`, `map(str, ...)`)
            if any(isinstance(a, Node) for a in args):
                raise AnalysisError(f"absint: builtin {getattr(f, '__name__', f)} applied to a sample node")
            try:
                return f(*args)
            except (TypeError, ValueError) as ex:
                raise Raised(f"{type(ex).__name__}: {str(ex)[:60]}")
        raise AnalysisError("absint: value is not callable")

    def construct(self, cls: str, args, kwargs):
        lc = self.classes[cls]
        k = lc.kind
        init = self.find_method(cls, "__init__")
        if init is None:
            raise AnalysisError(f"absint: {cls} has no __init__")
        obj = Node(cls)
        # interpret the real __init__ so that its checks (asserts, as_lexpr, raises) are honoured
        self.call_f(init, [obj] + list(args), kwargs)
        return obj

    def canon_name(self, d, env):
        """`name` / `alias.rest` spelled through an import of the current module -> the fully qualified name, when that is the one a rule has given a stand-in for
        (`from ufl.utils.indexflattening import shape_to_strides` makes `shape_to_strides` mean `ufl.utils.indexflattening.shape_to_strides`)"""
        if not d or d in self.overrides:
            return d
        head, _, rest = d.partition(".")
        if head in env:
            return d
        m = self.cur()
        tgt = m.imports.get(head) if m is not None else None
        if tgt and tgt != head:
            full = tgt + ("." + rest if rest else "")
            if full in self.overrides:
                return full
        return d

    def expr(self, e, env):
        if isinstance(e, ast.Constant):
            return e.value
        if isinstance(e, ast.Name):
            if e.id in env:
                return env[e.id]
            if e.id in self.overrides:
                return self.overrides[e.id]
            if self.canon_name(e.id, env) in self.overrides:
                return self.overrides[self.canon_name(e.id, env)]
            g = self.resolve_global(e.id)
            if g is not None:
                return g
            en = self.resolve_enum(e.id)
            if en is not None:
                return en
            mr = self.resolve_module(e.id)
            if mr is not None:
                return mr
            mc = self.resolve_constant(e.id)
            if mc is not _MISSING:
                return mc
            mc = self.resolve_imported_constant(e.id)
            if mc is not _MISSING:
                return mc
            nt = self.resolve_record(e.id)
            if nt is not None:
                return nt
            if e.id in self.classes:
                return _Cls(e.id)
            f = self.mod.funcs.get(e.id)
            if f is not None:
                return f
            if e.id == "defaultdict":
                return _Builtin("defaultdict")
            if e.id in ("list", "tuple", "dict", "set", "int", "float", "str", "bool", "object", "complex", "bytes"):
                return {"list": list, "tuple": tuple, "dict": dict, "set": set, "int": int, "float": float, "str": str, "bool": bool, "object": object, "complex": complex,
                        "bytes": bytes}[e.id]
            if e.id in ("True", "False", "None"):
                return {"True": True, "False": False, "None": None}[e.id]
            if e.id == "NotImplemented":
                return NotImplemented
            if e.id in _EXC_NAMES:
                return _ExcCls(e.id)
            if e.id == "suppress":
                return _PyCall(lambda *kinds: _Suppress(kinds))
            if e.id in (env.get("__locals__") or ()):
                raise Raised(f"UnboundLocalError: cannot access local variable '{e.id}' where it is not associated with a value")
            raise AnalysisError(f"absint: unknown name {e.id}")
        if isinstance(e, ast.Attribute):
            d = dotted(e)
            if d and d.startswith("PRECEDENCE."):
                return self.prec.get(d.split(".", 1)[1], 0)  # the real table when the rule supplies it (instance-level precedence), 0 otherwise
            if d and d.startswith("DataType."):
                return "DataType." + e.attr
            if d and d in self.overrides:
                return self.overrides[d]
            if d and self.canon_name(d, env) in self.overrides:
                return self.overrides[self.canon_name(d, env)]
            if d == "contextlib.suppress" and "contextlib" not in env:
                return _PyCall(lambda *kinds: _Suppress(kinds))
            if d:
                parts = d.split(".")
                if (self.is_lalias(parts[0]) or (not self.ctx and parts[0] in self.lalias)) and parts[0] not in env:
                    if len(parts) == 2:
                        if parts[1] in self.classes:
                            return _Cls(parts[1])
                        if parts[1] in self.mod.funcs:
                            return self.mod.funcs[parts[1]]
                    if len(parts) == 3 and parts[1] in ("DataType", "Annotation", "PRECEDENCE"):
                        return 0 if parts[1] == "PRECEDENCE" else f"{parts[1]}.{parts[2]}"
                    raise AnalysisError(f"absint: unknown member `{d}` of the LNodes module")
                if d in ("collections.defaultdict",):
                    return _Builtin("defaultdict")
            base = self.expr(e.value, env)
            if isinstance(base, Node):
                if e.attr in base.f:
                    return base.f[e.attr]
                if e.attr == "dtype":
                    return "DataType.NONE"
                if e.attr in ("precedence", "sideeffect", "op") and base.cls in self.classes:
                    return getattr(self.classes[base.cls], e.attr)
                m = self.find_method(base.cls, e.attr)
                if m is not None:
                    if any(isinstance(dc, ast.Name) and dc.id == "property" for dc in m.node.decorator_list):
                        return self.call_f(m, [base])
                    if any(isinstance(dc, ast.Name) and dc.id == "staticmethod" for dc in m.node.decorator_list):
                        return m  # looked up on an instance, a static method is the plain function
                    return _Bound(base, m)
                if e.attr == "_replace":
                    # NamedTuple._replace on a record node: a copy with the given fields changed
                    def _repl(_b=base, **kw):
                        unknown = [k for k in kw if k not in _b.f]
                        if unknown:
                            raise Raised(f"ValueError: got unexpected field names {unknown}")
                        return Node(_b.cls, **{**_b.f, **kw})

                    return _PyCall(_repl)
                raise AnalysisError(f"absint: {base.cls} has no attribute {e.attr}")
            if isinstance(base, PyNative):
                try:
                    v_ = getattr(base, e.attr)
                except AttributeError:
                    if any("__getattr__" in vars(c_) for c_ in type(base).__mro__ if c_ is not object):
                        # a stand-in with dynamic attributes decides for itself what it lacks
                        raise Raised(f"AttributeError: {type(base).__name__}.{e.attr}")
                    # the stand-in does not model this attribute: a gap of the model, not a property of the library object it stands for
                    raise AnalysisError(f"absint: stand-in {type(base).__name__} does not model attribute `{e.attr}`")
                return _PyCall(v_) if callable(v_) and not isinstance(v_, PyNative) else v_
            if isinstance(base, (int, float, complex)) and not isinstance(base, bool) and e.attr in ("real", "imag"):
                return getattr(base, e.attr)
            if base is dict and e.attr == "fromkeys":
                return _PyCall(lambda it, v=None: dict.fromkeys(self.iterate(it), v))
            if isinstance(base, _EnumCls):
                meth = getattr(base, "module", None) and base.module.funcs.get(f"{base.name}.{e.attr}")
                if meth:
                    return _PyCall(lambda *a, _m=meth, _b=base: self.call_f(_m, [_b] + list(a)))
                return f"{base.name}.{e.attr}"
            if isinstance(base, _ImpRef):
                full = f"{base.name}.{e.attr}"
                if full in self.overrides:
                    return self.overrides[full]
                if full in self.repo.modules:
                    return _ModRef(self.repo.modules[full])
                return _ImpRef(full)
            if isinstance(base, _ModRef):
                if e.attr in base.mod.funcs:
                    return base.mod.funcs[e.attr]
                for st in base.mod.tree.body:
                    if isinstance(st, ast.Assign) and any(isinstance(t, ast.Name) and t.id == e.attr for t in st.targets):
                        try:
                            return const_value(st.value)
                        except ValueError:
                            raise AnalysisError(f"absint: module constant {base.mod.name}.{e.attr} is not a literal")
                sub = f"{base.mod.name}.{e.attr}"
                if sub in self.repo.modules:
                    return _ModRef(self.repo.modules[sub])  # a submodule of the package
                raise AnalysisError(f"absint: {base.mod.name} has no member {e.attr}")
            if isinstance(base, Rat) and e.attr == "_ufl_is_literal_":
                # a symbolic scalar stands for a UFL literal exactly when it has no indeterminate but the imaginary unit
                return all(v == IMAG for p_ in (base.num, base.den) for mono in p_ for v, _k in mono)
            if isinstance(base, _Super):
                # the next definition of the method after the defining class, along the bases (nearest first)
                chain = (self.classes[base.cls].bases if base.cls in self.classes else []) + list(self.extra_bases.get(base.cls, ()))
                for c_ in chain:
                    mm_ = self.mod.funcs.get(f"{c_}.{e.attr}") if c_ not in self.obj_classes else self.repo.mod(self.obj_classes[c_]).funcs.get(f"{c_}.{e.attr}")
                    if mm_ is not None:
                        return _Bound(base.obj, mm_)
                if e.attr == "__init__":
                    return _PyCall(lambda *a, **k: None)  # object.__init__
                raise AnalysisError(f"absint: super().{e.attr} not found above {base.cls}")
            if isinstance(base, _Cls) and e.attr == "__name__":
                return base.name
            if e.attr in ("__name__", "__qualname__") and hasattr(base, "node") and hasattr(base, "module") and isinstance(base.node, (ast.FunctionDef, ast.AsyncFunctionDef)):
                return base.node.name if e.attr == "__name__" else base.qualname
            if isinstance(base, _Cls) and e.attr == "__bases__":
                bs = (self.classes[base.name].bases[:1] if base.name in self.classes else []) or list(self.extra_bases.get(base.name, ()))[:1]
                return tuple(_Cls(b) for b in bs)
            if isinstance(base, _Cls):
                m = self.find_method(base.name, e.attr)
                if m is not None:
                    return m
                raise AnalysisError(f"absint: class {base.name} has no method {e.attr}")
            if isinstance(base, (list, tuple)) and e.attr == "count":
                return _PyCall(lambda x, _b=base: sum(1 for y in _b if self.equal(x, y)))
            if isinstance(base, list) and e.attr in ("pop", "insert", "reverse", "clear"):
                return _PyCall(getattr(base, e.attr))
            if isinstance(base, list) and e.attr == "sort":
                def _sort(key=None, reverse=False, _b=base):
                    try:
                        _b.sort(key=(lambda x: self.apply(key, [x])) if key is not None else None, reverse=bool(reverse))
                    except TypeError:
                        raise AnalysisError("absint: sort() of incomparable items")
                return _PyCall(_sort)
            if isinstance(base, (list, tuple)) and e.attr in ("copy", "index", "append", "extend", "remove"):
                return _ListMeth(base, e.attr)
            if isinstance(base, set) and e.attr in ("add", "discard", "update", "copy"):
                return _PyCall(getattr(base, e.attr))
            if isinstance(base, dict) and e.attr in ("update", "pop", "copy"):
                return _PyCall(getattr(base, e.attr))
            if isinstance(base, dict) and e.attr in ("items", "keys", "values", "get", "setdefault"):
                return _DictMeth(base, e.attr)
            if isinstance(base, str) and e.attr in ("name", "value") and re.fullmatch(r"[A-Z][A-Za-z0-9_]*\.[A-Za-z_]\w*", base):
                # a member of a repository Enum (members are modelled as "Class.member")
                cname, member = base.split(".")
                if e.attr == "name":
                    return member
                for mod_ in self.repo.modules.values():
                    c_ = mod_.classes.get(cname)
                    if c_ is not None and any((dotted(b) or "").split(".")[-1] in ("Enum", "IntEnum") for b in c_.bases):
                        for st in c_.body:
                            if isinstance(st, ast.Assign) and any(isinstance(t, ast.Name) and t.id == member for t in st.targets):
                                try:
                                    return const_value(st.value)
                                except ValueError:
                                    raise AnalysisError(f"absint: value of enum member {base} is not a literal")
                raise AnalysisError(f"absint: enum member {base} not found")
            if isinstance(base, str) and e.attr in ("replace", "isalnum", "startswith", "endswith", "format", "format_map", "join", "lower", "upper", "strip", "isidentifier", "split", "encode"):
                return _PyCall(getattr(base, e.attr))
            raise AnalysisError(f"absint: attribute `{ast.unparse(e)}` not modelled")
        if isinstance(e, ast.UnaryOp):
            v = self.expr(e.operand, env)
            if isinstance(e.op, ast.Not):
                return not self.truth(v, e.operand)
            if isinstance(e.op, ast.USub):
                if isinstance(v, Node):
                    return self.call_method(v, "__neg__")
                return -v
        if isinstance(e, ast.BinOp):
            return self.binop(e.op, self.expr(e.left, env), self.expr(e.right, env))
        if isinstance(e, ast.BoolOp):
            if isinstance(e.op, ast.And):
                v = True
                for x in e.values:
                    v = self.expr(x, env)
                    if not self.truth(v, x):
                        return v
                return v
            v = False
            for x in e.values:
                v = self.expr(x, env)
                if self.truth(v, x):
                    return v
            return v
        if isinstance(e, ast.Compare):
            left = self.expr(e.left, env)
            for op, c in zip(e.ops, e.comparators):
                right = self.expr(c, env)
                r = self.compare(op, left, right)
                if not r:
                    return False
                left = right
            return True
        if isinstance(e, ast.Slice):
            return slice(self.expr(e.lower, env) if e.lower else None, self.expr(e.upper, env) if e.upper else None,
                         self.expr(e.step, env) if e.step else None)
        if isinstance(e, ast.NamedExpr):
            v = self.expr(e.value, env)
            env[e.target.id] = v
            return v
        if isinstance(e, ast.IfExp):
            return self.expr(e.body if self.truth(self.expr(e.test, env), e.test) else e.orelse, env)
        if isinstance(e, (ast.List, ast.Tuple)):
            out = []
            for x in e.elts:
                if isinstance(x, ast.Starred):
                    out.extend(self.iterate(self.expr(x.value, env)))
                else:
                    out.append(self.expr(x, env))
            return out if isinstance(e, ast.List) else tuple(out)
        if isinstance(e, ast.Set):
            try:
                return {self.expr(x, env) for x in e.elts}
            except TypeError:
                raise AnalysisError("absint: set display of unhashable values")
        if isinstance(e, ast.Subscript):
            if dotted(e.value) in ("Literal", "typing.Literal") and dotted(e.value) not in env:
                sl = e.slice.elts if isinstance(e.slice, ast.Tuple) else [e.slice]
                return _TypingLiteral(tuple(self.expr(x, env) for x in sl))
            base = self.expr(e.value, env)
            if isinstance(e.slice, ast.Slice):
                lo = self.expr(e.slice.lower, env) if e.slice.lower else None
                hi = self.expr(e.slice.upper, env) if e.slice.upper else None
                st = self.expr(e.slice.step, env) if e.slice.step else None
                return base[lo:hi:st]
            idx = self.expr(e.slice, env)
            if isinstance(base, Node) and "__fields__" in base.f and isinstance(idx, int) and not isinstance(idx, bool):
                try:
                    return base.f[base.f["__fields__"][idx]]
                except IndexError:
                    raise Raised("IndexError: tuple index out of range")
            if isinstance(base, Node):
                return self.call_method(base, "__getitem__", idx)
            try:
                return base[idx]
            except KeyError:
                raise Raised(f"KeyError: {idx!r}"[:80])
            except IndexError:
                raise Raised("IndexError: index out of range")
            except TypeError as ex:
                raise AnalysisError(f"absint: subscript failed: {ex}")
        if isinstance(e, ast.DictComp):
            import types as _types

            pairs = self.comp(_types.SimpleNamespace(generators=e.generators, elt=ast.Tuple(elts=[e.key, e.value], ctx=ast.Load())), env)
            return {k: v for k, v in pairs}
        if isinstance(e, ast.SetComp):
            return set(self.comp(e, env))
        if isinstance(e, (ast.ListComp, ast.GeneratorExp)):
            return self.comp(e, env)
        if isinstance(e, ast.Lambda):
            return _Lam(e, dict(env))
        if isinstance(e, ast.Call):
            return self.call(e, env)
        if isinstance(e, ast.JoinedStr):
            out = ""
            for v in e.values:
                if isinstance(v, ast.Constant):
                    out += str(v.value)
                else:
                    x = self.expr(v.value, env)
                    spec = self.expr(v.format_spec, env) if v.format_spec is not None else ""
                    if v.conversion == ord("r"):
                        x = repr(x) if not isinstance(x, Node) else self.to_str(x)
                    elif v.conversion == ord("s"):
                        x = self.to_str(x)
                    if spec:
                        if isinstance(x, (Node, Rat)):
                            raise AnalysisError(f"absint: format spec `{spec}` applied to a symbolic value")
                        try:
                            out += format(x, spec)
                        except (TypeError, ValueError) as ex:
                            raise Raised(f"{type(ex).__name__}: {ex}")
                    else:
                        out += x if isinstance(x, str) else self.to_str(x)
            return out
        if isinstance(e, ast.Dict):
            out_d = {}
            for k, v in zip(e.keys, e.values):
                if k is None:   # {**other, ...}
                    other = self.expr(v, env)
                    if not isinstance(other, dict):
                        raise AnalysisError("absint: ** of a non-dict in a dict display")
                    out_d.update(other)
                else:
                    out_d[self.expr(k, env)] = self.expr(v, env)
            return out_d
        raise AnalysisError(f"absint: unsupported expression `{ast.unparse(e)[:60]}`")

    def comp(self, e, env):
        # a generator expression over an unbounded counter is lazy: it is consumed with next()
        if isinstance(e, ast.GeneratorExp) and len(e.generators) == 1:
            it0 = self.expr(e.generators[0].iter, env)
            if isinstance(it0, _Counter):
                g0 = e.generators[0]
                interp = self

                class _LazyGen(_Counter):
                    def __init__(self_):
                        pass

                    def __next__(self_):
                        for _ in range(100000):
                            env3 = dict(env)
                            interp.store(g0.target, next(it0), env3)
                            if all(interp.truth(interp.expr(c, env3), c) for c in g0.ifs):
                                return interp.expr(e.elt, env3)
                        raise AnalysisError("absint: lazy generator: no element found")
                return _LazyGen()
        out = []

        def rec(gi, env2):
            if gi == len(e.generators):
                out.append(self.expr(e.elt, env2))
                return
            g = e.generators[gi]
            for x in self.iterate(self.expr(g.iter, env2)):
                env3 = dict(env2)
                self.store(g.target, x, env3)
                if all(self.truth(self.expr(c, env3), c) for c in g.ifs):
                    rec(gi + 1, env3)

        rec(0, dict(env))
        return out

    def compare(self, op, a, b):
        if isinstance(op, (ast.Is, ast.IsNot)):
            r = a is b or (a is None and b is None)
            return r if isinstance(op, ast.Is) else not r
        if isinstance(op, (ast.In, ast.NotIn)):
            if isinstance(b, str):
                r = isinstance(a, str) and a in b
            else:
                r = (a in b) if isinstance(b, (set, frozenset)) else any(self.equal(a, x) for x in self.iterate(b))
            return r if isinstance(op, ast.In) else not r
        # NumPy arrays compare elementwise (the result is a boolean array; its truth value is defined for one element only)
        arr = a if (isinstance(a, PyNative) and hasattr(a, "compare") and hasattr(a, "flat")) else b if (isinstance(b, PyNative) and hasattr(b, "compare") and hasattr(b, "flat")) else None
        if arr is not None and isinstance(op, (ast.Eq, ast.NotEq, ast.Lt, ast.LtE, ast.Gt, ast.GtE)) and not isinstance(a if arr is b else b, (Node, str, type(None))):
            import operator as _op
            fn = {ast.Eq: _op.eq, ast.NotEq: _op.ne, ast.Lt: _op.lt, ast.LtE: _op.le, ast.Gt: _op.gt, ast.GtE: _op.ge}[type(op)]
            try:
                if arr is a:
                    return a.compare(b, fn)
                return b.compare(a, lambda x, y: fn(y, x))
            except ValueError as ex:
                raise Raised(f"ValueError: {ex}")
        if isinstance(op, (ast.Eq, ast.NotEq)):
            r = self.equal(a, b)
            return r if isinstance(op, ast.Eq) else not r
        if isinstance(a, (int, float)) and isinstance(b, (int, float)):
            return {ast.Lt: a < b, ast.LtE: a <= b, ast.Gt: a > b, ast.GtE: a >= b}[type(op)]
        if isinstance(a, (PyNative, Fraction, tuple, str)) or isinstance(b, (PyNative, Fraction)):
            import operator as _op
            try:
                return bool({ast.Lt: _op.lt, ast.LtE: _op.le, ast.Gt: _op.gt, ast.GtE: _op.ge}[type(op)](a, b))
            except TypeError as ex:
                raise Raised(f"TypeError: {ex}")
        if isinstance(a, (set, frozenset)) and isinstance(b, (set, frozenset)):
            return {ast.Lt: a < b, ast.LtE: a <= b, ast.Gt: a > b, ast.GtE: a >= b}[type(op)]  # subset / superset tests
        raise AnalysisError("absint: unsupported comparison")

    def equal(self, a, b):
        # a class of the repository that defines __eq__ decides its own equality (Python's protocol: a.__eq__(b), then the reflected
        # b.__eq__(a) when the first returns NotImplemented, then identity)
        if isinstance(a, Node) or isinstance(b, Node):
            if a is b:
                return True
            tried = False
            for x, y in ((a, b), (b, a)):
                if isinstance(x, Node) and self._eq_depth < 40:
                    m = self.find_method(x.cls, "__eq__") if (x.cls in self.classes or x.cls in self.obj_classes) else None
                    if m is not None:
                        tried = True
                        self._eq_depth += 1
                        try:
                            r = self.call_f(m, [x, y])
                        finally:
                            self._eq_depth -= 1
                        if r is not NotImplemented:
                            return self.truth(r)
            if tried:
                return False  # every __eq__ declined: Python falls back to identity, and the two are different objects
        if isinstance(a, Node) and isinstance(b, Node):
            return repr(a) == repr(b)
        if isinstance(a, Node) or isinstance(b, Node):
            return False
        return a == b

    def call(self, e, env):
        fn = dotted(e.func)
        args = []
        for a in e.args:
            if isinstance(a, ast.Starred):
                args.extend(self.iterate(self.expr(a.value, env)))
            else:
                args.append(a)
        kw = {}
        # builtins that need unevaluated args
        if fn == "isinstance":
            return self.isinstance_(self.expr(args[0], env), args[1], env)
        vals = [self.expr(a, env) if isinstance(a, ast.AST) else a for a in args]
        for k in e.keywords:
            if k.arg is None:
                d_ = self.expr(k.value, env)
                if not isinstance(d_, dict):
                    raise AnalysisError("absint: ** of a non-dict")
                kw.update(d_)
                continue
            kw[k.arg] = self.expr(k.value, env)
        fn = self.canon_name(fn, env)
        if fn in self.overrides and isinstance(self.overrides[fn], _PyCall) and fn.split(".")[0] not in env:
            try:
                return self.overrides[fn].fn(*vals, **kw)  # a stub given by the rule wins over the built-in models
            except (Raised, AnalysisError):
                raise
            except NotImplementedError as ex:
                raise AnalysisError(f"absint: library model does not cover this call: {str(ex)[:80]}")
            except (TypeError, ValueError, KeyError, IndexError, ZeroDivisionError, AttributeError) as ex:
                if isinstance(ex, TypeError) and any(t_ in str(ex) for t_ in ("unexpected keyword argument", "positional argument", "required keyword")):
                    raise AnalysisError(f"absint: library model called with an unsupported signature: {str(ex)[:90]}")
                raise Raised(f"{type(ex).__name__}: {str(ex)[:60]}")
        if fn == "super" and not vals:
            cur = self.fstack[-1] if self.fstack else None
            qn = getattr(cur, "qualname", "") or ""
            if "." not in qn or "self" not in env:
                raise AnalysisError("absint: super() outside a method")
            return _Super(qn.rsplit(".", 1)[0], env["self"])
        # builtins modelled below take the keywords listed here and no others: an unknown keyword must not be dropped silently
        _kw_ok = {"enumerate": {"start"}, "zip": {"strict"}, "sorted": {"key", "reverse"}, "max": {"key", "default"}, "min": {"key", "default"}, "sum": {"start"},
                  "dict": None, "int": {"base"}, "print": None, "round": {"ndigits"}, "next": set(), "len": set(), "range": set(), "reversed": set(), "list": set(),
                  "tuple": set(), "set": set(), "frozenset": set(), "any": set(), "all": set(), "abs": set(), "bool": set(), "hash": set(), "iter": set(),
                  "str": set(), "repr": set(), "getattr": set(), "hasattr": set(), "type": set(), "float": set(), "isinstance": set(), "issubclass": set()}
        if kw and fn in _kw_ok and _kw_ok[fn] is not None and fn not in self.overrides and fn not in env and not set(kw) <= _kw_ok[fn]:
            raise AnalysisError(f"absint: keyword(s) {sorted(set(kw) - _kw_ok[fn])} of builtin `{fn}` not modelled")
        if fn == "issubclass" and len(vals) == 2:
            a_, b_ = vals
            bs_ = b_ if isinstance(b_, tuple) else (b_,)
            if isinstance(a_, _Cls) and all(isinstance(t_, (_Cls, type)) for t_ in bs_):
                chain = self.class_chain(Node(a_.name))
                return any(isinstance(t_, _Cls) and t_.name in chain for t_ in bs_)
            if isinstance(a_, type) and all(isinstance(t_, type) for t_ in bs_):
                return issubclass(a_, bs_)
            if isinstance(a_, type) and all(isinstance(t_, (_Cls, type)) for t_ in bs_):
                return any(isinstance(t_, type) and issubclass(a_, t_) for t_ in bs_)
            raise AnalysisError("absint: issubclass of values that are not classes")
        if fn == "len":
            if isinstance(vals[0], Node):
                raise AnalysisError("len of node")
            return len(vals[0])
        if fn == "range":
            return list(range(*vals))
        if fn == "zip":
            seqs = [self.iterate(v) for v in vals]
            if kw.get("strict") and len({len(q_) for q_ in seqs}) > 1:
                raise Raised("ValueError: zip() arguments have different lengths")
            return [tuple(t) for t in zip(*seqs)]
        if fn == "enumerate":
            start = kw.get("start", vals[1] if len(vals) > 1 else 0)
            if not isinstance(start, int) or isinstance(start, bool):
                raise AnalysisError("absint: enumerate with a non-integer start")
            return [(i, x) for i, x in enumerate(self.iterate(vals[0]), start)]
        if fn == "reversed":
            return list(reversed(self.iterate(vals[0])))
        if fn in ("itertools.chain", "chain"):
            out_ = []
            for v_ in vals:
                out_.extend(self.iterate(v_))
            return out_
        if fn in ("itertools.count", "count") and fn not in self.overrides and fn not in env and len(vals) <= 2 and not kw:
            return _Counter(*vals)
        if fn in ("itertools.product", "product") and fn not in self.overrides and not kw.get("repeat"):
            import itertools as _it
            return [tuple(t) for t in _it.product(*[self.iterate(v_) for v_ in vals])]
        if fn in ("typing.get_args", "get_args") and len(vals) == 1 and isinstance(vals[0], _TypingLiteral):
            return tuple(vals[0].args)
        if fn in ("typing.cast", "cast") and len(vals) == 2 and fn not in self.overrides:
            return vals[1]
        if fn in ("itertools.chain.from_iterable", "chain.from_iterable") and len(vals) == 1:
            out_ = []
            for v_ in self.iterate(vals[0]):
                out_.extend(self.iterate(v_))
            return out_
        if fn in ("list", "tuple"):
            v = self.iterate(vals[0]) if vals else []
            return list(v) if fn == "list" else tuple(v)
        if fn in ("set", "frozenset"):
            if not vals:
                return set()
            src = vals[0]
            return set(src) if isinstance(src, (set, frozenset)) else set(self.iterate(src))
        if fn == "sorted" and len(vals) == 1 and set(kw) <= {"key", "reverse"}:
            src = vals[0]
            items = list(src) if isinstance(src, (set, frozenset)) else self.iterate(src)
            keyf = kw.get("key")
            try:
                if keyf is None:
                    return sorted(items, reverse=bool(kw.get("reverse", False)))
                return sorted(items, key=lambda x: self.apply(keyf, [x]), reverse=bool(kw.get("reverse", False)))
            except TypeError:
                raise AnalysisError("absint: sorted() of incomparable items")
        if fn == "dict" and len(vals) <= 1:
            out = {}
            if vals:
                if isinstance(vals[0], dict):
                    out.update(vals[0])
                else:
                    for pair in self.iterate(vals[0]):
                        k_, v_ = self.iterate(pair)
                        out[k_] = v_
            out.update(kw)
            return out
        if fn == "sum" and 1 <= len(vals) <= 2:
            tot = vals[1] if len(vals) == 2 else 0
            for x in self.iterate(vals[0]):
                tot = self.binop(ast.Add(), tot, x)
            return tot
        if fn == "next" and vals and isinstance(vals[0], _Counter):
            return next(vals[0])
        if fn == "next" and len(vals) == 1 and isinstance(vals[0], list):
            if not vals[0]:
                raise Raised("StopIteration")
            return vals[0][0]
        if fn == "iter" and len(vals) == 1:
            return self.iterate(vals[0])
        if fn in ("int", "float"):
            x = vals[0]
            if isinstance(x, Node):
                return x.f["value"]
            if fn == "int" and len(vals) == 2:
                try:
                    return int(x, vals[1])
                except (TypeError, ValueError) as ex:
                    raise Raised(f"{type(ex).__name__}: {ex}")
            return int(x) if fn == "int" else float(x)
        if fn in ("functools.reduce", "reduce") and len(vals) in (2, 3):
            seq = self.iterate(vals[1])
            if len(vals) == 3:
                acc = vals[2]
            elif seq:
                acc, seq = seq[0], seq[1:]
            else:
                raise Raised("TypeError: reduce() of empty iterable with no initial value")
            for x_ in seq:
                acc = self.apply(vals[0], [acc, x_])
            return acc
        if fn == "next" and len(vals) == 2 and isinstance(vals[0], list):
            return vals[0][0] if vals[0] else vals[1]
        if fn == "bool" and len(vals) == 1:
            return self.truth(vals[0])
        if fn == "hash" and len(vals) == 1:
            x = vals[0]
            if isinstance(x, Node):
                hm = self.find_method(x.cls, "__hash__")
                if hm is None:
                    raise AnalysisError(f"absint: hash() of {x.cls}, which defines no __hash__ (identity hash: differs between runs)")
                return self.call_f(hm, [x])
            if isinstance(x, (str, int, float, tuple, frozenset, PyNative)) or x is None:
                if isinstance(x, str):
                    return ("strhash", x)  # str hashes are salted per process: kept symbolic, equal strings give equal hashes
                if isinstance(x, tuple):
                    return ("tuplehash",) + tuple(self.call_builtin_hash(e_) for e_ in x)
                return hash(x)
            raise AnalysisError(f"absint: hash() of {type(x).__name__}")
        if fn in ("any", "all"):
            seq = [self.truth(x) for x in self.iterate(vals[0])]
            return any(seq) if fn == "any" else all(seq)
        if fn in ("np.prod", "numpy.prod", "ufl.product", "math.prod"):
            out = 1
            for x in self.iterate(vals[0]):
                out = out * x
            return out
        if fn in ("np.isclose", "numpy.isclose", "np.allclose", "numpy.allclose", "math.isclose"):
            a, b = vals[0], vals[1]
            if isinstance(a, Node) or isinstance(b, Node):
                raise AnalysisError("absint: isclose on nodes")
            if fn == "math.isclose":
                rtol, atol = kw.get("rel_tol", 1e-09), kw.get("abs_tol", 0.0)
                return abs(a - b) <= max(rtol * max(abs(a), abs(b)), atol)
            rtol, atol = kw.get("rtol", 1e-05), kw.get("atol", 1e-08)
            return abs(a - b) <= atol + rtol * abs(b)
        if fn in ("abs", "round", "min", "max") and all(isinstance(v, (int, float)) for v in vals):
            return {"abs": abs, "round": round, "min": min, "max": max}[fn](*vals)
        if fn in ("max", "min") and len(vals) == 1 and isinstance(vals[0], (list, tuple, set, frozenset, dict)):
            seq = self.iterate(vals[0])
            if not seq:
                if "default" in kw:
                    return kw["default"]
                raise Raised(f"ValueError: {fn}() arg is an empty sequence")
            if kw.get("key") is not None:
                keyed = [(self.apply(kw["key"], [x_]), x_) for x_ in seq]
                best = keyed[0]
                for kx in keyed[1:]:  # first extremal element wins, as in Python
                    if (kx[0] > best[0]) if fn == "max" else (kx[0] < best[0]):
                        best = kx
                return best[1]
            return (max if fn == "max" else min)(seq)
        if fn in ("np.asarray", "numpy.asarray", "np.array"):
            return vals[0]
        if fn in ("Counter", "collections.Counter") and len(vals) <= 1 and not kw:
            # occurrences per element in first-seen order (a dict; equality of elements as the interpreter sees it)
            cnt: dict = {}
            for x_ in (self.iterate(vals[0]) if vals else []):
                if isinstance(x_, (Node, list, dict, set)):
                    raise AnalysisError("absint: Counter of unhashable sample values")
                cnt[x_] = cnt.get(x_, 0) + 1
            return cnt
        if fn in ("defaultdict", "collections.defaultdict"):
            import collections

            fac = ast.unparse(e.args[0]) if e.args else "list"
            if fac not in ("list", "dict", "int", "set", "float"):
                raise AnalysisError(f"absint: defaultdict({fac}) not modelled")
            return collections.defaultdict({"list": list, "dict": dict, "int": int, "set": set, "float": float}[fac])
        if fn == "repr" and len(vals) == 1 and isinstance(vals[0], PyNative):
            return repr(vals[0])
        if fn in ("str", "repr") and len(vals) == 1:
            return self.to_str(vals[0])
        if fn == "getattr" and len(vals) in (2, 3):
            x, name = vals[0], vals[1]
            if isinstance(x, Node) and (name in x.f):
                return x.f[name]
            if isinstance(x, PyNative):
                try:
                    v_ = getattr(x, name)
                    return _PyCall(v_) if callable(v_) and not isinstance(v_, PyNative) else v_
                except AttributeError:
                    pass
            if len(vals) == 3:
                return vals[2]
            raise Raised("AttributeError")
        if fn == "hasattr":
            x, name = vals
            if isinstance(x, PyNative):
                return hasattr(x, name)
            return isinstance(x, Node) and (name in x.f or name == "dtype")
        if fn == "type":
            return _Cls(vals[0].cls) if isinstance(vals[0], Node) else type(vals[0])
        try:
            f = self.expr(e.func, env)
        except AnalysisError as ex:
            if "unknown name" in str(ex) or "not modelled" in str(ex):
                raise AnalysisError(f"absint: unknown callee `{fn or ast.unparse(e.func)}`")
            raise
        if f is None:
            raise AnalysisError(f"absint: unknown callee `{fn}`")
        if isinstance(f, type) and issubclass(f, PyNative):
            try:
                return f(*vals, **kw)  # a stand-in class supplied by the rule
            except (Raised, AnalysisError):
                raise
            except (TypeError, ValueError, KeyError, IndexError, AttributeError) as ex:
                raise Raised(f"{type(ex).__name__}: {str(ex)[:60]}")
        if isinstance(f, _Cls):
            return self.construct(f.name, vals, kw)
        if isinstance(f, _Record):
            if len(vals) > len(f.fields):
                raise Raised("TypeError: too many fields")
            rec = Node(f.name, **dict(zip(f.fields, vals)))
            for k_, v_ in kw.items():
                if k_ not in f.fields:
                    raise Raised(f"TypeError: unexpected field {k_}")
                rec.f[k_] = v_
            rec.f["__fields__"] = list(f.fields)
            return rec
        if isinstance(f, _Bound):
            return self.call_f(f.func, [f.obj] + vals, kw)
        if isinstance(f, _Lam):
            env2 = dict(f.env)
            for p, v in zip([a.arg for a in f.node.args.args], vals):
                env2[p] = v
            return self.expr(f.node.body, env2)
        if isinstance(f, _PyCall):
            try:
                return f.fn(*vals, **kw)
            except (Raised, AnalysisError):
                raise
            except NotImplementedError as ex:
                raise AnalysisError(f"absint: library model does not cover this call: {str(ex)[:80]}")
            except (TypeError, ValueError, KeyError, IndexError, ZeroDivisionError, AttributeError) as ex:
                if isinstance(ex, TypeError) and any(t_ in str(ex) for t_ in ("unexpected keyword argument", "positional argument", "required keyword")):
                    # the *stand-in's* signature does not cover the call - a gap of the model, not a rejection by the library
                    raise AnalysisError(f"absint: library model called with an unsupported signature: {str(ex)[:90]}")
                # the modelled library function rejects these arguments, as the real one would
                raise Raised(f"{type(ex).__name__}: {str(ex)[:60]}")
        if isinstance(f, _Closure):
            return self.call_func(f.node, vals, kw, base_env=f.env)
        if isinstance(f, Node) and isinstance(f.f.get("__call__"), _PyCall):
            return f.f["__call__"].fn(*vals, **kw)
        if isinstance(f, _DictMeth):
            if f.name == "items":
                return [(k, v) for k, v in f.d.items()]
            if f.name == "keys":
                return list(f.d.keys())
            if f.name == "values":
                return list(f.d.values())
            if f.name == "get":
                return f.d.get(vals[0], vals[1] if len(vals) > 1 else None)
            if f.name == "setdefault":
                return f.d.setdefault(vals[0], vals[1] if len(vals) > 1 else None)
        if isinstance(f, _ListMeth):
            if f.name == "copy":
                return list(f.lst)
            if f.name == "index":
                for i, x in enumerate(f.lst):
                    if self.equal(x, vals[0]):
                        return i
                raise Raised("ValueError")
            if f.name == "append":
                if len(vals) != 1:
                    raise Raised(f"TypeError: list.append() takes exactly one argument ({len(vals)} given)")
                f.lst.append(vals[0])
                return None
            if f.name == "extend":
                f.lst.extend(self.iterate(vals[0]))
                return None
            if f.name == "remove":
                for i, x in enumerate(f.lst):
                    if self.equal(x, vals[0]):
                        del f.lst[i]
                        return None
                raise Raised("ValueError")
        if hasattr(f, "node") and isinstance(f.node, ast.FunctionDef):
            if hasattr(f, "module") and vals and any((dotted(d) or "").split(".")[-1] == "singledispatch" for d in f.node.decorator_list):
                f = self.dispatch(f, vals[0])
            return self.call_f(f, vals, kw) if hasattr(f, "module") else self.call_func(f.node, vals, kw)
        raise AnalysisError(f"absint: cannot call `{ast.unparse(e.func)}`")

    def call_builtin_hash(self, x):
        if isinstance(x, Node):
            hm = self.find_method(x.cls, "__hash__")
            if hm is None:
                raise AnalysisError(f"absint: hash() of {x.cls}, which defines no __hash__")
            return self.call_f(hm, [x])
        if isinstance(x, str):
            return ("strhash", x)
        if isinstance(x, tuple):
            return ("tuplehash",) + tuple(self.call_builtin_hash(e_) for e_ in x)
        return hash(x)

    def class_chain(self, x) -> list[str]:
        """Class names of a value, most specific first (sample nodes: own class, LNodes bases, `extra_bases`, transitively)."""
        if isinstance(x, PyNative):
            return [c.__name__ for c in type(x).__mro__]
        if isinstance(x, Node):
            out, todo = [], [x.cls]
            while todo:
                c = todo.pop(0)
                if c in out:
                    continue
                out.append(c)
                todo.extend(self.classes[c].bases if c in self.classes else [])
                todo.extend(self.extra_bases.get(c, ()))
            return out + ["object"]
        return [c.__name__ for c in type(x).__mro__]

    def dispatch(self, f, first):
        """functools.singledispatch: the implementation registered (in f's module, `@<f>.register(Cls)`) for the most specific
        class of the first argument; the generic function otherwise."""
        name = f.node.name
        table: dict[str, object] = {}
        for g in f.module.funcs.values():
            for d in g.node.decorator_list:
                if isinstance(d, ast.Call) and isinstance(d.func, ast.Attribute) and d.func.attr == "register" and dotted(d.func.value) == name and d.args:
                    for t_ in (d.args[0].elts if isinstance(d.args[0], ast.Tuple) else [d.args[0]]):
                        table[(dotted(t_) or ast.unparse(t_)).split(".")[-1]] = g
        for c in self.class_chain(first):
            if c in table:
                return table[c]
        return f


_EXC_NAMES = {"Exception", "BaseException", "RuntimeError", "ValueError", "TypeError", "KeyError", "IndexError", "LookupError", "OSError", "IOError", "FileNotFoundError",
              "FileExistsError", "AttributeError", "NotImplementedError", "ZeroDivisionError", "ArithmeticError", "AssertionError", "TimeoutError", "ImportError",
              "ModuleNotFoundError", "StopIteration", "PermissionError"}
_EXC_PARENTS = {"FileNotFoundError": ("OSError", "IOError"), "FileExistsError": ("OSError", "IOError"), "PermissionError": ("OSError", "IOError"), "TimeoutError": ("OSError",),
                "KeyError": ("LookupError",), "IndexError": ("LookupError",), "ZeroDivisionError": ("ArithmeticError",), "ModuleNotFoundError": ("ImportError",),
                "NotImplementedError": ("RuntimeError",)}


class PyNativeBase:
    pass


class _ExcCls:
    """A builtin exception class used as a value (argument of contextlib.suppress, second operand of isinstance)."""

    def __init__(self, name):
        self.name = name

    def __repr__(self):
        return self.name


def _exc_kind(what: str) -> str:
    return str(what).split(":")[0].replace("raise ", "").split("(")[0].strip()


class _Suppress:
    def __init__(self, kinds):
        self.kinds = [k.name if isinstance(k, _ExcCls) else str(k) for k in kinds]

    def __enter__(self):
        return None

    def __exit__(self, et, ex, tb):
        if et is None or ex is None:
            return False
        kind = _exc_kind(getattr(ex, "what", ""))
        return any(k in ("Exception", "BaseException") or k == kind or k in _EXC_PARENTS.get(kind, ()) for k in self.kinds)


class _GenCtx:
    """A function decorated with contextlib.contextmanager, called: the statements before its single `yield` run on entry, those after
    it on a normal exit; a `try: yield finally:` runs the finally part on every exit."""

    def __init__(self, it, fnode, env):
        self.it, self.fnode, self.env = it, fnode, env
        self.post = None
        self.fin = None

    def __enter__(self):
        body = self.fnode.body
        for k, st in enumerate(body):
            if isinstance(st, ast.Expr) and isinstance(st.value, ast.Yield):
                r = self.it.block(body[:k], self.env)
                if r is not None:
                    raise AnalysisError("absint: context manager returns before yielding")
                self.post = body[k + 1:]
                return self.it.expr(st.value.value, self.env) if st.value.value is not None else None
            if isinstance(st, ast.Try) and any(isinstance(x, ast.Expr) and isinstance(x.value, ast.Yield) for x in st.body) and not st.handlers:
                r = self.it.block(body[:k], self.env)
                if r is not None:
                    raise AnalysisError("absint: context manager returns before yielding")
                j = next(i for i, x in enumerate(st.body) if isinstance(x, ast.Expr) and isinstance(x.value, ast.Yield))
                self.it.block(st.body[:j], self.env)
                self.post = list(st.body[j + 1:]) + list(st.orelse)
                self.fin = (list(st.finalbody), body[k + 1:])
                y = st.body[j].value.value
                return self.it.expr(y, self.env) if y is not None else None
        raise AnalysisError(f"absint: context manager {self.fnode.name}: the place of its yield is not modelled")

    def __exit__(self, et, ex, tb):
        if et is None:
            self.it.block(self.post or [], self.env)
            if self.fin:
                self.it.block(self.fin[0], self.env)
                self.it.block(self.fin[1], self.env)
        elif self.fin:
            self.it.block(self.fin[0], self.env)
        return False


class _Ret:
    def __init__(self, v):
        self.value = v


class _Brk:
    pass


class _Cont:
    pass


class _Cls:
    def __init__(self, name):
        self.name = name

    def __eq__(self, o):
        return isinstance(o, _Cls) and o.name == self.name

    def __hash__(self):
        return hash(("_Cls", self.name))

    def __repr__(self):
        return f"<class {self.name}>"


def _mutates_name(st, name) -> bool:
    """Does this top-level statement store into / grow the container bound to the module-level `name`?"""
    if isinstance(st, (ast.FunctionDef, ast.AsyncFunctionDef, ast.ClassDef)):
        return False
    for n in ast.walk(st):
        if isinstance(n, (ast.Assign, ast.AugAssign, ast.AnnAssign)):
            tg = n.targets if isinstance(n, ast.Assign) else [n.target]
            for t in tg:
                b = t
                while isinstance(b, ast.Subscript):
                    b = b.value
                if b is not t and isinstance(b, ast.Name) and b.id == name:
                    return True
                if isinstance(n, ast.AugAssign) and isinstance(t, ast.Name) and t.id == name:
                    return True
        if isinstance(n, ast.Call) and isinstance(n.func, ast.Attribute) and isinstance(n.func.value, ast.Name) and n.func.value.id == name \
                and n.func.attr in ("update", "append", "extend", "setdefault", "add", "insert"):
            return True
    return False


# raised kinds that derive from BaseException directly (Python's own, and UFL's ComplexComparisonError)
BASE_ONLY_EXCEPTIONS = {"KeyboardInterrupt", "SystemExit", "GeneratorExit", "ComplexComparisonError"}

_LOCALS_CACHE: dict = {}


def _local_names(fnode) -> frozenset:
    """Names bound by assignment / for / with / import / except-as in the function's own scope (nested functions and comprehensions
    excluded; names declared global / nonlocal excluded)."""
    k = id(fnode)
    if k in _LOCALS_CACHE:
        return _LOCALS_CACHE[k][1]
    out, outer = set(), set()

    def visit(n):
        for c in ast.iter_child_nodes(n):
            if isinstance(c, (ast.FunctionDef, ast.AsyncFunctionDef, ast.ClassDef)):
                out.add(c.name)
                continue
            if isinstance(c, (ast.Lambda, ast.ListComp, ast.SetComp, ast.DictComp, ast.GeneratorExp)):
                continue
            if isinstance(c, (ast.Global, ast.Nonlocal)):
                outer.update(c.names)
            if isinstance(c, ast.Name) and isinstance(c.ctx, ast.Store):
                out.add(c.id)
            if isinstance(c, ast.ExceptHandler) and c.name:
                out.add(c.name)
            if isinstance(c, ast.alias):
                out.add((c.asname or c.name).split(".")[0])
            visit(c)
    for st in fnode.body if isinstance(fnode.body, list) else []:
        visit(ast.Module(body=[st], type_ignores=[]))
    res_ = frozenset(out - outer)
    _LOCALS_CACHE[k] = (fnode, res_)
    return res_


class _TypingLiteral:
    """typing.Literal[...]: a type whose only run-time use is typing.get_args"""

    def __init__(self, args):
        self.args = tuple(args)

    def __repr__(self):
        return f"Literal{list(self.args)}"

    def __eq__(self, o):
        return isinstance(o, _TypingLiteral) and o.args == self.args

    def __hash__(self):
        return hash(self.args)


class _Super:
    def __init__(self, cls, obj):
        self.cls = cls
        self.obj = obj


class _Bound:
    def __init__(self, obj, func):
        self.obj = obj
        self.func = func


class _Lam:
    def __init__(self, node, env):
        self.node = node
        self.env = env


_MISSING = object()


class PyNative:
    """Marker base class: instances are used natively by the interpreter (attributes, subscripts, iteration, str)."""


class _Closure:
    def __init__(self, node, env):
        self.node = node
        self.env = env


class _ModRef:
    def __init__(self, mod):
        self.mod = mod


class _Counter:
    """itertools.count(start, step): an unbounded iterator; next() advances it"""

    def __init__(self, start=0, step=1):
        self.v, self.step = start, step

    def __next__(self):
        v = self.v
        self.v += self.step
        return v

    def __iter__(self):
        return self


class _ImpRef:
    """a library name imported inside a function for which no stand-in was given: only its further attributes can be looked up"""

    def __init__(self, name):
        self.name = name

    def __repr__(self):
        return f"<{self.name}>"


class _Record:
    def __init__(self, name, fields):
        self.name = name
        self.fields = fields


class _EnumCls:
    module = None

    def __init__(self, name):
        self.name = name


class _PyCall:
    def __init__(self, fn):
        self.fn = fn


class _DictMeth:
    def __init__(self, d, name):
        self.d = d
        self.name = name


class _Builtin:
    def __init__(self, name):
        self.name = name


class _ListMeth:
    def __init__(self, lst, name):
        self.lst = lst
        self.name = name
