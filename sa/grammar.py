"""Reference grammars (trusted base): a C17 §6.5 expression parser and a Python expression reader.

Both return canonical trees: ('bin', op, l, r) ('un', op, x) ('cond', c, t, f) ('idx', a, i...)
('call', f, args...) ('sym', name) ('num', text) ('chain', [ops], [operands]) for Python chained
comparisons. Negative numeric literals are canonicalised as ('un','-',('num',..)).
"""

from __future__ import annotations

import ast
import re


class ParseError(Exception):
    pass


# ---- C -----------------------------------------------------------------------------------------

C_TOKEN = re.compile(
    r"\s*(?:(?P<num>(?:\d+\.\d*|\.\d+|\d+)(?:[eE][+-]?\d+)?[fFlLuU]*)|(?P<id>[A-Za-z_]\w*)|"
    r"(?P<op>\+\+|--|->|<<=|>>=|<<|>>|<=|>=|==|!=|&&|\|\||\+=|-=|\*=|/=|%=|&=|\|=|\^=|[-+*/%<>=!~&|^?:,.()\[\]{};]))"
)

# binary operator -> (precedence, right_assoc); higher binds tighter (C17 6.5.5 - 6.5.16)
C_BIN = {
    "*": (13, False), "/": (13, False), "%": (13, False),
    "+": (12, False), "-": (12, False),
    "<<": (11, False), ">>": (11, False),
    "<": (10, False), "<=": (10, False), ">": (10, False), ">=": (10, False),
    "==": (9, False), "!=": (9, False),
    "&": (8, False), "^": (7, False), "|": (6, False),
    "&&": (5, False), "||": (4, False),
}
C_ASSIGN = {"=", "+=", "-=", "*=", "/=", "%=", "&=", "|=", "^=", "<<=", ">>="}
C_KEYWORDS = {
    "auto", "break", "case", "char", "const", "continue", "default", "do", "double", "else", "enum",
    "extern", "float", "for", "goto", "if", "inline", "int", "long", "register", "restrict", "return",
    "short", "signed", "sizeof", "static", "struct", "switch", "typedef", "union", "unsigned", "void",
    "volatile", "while", "_Alignas", "_Alignof", "_Atomic", "_Bool", "_Complex", "_Generic",
    "_Imaginary", "_Noreturn", "_Static_assert", "_Thread_local",
}


def c_tokens(text: str):
    pos = 0
    out = []
    text = text.rstrip()
    while pos < len(text):
        m = C_TOKEN.match(text, pos)
        if not m or m.end() == pos:
            raise ParseError(f"C lexer: cannot tokenise at {text[pos:pos+10]!r}")
        pos = m.end()
        if m.group("num") is not None:
            out.append(("num", m.group("num")))
        elif m.group("id") is not None:
            out.append(("id", m.group("id")))
        else:
            out.append(("op", m.group("op")))
    return out


class CParser:
    def __init__(self, text):
        self.toks = c_tokens(text)
        self.i = 0

    def peek(self):
        return self.toks[self.i] if self.i < len(self.toks) else ("eof", "")

    def next(self):
        t = self.peek()
        self.i += 1
        return t

    def expect(self, v):
        t = self.next()
        if t[1] != v:
            raise ParseError(f"C parser: expected {v!r}, got {t[1]!r}")

    def parse(self):
        e = self.assignment()
        if self.peek()[0] != "eof":
            raise ParseError(f"C parser: trailing tokens from {self.peek()[1]!r}")
        return e

    def assignment(self):
        lhs = self.conditional()
        t = self.peek()
        if t[0] == "op" and t[1] in C_ASSIGN:
            self.next()
            rhs = self.assignment()
            return ("bin", t[1], lhs, rhs)
        return lhs

    def conditional(self):
        c = self.binary(0)
        if self.peek() == ("op", "?"):
            self.next()
            t = self.assignment()  # `expression` (comma not modelled)
            self.expect(":")
            f = self.conditional()
            return ("cond", c, t, f)
        return c

    def binary(self, minprec):
        lhs = self.unary()
        while True:
            t = self.peek()
            if t[0] != "op" or t[1] not in C_BIN:
                return lhs
            prec, _ = C_BIN[t[1]]
            if prec < minprec:
                return lhs
            self.next()
            rhs = self.binary(prec + 1)
            lhs = ("bin", t[1], lhs, rhs)

    def unary(self):
        t = self.peek()
        if t[0] == "op" and t[1] in ("-", "+", "!", "~"):
            self.next()
            return ("un", t[1], self.unary())
        if t[0] == "op" and t[1] in ("--", "++"):
            self.next()
            return ("un", t[1], self.unary())
        return self.postfix()

    def postfix(self):
        e = self.primary()
        while True:
            t = self.peek()
            if t == ("op", "["):
                self.next()
                i = self.assignment()
                self.expect("]")
                e = ("idx", e, i) if e[0] != "idx" else e + (i,)
            elif t == ("op", "("):
                self.next()
                args = []
                if self.peek() != ("op", ")"):
                    args.append(self.assignment())
                    while self.peek() == ("op", ","):
                        self.next()
                        args.append(self.assignment())
                self.expect(")")
                e = ("call", e) + tuple(args)
            elif t[0] == "op" and t[1] in ("++", "--"):
                self.next()
                e = ("post", t[1], e)
            else:
                return e

    def primary(self):
        t = self.next()
        if t[0] == "num":
            return ("num", t[1])
        if t[0] == "id":
            if t[1] in C_KEYWORDS:
                raise ParseError(f"C parser: keyword {t[1]!r} used as identifier")
            return ("sym", t[1])
        if t == ("op", "("):
            e = self.assignment()
            self.expect(")")
            return e
        raise ParseError(f"C parser: unexpected token {t[1]!r}")


def parse_c(text: str):
    return CParser(text).parse()


# ---- Python ------------------------------------------------------------------------------------

PY_BIN = {ast.Add: "+", ast.Sub: "-", ast.Mult: "*", ast.Div: "/", ast.FloorDiv: "//", ast.Mod: "%", ast.Pow: "**", ast.BitAnd: "&", ast.BitOr: "|", ast.BitXor: "^", ast.LShift: "<<", ast.RShift: ">>", ast.MatMult: "@"}
PY_CMP = {ast.Lt: "<", ast.LtE: "<=", ast.Gt: ">", ast.GtE: ">=", ast.Eq: "==", ast.NotEq: "!="}


def parse_py(text: str):
    try:
        tree = ast.parse(text.strip(), mode="eval")
    except SyntaxError as e:
        # maybe a simple statement (assignment / augmented assignment)
        try:
            mod = ast.parse(text.strip(), mode="exec")
        except SyntaxError:
            raise ParseError(f"Python parser: {e.msg}") from e
        if len(mod.body) == 1 and isinstance(mod.body[0], ast.Assign) and len(mod.body[0].targets) == 1:
            st = mod.body[0]
            return ("bin", "=", _py(st.targets[0]), _py(st.value))
        if len(mod.body) == 1 and isinstance(mod.body[0], ast.AugAssign):
            st = mod.body[0]
            return ("bin", PY_BIN[type(st.op)] + "=", _py(st.target), _py(st.value))
        raise ParseError(f"Python parser: {e.msg}") from e
    return _py(tree.body)


def _py(n):
    if isinstance(n, ast.BinOp):
        return ("bin", PY_BIN[type(n.op)], _py(n.left), _py(n.right))
    if isinstance(n, ast.UnaryOp):
        op = {ast.USub: "-", ast.UAdd: "+", ast.Not: "!", ast.Invert: "~"}[type(n.op)]
        return ("un", op, _py(n.operand))
    if isinstance(n, ast.BoolOp):
        op = "&&" if isinstance(n.op, ast.And) else "||"
        out = _py(n.values[0])
        for v in n.values[1:]:
            out = ("bin", op, out, _py(v))
        return out
    if isinstance(n, ast.Compare):
        if len(n.ops) == 1:
            return ("bin", PY_CMP[type(n.ops[0])], _py(n.left), _py(n.comparators[0]))
        return ("chain", tuple(PY_CMP[type(o)] for o in n.ops), tuple(_py(x) for x in [n.left] + n.comparators))
    if isinstance(n, ast.IfExp):
        return ("cond", _py(n.test), _py(n.body), _py(n.orelse))
    if isinstance(n, ast.Subscript):
        base = _py(n.value)
        idx = n.slice.elts if isinstance(n.slice, ast.Tuple) else [n.slice]
        return ("idx", base) + tuple(_py(i) for i in idx)
    if isinstance(n, ast.Call):
        return ("call", _py(n.func)) + tuple(_py(a) for a in n.args)
    if isinstance(n, ast.Attribute):
        return ("sym", ast.unparse(n))
    if isinstance(n, ast.Name):
        return ("sym", n.id)
    if isinstance(n, ast.Constant):
        return ("num", repr(n.value))
    raise ParseError(f"Python reader: unsupported node {type(n).__name__}")


def _num(text):
    t = text.rstrip("fFlLuU") if not text.endswith("j") else text
    try:
        return complex(int(t, 0)) if re.fullmatch(r"[-+]?\d+", t) else complex(t.replace(" ", ""))
    except ValueError:
        try:
            return complex(float(t))
        except ValueError:
            raise ParseError(f"not a number: {text!r}")


def canon(t):
    """Canonical form: numeric leaves become complex values and constant subtrees are folded
    (so `-2.5`, `(0.0+I*2.0)` and `2j` are single numbers); `I` is the imaginary unit."""
    if not isinstance(t, tuple):
        return t
    if t[0] == "num":
        return ("num", t[1] if isinstance(t[1], complex) else _num(str(t[1])))
    if t[0] == "sym" and t[1] in ("I", "_Complex_I"):
        return ("num", 1j)
    t = tuple(canon(x) if isinstance(x, tuple) else x for x in t)
    if t[0] == "un" and t[1] in ("-", "+") and t[2][0] == "num":
        return ("num", -t[2][1] if t[1] == "-" else t[2][1])
    if t[0] == "bin" and t[1] in ("+", "-", "*", "/") and t[2][0] == "num" and t[3][0] == "num":
        a, b = t[2][1], t[3][1]
        if t[1] == "/" and b == 0:
            return t
        return ("num", {"+": a + b, "-": a - b, "*": a * b, "/": a / b if b != 0 else 0}[t[1]])
    return t
