"""Sample environments for interpreting slices of ffcx.ir.representation (shared by PREFIX-OFFSETS, EXPR-COEF-POS)."""

from __future__ import annotations

from ..absint import Interp, Node, _PyCall
from ..lnodes_model import load_classes
from ..model import AnalysisError

REP = "ffcx.ir.representation"


class IRSamples:
    def __init__(self, repo):
        self.repo = repo
        self.elA, self.elB, self.elC = Node("Element", name="elA", dim=6), Node("Element", name="elB", dim=3), Node("Element", name="elC", dim=4)
        self.coef = {n: Node("Coefficient", name=n, ufl_element=_PyCall(lambda e_=e: e_)) for n, e in (("A", self.elA), ("B", self.elB), ("C", self.elC))}
        self.consts = [Node("Constant", name="k0", ufl_shape=()), Node("Constant", name="k1", ufl_shape=(2, 3)), Node("Constant", name="k2", ufl_shape=(2,))]

    def interp(self):
        def prod(shape, dtype=None):
            out = 1
            for v in shape:
                out *= v
            return out

        it = Interp(self.repo, load_classes(self.repo), primary=REP)
        it.overrides["np.prod"] = _PyCall(prod)
        it.overrides["typing.cast"] = _PyCall(lambda t, v: v)
        it.overrides["supported_integral_types"] = "supported_integral_types"
        it.overrides["logger"] = Node("Logger", info=_PyCall(lambda *a: None), debug=_PyCall(lambda *a: None))
        it.overrides["id"] = _PyCall(lambda o: id(o))
        return it

    def integral_env(self, itype, coefs=("B", "C"), enabled=(True, False, True)):
        form_data = Node("FormData", reduced_coefficients=[self.coef[n] for n in coefs], coefficient_elements=[self.coef[n].f["ufl_element"].fn() for n in coefs],
                         original_form=Node("Form", constants=_PyCall(lambda: list(self.consts)), coefficients=_PyCall(lambda: [self.coef[n] for n in ("A", "B", "C")])),
                         # preprocessing dropped constant k0 (and, unless asked otherwise, coefficient A)
                         preprocessed_form=Node("Form", constants=_PyCall(lambda: list(self.consts[1:])), coefficients=_PyCall(lambda: [self.coef[n] for n in coefs])),
                         original_coefficient_positions=[("A", "B", "C").index(n) for n in coefs], rank=2)
        itg = Node("IntegralData", integral_type=itype, enabled_coefficients=list(enabled), subdomain_id=(1,))
        # the form has integrals of other types too (a cell, an interior-facet and a vertex group next to the one being processed)
        others = [Node("IntegralData", integral_type=t_, enabled_coefficients=list(enabled), subdomain_id=(2,)) for t_ in ("cell", "interior_facet", "vertex")]
        form_data.f["integral_data"] = [others[0], itg, others[1], others[2]]
        return {"form_data": form_data, "form_index": 0, "unique_elements": [self.elA, self.elB, self.elC], "integral_names": {}, "options": {},
                "visualise": False, "itg_data": itg, "itg_data_index": 1, "expression_ir": {}, "ir": {}}

    def expression(self, g, object_names=None):
        """(interpreter, environment) for _compute_expression_ir: processed expression keeps coefficients [B, C] of the original
        [A, B, C] and constants [k1, k2] of the original [k0, k1, k2]."""
        processed, original = Node("UflExpr", name="processed", ufl_shape=()), Node("UflExpr", name="original", ufl_shape=())

        def which(x, fn):
            nm = x.f.get("name") if isinstance(x, Node) else None
            if nm not in ("processed", "original"):
                raise AnalysisError(f"{fn} applied to something else than the processed / original expression")
            return nm

        def extract_coefficients(x):
            return [self.coef["B"], self.coef["C"]] if which(x, "extract_coefficients") == "processed" else [self.coef["A"], self.coef["B"], self.coef["C"]]

        def extract_constants(x):
            return list(self.consts[1:]) if which(x, "extract_constants") == "processed" else list(self.consts)

        it = self.interp()
        for pre in ("ufl.algorithms.", "ufl.algorithms.analysis.", ""):
            it.overrides[pre + "extract_coefficients"] = _PyCall(extract_coefficients)
            it.overrides[pre + "extract_constants"] = _PyCall(extract_constants)
            it.overrides[pre + "extract_arguments"] = _PyCall(lambda x: [])
        env = {g.params[0]: (processed, Node("ndarray", shape=(1, 2), size=2), original), "index": 0, "prefix": "p", "options": {}, "visualise": False,
               "object_names": dict(object_names or {}), "analysis": Node("UFLData", unique_elements=[self.elA, self.elB, self.elC]), "ir": {}, "base_ir": {}}
        return it, env


def named(d):
    return sorted((k.f.get("name"), v) for k, v in d.items()) if isinstance(d, dict) else d
