"""C14 / C15: JIT cache protocol as typestate over the CFGs of ffcx/codegeneration/jit.py.

LOCK-PROTO   clauses 1-5 of DESIGN §4.2
FAIL-RELEASE lock renamed to .failed and exception re-raised on every failing path before the
             build completed
RESTORE-PAIR process-global state swapped in a function is restored on every path to every exit
"""

from __future__ import annotations

import ast

from ..cfg import CFG
from ..flow import Slicer
from ..model import AnalysisError, call_name, calls_in, dotted, walk_no_nested
from ..registry import rule

JIT = "ffcx.codegeneration.jit"
WRITE_MODES = set("wxa+")
# Calls treated as non-raising when building the jit CFGs (path arithmetic, logging, clocks): stated
# assumption, listed in the evidence.
PURE = frozenset({"joinpath", "with_suffix", "Path", "str", "info", "debug", "warning", "time", "StringIO"})


def _open_calls(fnode):
    """(call, mode) for builtin open()/Path.open() calls with a constant mode."""
    for c in calls_in(fnode):
        nm = call_name(c) or ""
        if nm == "open" or nm.endswith(".open"):
            mode = None
            args = c.args[1:] if nm == "open" else c.args
            if args and isinstance(args[0], ast.Constant):
                mode = args[0].value
            for k in c.keywords:
                if k.arg == "mode" and isinstance(k.value, ast.Constant):
                    mode = k.value.value
            if mode is None:
                mode = "r"
            path = c.args[0] if nm == "open" and c.args else (c.func.value if isinstance(c.func, ast.Attribute) else None)
            yield c, str(mode), path


def _node_of(cfg: CFG, target: ast.AST, what: str):
    ns = cfg.stmt_nodes_containing(target)
    if not ns:
        raise AnalysisError(f"cannot locate CFG node for {what}")
    return ns[0]


def _nodes_of(cfg: CFG, target: ast.AST, what: str) -> set[int]:
    """All CFG nodes for a statement (finally bodies are duplicated per continuation)."""
    ns = cfg.stmt_nodes_containing(target)
    if not ns:
        raise AnalysisError(f"cannot locate CFG node for {what}")
    return {n.id for n in ns}


def _calls_named(fnode, suffixes):
    out = []
    for c in calls_in(fnode):
        nm = call_name(c) or ""
        if any(nm == s or nm.endswith("." + s) for s in suffixes):
            out.append(c)
    return out


def _protocol_func(m, f):
    """The function that carries the cache protocol of entry point `f`: `f` itself when it calls get_cached_module and _compile_objects,
    otherwise the one module-level helper it calls that does (both entry points delegating to a shared helper)."""
    def has_both(fn):
        return bool(_calls_named(fn.node, ["get_cached_module"])) and bool(_calls_named(fn.node, ["_compile_objects"]))
    if has_both(f):
        return f
    cands = []
    for c in calls_in(f.node):
        h = m.funcs.get(call_name(c) or "")
        if h is not None and h is not f and has_both(h) and h not in cands:
            cands.append(h)
    if len(cands) == 1:
        return cands[0]
    return f


def _is_lock_path(sl: Slicer, expr) -> bool:
    """expr derives from a module-name based path ending in '.c' (and not '.c.cached'/.failed)."""
    consts = {c for c in sl.constants(expr) if isinstance(c, str)}
    direct = {n.value for n in ast.walk(expr) if isinstance(n, ast.Constant) and isinstance(n.value, str)}
    if any(("cached" in c or "failed" in c) for c in direct):
        return False
    return ".c" in consts and "module_name" in sl.names(expr)


def _is_marker_path(sl: Slicer, expr) -> bool:
    return any(isinstance(c, str) and c.endswith(".cached") for c in sl.constants(expr))


@rule(
    "LOCK-PROTO",
    ["C14", "C15"],
    "cache typestate on each process's own CFG: (1) one exclusive-create ('x') lock site, 'you "
    "build' returned only after it succeeded; (2) ready marker created only after ffibuilder.compile "
    "returned normally, one marker writer in the package; (3) module import only under "
    "exists(marker)==True, bounded wait ending in raise; (4) cached path returns without reaching "
    "_compile_objects; (5) compile_forms and compile_expressions both follow the protocol",
    min_instances=12,
)
def lock_proto(repo, res):
    m = repo.mod(JIT)
    gcm = m.func("get_cached_module")
    res.functions.add(gcm.key)
    cfg = CFG(gcm.node)
    sl = Slicer(gcm.node)

    # ---- clause 1: exclusive lock -----------------------------------------------------------
    opens = list(_open_calls(gcm.node))
    lock_opens = [(c, mode, p) for c, mode, p in opens if p is not None and _is_lock_path(sl, p)]
    key = f"{gcm.key}:lock-open"
    res.ob(key)
    # other ways of creating the lock file (non-atomic test-then-create idioms)
    other_creates = []
    for c in calls_in(gcm.node):
        nm = call_name(c) or ""
        last = nm.split(".")[-1]
        if last in ("touch", "write_text", "write_bytes", "mkfifo", "mknod") and isinstance(c.func, ast.Attribute) \
                and _is_lock_path(sl, c.func.value):
            excl = last == "touch" and any(k.arg == "exist_ok" and isinstance(k.value, ast.Constant) and k.value.value is False for k in c.keywords)
            other_creates.append((c, last, excl))
        if nm == "os.open" and c.args and _is_lock_path(sl, c.args[0]):
            excl = "O_EXCL" in ast.unparse(c)
            other_creates.append((c, "os.open", excl))
    if not lock_opens:
        lock_path_known = any(_is_lock_path(sl, v) for vals in sl.defs.values() for v in vals)
        excl_other = [c for c, _n, ex in other_creates if ex]
        if other_creates and not excl_other:
            c, nmx, _ = other_creates[0]
            res.fail(key, f"the lock file is created with {nmx}() instead of an exclusive create: two requests "
                     "that both find it missing both become the builder", m.line(c))
            res.fail(f"{gcm.key}:lock-mode", "no atomic exclusive-create of '<module>.c'", m.line(c))
            return
        if lock_path_known and not other_creates:
            res.fail(key, "get_cached_module never creates the '<module>.c' lock file exclusively", m.line(gcm.node))
            return
        if excl_other:
            raise AnalysisError("LOCK-PROTO: lock taken by an exclusive idiom this rule does not model; extend the rule")
        raise AnalysisError("LOCK-PROTO: no '<module>.c' lock path recognisable in get_cached_module")
    if len(lock_opens) != 1:
        res.fail(key, f"{len(lock_opens)} opens of the lock file, expected exactly one", m.line(gcm.node))
    for c, nmx, ex in other_creates:
        if not ex:
            res.fail(key, f"lock file also created by non-exclusive {nmx}()", m.line(c))
    lock_call, mode, _ = lock_opens[0]
    res.ob(f"{gcm.key}:lock-mode")
    if "x" not in mode:
        res.fail(
            f"{gcm.key}:lock-mode",
            f"lock file opened with mode {mode!r}: not an exclusive create, two processes can both "
            "believe they own the build",
            m.line(lock_call),
        )
    lock_node = _node_of(cfg, lock_call, "lock open")
    # any other write-mode open in the function?
    for c, md, p in opens:
        if c is not lock_call and set(md) & WRITE_MODES:
            res.fail(f"{gcm.key}:extra-write", f"unexpected write-mode open({md!r}) in get_cached_module", m.line(c))

    # classify returns
    build_returns, load_returns = [], []
    for rid in cfg.return_nodes:
        r = cfg.nodes[rid].ast
        v = r.value
        first = v.elts[0] if isinstance(v, ast.Tuple) and v.elts else v
        if v is None or (isinstance(first, ast.Constant) and first.value is None):
            build_returns.append(rid)
        else:
            load_returns.append(rid)
    if not build_returns or not load_returns:
        raise AnalysisError("LOCK-PROTO: cannot classify returns of get_cached_module")
    for rid in build_returns:
        k = f"{gcm.key}:build-return-after-lock"
        res.ob(k)
        if not cfg.dominates(lock_node.id, rid):
            p = cfg.path(cfg.entry.id, rid, blocked={lock_node.id})
            res.fail(k, "'caller must build' is returned on a path that did not create the lock file",
                     m.line(cfg.nodes[rid].ast), cfg.describe_path(p) if p else "")
        # and not via the exceptional edge of the open (i.e. open failed)
        exc_succ = [y for y, kd in cfg.succ[lock_node.id] if kd == "e"]
        for y in exc_succ:
            if rid in cfg.reachable(y):
                res.fail(k, "'caller must build' is returned although the exclusive create failed",
                         m.line(cfg.nodes[rid].ast))
    res.ob(f"{gcm.key}:no-fallthrough")
    if cfg.fallthrough_preds:
        res.fail(f"{gcm.key}:no-fallthrough", "get_cached_module can fall off its end (returns None: "
                 "caller's tuple unpacking fails or build is skipped)", m.line(gcm.node))

    # ---- clause 3: load only after marker; bounded wait ending in raise -------------------------
    exists_tests = []

    def is_marker_exists(c):
        nm = call_name(c) or ""
        if not (nm.endswith("exists") or nm.endswith("is_file")):
            return False
        arg = c.args[0] if c.args else (c.func.value if isinstance(c.func, ast.Attribute) else None)
        return arg is not None and _is_marker_path(sl, arg)

    def implied(test, positive=True):
        """Does `test` being true (positive) / false imply that the marker exists?"""
        if isinstance(test, ast.Call):
            return positive and is_marker_exists(test)
        if isinstance(test, ast.UnaryOp) and isinstance(test.op, ast.Not):
            return implied(test.operand, not positive)
        if isinstance(test, ast.BoolOp):
            if isinstance(test.op, ast.And) and positive:
                return any(implied(v, True) for v in test.values)
            if isinstance(test.op, ast.Or) and not positive:
                return any(implied(v, False) for v in test.values)
        return False

    mentions = 0
    true_entries = set()
    for n in cfg.nodes:
        if n.kind == "test" and n.ast is not None and n.label != "for-head" and n.id in cfg.if_stmt:
            if any(is_marker_exists(c) for c in calls_in(n.ast)):
                mentions += 1
                exists_tests.append(n)
                if implied(n.ast, True):
                    true_entries |= cfg.if_true.get(n.id, set())
                if implied(n.ast, False):
                    true_entries |= cfg.if_false.get(n.id, set())
    if not mentions:
        raise AnalysisError("LOCK-PROTO: no exists(<ready marker>) test in get_cached_module")
    loaders = _calls_named(gcm.node, ["module_from_spec", "exec_module", "import_module", "getattr"])
    for c in loaders:
        nm = call_name(c)
        if nm == "getattr" and "lib" not in ast.unparse(c):
            continue
        n = _node_of(cfg, c, "loader call")
        k = f"{gcm.key}:load-after-marker:{nm}"
        res.ob(k)
        if n.id in cfg.reachable(cfg.entry.id, blocked=true_entries):
            p = cfg.path(cfg.entry.id, n.id, blocked=true_entries)
            res.fail(k, f"{nm}() reachable without the ready marker having been seen: a waiter can "
                     "import a partially built module", m.line(c), cfg.describe_path(p) if p else "")
    for rid in load_returns:
        k = f"{gcm.key}:load-return-after-marker"
        res.ob(k)
        if rid in cfg.reachable(cfg.entry.id, blocked=true_entries):
            res.fail(k, "compiled objects returned on a path that never saw the ready marker",
                     m.line(cfg.nodes[rid].ast))
    # bounded wait
    loops = [n for n in walk_no_nested(gcm.node) if isinstance(n, (ast.For, ast.While))]
    wait_loops = [lp for lp in loops if any(t.ast is x for t in exists_tests for x in ast.walk(lp))]
    k = f"{gcm.key}:bounded-wait"
    res.ob(k)
    if not wait_loops:
        res.fail(k, "the marker test is not inside a polling loop", m.line(gcm.node))
    raise_stmts = {n.id for n in cfg.nodes if isinstance(n.ast, ast.Raise)}
    for lp in wait_loops:
        if isinstance(lp, ast.While) and isinstance(lp.test, ast.Constant) and lp.test.value:
            inner = {n.id for n in cfg.nodes if isinstance(n.ast, ast.Raise) and any(n.ast is x for x in ast.walk(lp))}
            live = inner & cfg.reachable(cfg.entry.id, blocked=true_entries)
            if not live:
                res.fail(k, "unbounded `while True` wait for the ready marker: a killed builder makes "
                         "every later request hang instead of raising within the timeout", m.line(lp))
        if isinstance(lp, ast.For):
            it = ast.unparse(lp.iter)
            if "timeout" not in sl.names(lp.iter):
                res.fail(k, f"wait loop bound `{it}` does not derive from the `timeout` argument", m.line(lp))
    # the total wait is at least the requested timeout: iterations x sleep, evaluated for sample timeouts
    k = f"{gcm.key}:wait-duration"
    res.ob(k)
    for lp in wait_loops:
        if not isinstance(lp, ast.For) or not (isinstance(lp.iter, ast.Call) and call_name(lp.iter) == "range"):
            continue
        sleeps = [c for c in calls_in(lp) if (call_name(c) or "").endswith("sleep") and c.args]
        if len(sleeps) != 1:
            res.fail(k, "the polling loop does not sleep exactly once per iteration", m.line(lp))
            continue

        def num(e, env):
            if isinstance(e, ast.Constant) and isinstance(e.value, (int, float)):
                return e.value
            if isinstance(e, ast.Name) and e.id in env:
                return env[e.id]
            if isinstance(e, ast.UnaryOp) and isinstance(e.op, ast.USub):
                return -num(e.operand, env)
            if isinstance(e, ast.BinOp):
                a, b = num(e.left, env), num(e.right, env)
                if isinstance(e.op, ast.Mult):
                    return a * b
                if isinstance(e.op, ast.Div):
                    return a / b
                if isinstance(e.op, ast.FloorDiv):
                    return a // b
                if isinstance(e.op, ast.Add):
                    return a + b
                if isinstance(e.op, ast.Sub):
                    return a - b
                if isinstance(e.op, ast.Pow):
                    return a ** b
            if isinstance(e, ast.Call) and call_name(e) in ("int", "round", "math.ceil", "ceil", "float") and e.args:
                import math

                v = num(e.args[0], env)
                return {"int": int, "round": round, "math.ceil": math.ceil, "ceil": math.ceil, "float": float}[call_name(e)](v)
            if isinstance(e, ast.Call) and call_name(e) in ("max", "min") and e.args:
                vals = [num(a, env) for a in e.args]
                return max(vals) if call_name(e) == "max" else min(vals)
            raise AnalysisError(f"get_cached_module: cannot evaluate `{ast.unparse(e)}` in the wait loop")

        rargs = lp.iter.args
        # numeric locals assigned before the loop (e.g. an initial back-off delay)
        pre = {}
        for st in ast.walk(gcm.node):
            if isinstance(st, ast.Assign) and len(st.targets) == 1 and isinstance(st.targets[0], ast.Name) and st.lineno < lp.lineno \
                    and isinstance(st.value, ast.Constant) and isinstance(st.value.value, (int, float)) and not isinstance(st.value.value, bool):
                pre[st.targets[0].id] = st.value.value
        for t in (10, 30, 7, 3):
            env = dict(pre)
            env["timeout"] = t
            n_it = num(rargs[0], env) if len(rargs) == 1 else (num(rargs[1], env) - num(rargs[0], env))
            total = 0.0
            for it_ in range(int(n_it)):
                if isinstance(lp.target, ast.Name):
                    env[lp.target.id] = it_
                for st in ast.walk(lp):
                    if isinstance(st, ast.Expr) and st.value is sleeps[0] or (isinstance(st, ast.Expr) and any(x is sleeps[0] for x in ast.walk(st))):
                        total += num(sleeps[0].args[0], env)
                    elif isinstance(st, ast.Assign) and len(st.targets) == 1 and isinstance(st.targets[0], ast.Name) and st.targets[0].id in env \
                            and st.targets[0].id != "timeout":
                        try:
                            env[st.targets[0].id] = num(st.value, env)
                        except AnalysisError:
                            pass
                    elif isinstance(st, ast.AugAssign) and isinstance(st.target, ast.Name) and st.target.id in env:
                        env[st.target.id] = num(ast.BinOp(left=ast.Name(id=st.target.id, ctx=ast.Load()), op=st.op, right=st.value), env)
            if total < t * 0.99:
                res.fail(k, f"with timeout={t} the waiter polls {n_it} times and sleeps {total:g} s in total: it gives up before the requested timeout - "
                         "a second request raises TimeoutError while the first is still compiling within its budget", m.line(sleeps[0]), props=("C14",))
                break
            if total > t * 1.25 + 1:
                res.fail(k, f"with timeout={t} the waiter sleeps {total:g} s in total before raising: a request that finds the stale lock of a killed builder "
                         "does not raise within the timeout", m.line(sleeps[0]), props=("C15", "C14"))
                break
    # when the marker never appears the function must end in an explicit raise
    k = f"{gcm.key}:timeout-raises"
    res.ob(k)
    no_marker = cfg.reachable(cfg.entry.id, blocked=true_entries | {lock_node.id}) | set()
    handler_side = set()
    for y, kd in cfg.succ[lock_node.id]:
        if kd == "e":
            handler_side |= cfg.reachable(y, blocked=true_entries)
    if not (raise_stmts & handler_side):
        res.fail(k, "no explicit raise on the path where the lock exists but the marker never appears", m.line(gcm.node))

    # ---- clause 2: marker after build (in _compile_objects) -----------------------------------
    co = m.func("_compile_objects")
    res.functions.add(co.key)
    ccfg = CFG(co.node)
    csl = Slicer(co.node)
    marker_writes = []
    for c, md, p in _open_calls(co.node):
        if p is not None and _is_marker_path(csl, p) and set(md) & WRITE_MODES:
            marker_writes.append((c, md))
    for c in calls_in(co.node):
        nm = call_name(c) or ""
        if nm.split(".")[-1] in ("touch", "write_text", "write_bytes") and isinstance(c.func, ast.Attribute):
            if _is_marker_path(csl, c.func.value):
                marker_writes.append((c, "touch"))
    if not marker_writes:
        raise AnalysisError("LOCK-PROTO: no ready-marker creation found in _compile_objects")
    compiles = [c for c in calls_in(co.node) if (call_name(c) or "").endswith(".compile")
                and "FFI" in csl.text(c.func.value if isinstance(c.func, ast.Attribute) else c.func)]
    if not compiles:
        # the compiler may be run by a helper: a call of a function of this module that receives the FFI object and calls its .compile on every path to
        # its normal return stands for the compile (the call fails when the helper does)
        for c in calls_in(co.node):
            g_ = m.funcs.get(call_name(c) or "")
            if g_ is None or g_.key == co.key:
                continue
            ffi_args = [i_ for i_, a_ in enumerate(c.args) if "FFI" in csl.text(a_)]
            if not ffi_args:
                continue
            prm = g_.params[ffi_args[0]] if ffi_args[0] < len(g_.params) else None
            inner = [x for x in calls_in(g_.node) if (call_name(x) or "") == f"{prm}.compile"]
            if len(inner) != 1:
                continue
            gcfg = CFG(g_.node)
            inode = _node_of(gcfg, inner[0], "ffibuilder.compile in helper")
            if gcfg.exit.id in gcfg.reachable(gcfg.entry.id, blocked={inode.id}, kinds=("n",)):
                continue   # the helper can return normally without having compiled
            res.functions.add(g_.key)
            compiles.append(c)
    if len(compiles) != 1:
        raise AnalysisError(f"LOCK-PROTO: expected one ffibuilder.compile call, found {len(compiles)}")
    comp_node = _node_of(ccfg, compiles[0], "ffibuilder.compile")
    for c, md in marker_writes:
        mk = _node_of(ccfg, c, "marker write")
        k = f"{co.key}:marker-after-compile"
        res.ob(k)
        if not ccfg.dominates(comp_node.id, mk.id):
            p = ccfg.path(ccfg.entry.id, mk.id, blocked={comp_node.id})
            res.fail(k, "ready marker can be created on a path that never ran ffibuilder.compile",
                     m.line(c), ccfg.describe_path(p) if p else "")
        k2 = f"{co.key}:marker-not-after-failed-compile"
        res.ob(k2)
        for y, kd in ccfg.succ[comp_node.id]:
            if kd == "e" and mk.id in ccfg.reachable(y):
                res.fail(k2, "ready marker reachable from the *exceptional* exit of ffibuilder.compile "
                         "(a failed build would be published as complete)", m.line(c))
        # the compile must not be re-entered after the marker (marker is the last fs step)
        k3 = f"{co.key}:marker-mode"
        res.ob(k3)
        if md != "touch" and "x" not in md and "w" not in md:
            res.fail(k3, f"marker opened with mode {md!r}", m.line(c))
    # who-may-write the marker: package-wide
    for mod in repo.modules.values():
        for f in mod.funcs.values():
            src_consts = [n.value for n in walk_no_nested(f.node) if isinstance(n, ast.Constant) and isinstance(n.value, str)]
            if not any(s.endswith(".cached") for s in src_consts):
                continue
            k = f"{f.key}:marker-writer"
            res.ob(k)
            if f.key == co.key:
                continue
            fs = Slicer(f.node)
            for c, md, p in _open_calls(f.node):
                if p is not None and _is_marker_path(fs, p) and set(md) & WRITE_MODES:
                    res.fail(k, "ready marker written outside _compile_objects", mod.line(c))
            for c in calls_in(f.node):
                nm = (call_name(c) or "").split(".")[-1]
                if nm in ("touch", "write_text", "rename", "replace", "copy", "copyfile", "move"):
                    if any(_is_marker_path(fs, a) for a in list(c.args) + ([c.func.value] if isinstance(c.func, ast.Attribute) else [])):
                        res.fail(k, f"ready marker created/moved by {nm}() outside _compile_objects", mod.line(c))

    # ---- clauses 4/5: callers ---------------------------------------------------------------
    for fname in ("compile_forms", "compile_expressions"):
        f = m.func(fname)
        res.functions.add(f.key)
        f = _protocol_func(m, f)
        res.functions.add(f.key)
        fcfg = CFG(f.node)
        gcalls = _calls_named(f.node, ["get_cached_module"])
        bcalls = _calls_named(f.node, ["_compile_objects"])
        lcalls = _calls_named(f.node, ["_load_objects"])
        if len(gcalls) != 1 or len(bcalls) != 1:
            raise AnalysisError(f"LOCK-PROTO: {fname}: expected one get_cached_module and one _compile_objects call")
        g = _node_of(fcfg, gcalls[0], "get_cached_module call")
        b = _node_of(fcfg, bcalls[0], "_compile_objects call")
        # result variable of get_cached_module
        gstmt = g.ast
        objvar = None
        if isinstance(gstmt, ast.Assign) and isinstance(gstmt.targets[0], ast.Tuple):
            objvar = gstmt.targets[0].elts[0].id
        elif isinstance(gstmt, ast.Assign) and isinstance(gstmt.targets[0], ast.Name):
            objvar = gstmt.targets[0].id
        if objvar is None:
            raise AnalysisError(f"LOCK-PROTO: {fname}: cannot find the variable holding get_cached_module's result")
        # test `objvar is not None` (or `objvar is None`) after the call
        guard = None
        for tid, st in fcfg.if_stmt.items():
            t = st.test
            if isinstance(t, ast.Compare) and len(t.ops) == 1 and isinstance(t.comparators[0], ast.Constant) \
                    and t.comparators[0].value is None and objvar in {n.id for n in ast.walk(t.left) if isinstance(n, ast.Name)}:
                if tid in fcfg.reachable(g.id):
                    guard = (tid, st, isinstance(t.ops[0], ast.IsNot))
        k = f"{f.key}:cached-path-returns"
        res.ob(k)
        if guard is None:
            res.fail(k, f"no `{objvar} is [not] None` guard after get_cached_module: cached objects are "
                     "ignored and the module is rebuilt", m.line(gstmt))
        else:
            tid, st, positive = guard
            cached_entry = fcfg.if_true[tid] if positive else fcfg.if_false[tid]
            # every path through the cached branch must reach exit without the build
            reach = set()
            for e in cached_entry:
                reach |= fcfg.reachable(e, kinds=("n",))
            if not cached_entry or b.id in reach or fcfg.exit.id not in reach:
                res.fail(k, "the branch taken when the cache returned objects can reach _compile_objects "
                         "(or never returns): a cached module is rebuilt", m.line(st))
            k2 = f"{f.key}:build-only-when-lock-owned"
            res.ob(k2)
            if not fcfg.must_pass(g.id, b.id, {tid}):
                res.fail(k2, "_compile_objects reachable from get_cached_module without testing its result", m.line(bcalls[0]))
        # loading only after a normally completed build
        for lc in lcalls:
            ln = _node_of(fcfg, lc, "_load_objects call")
            k3 = f"{f.key}:load-after-build"
            res.ob(k3)
            if not fcfg.dominates(b.id, ln.id):
                res.fail(k3, "_load_objects reachable without _compile_objects", m.line(lc))
            for y, kd in fcfg.succ[b.id]:
                if kd == "e" and ln.id in fcfg.reachable(y):
                    res.fail(k3, "_load_objects reachable after a *failed* _compile_objects", m.line(lc))
        # the lock is only taken when a shared cache_dir is used; otherwise a private mkdtemp dir
        k4 = f"{f.key}:private-dir-without-lock"
        res.ob(k4)
        blocked = {g.id}
        if b.id in fcfg.reachable(fcfg.entry.id, blocked=blocked):
            # path to build that skips get_cached_module: must pass through a tempfile.mkdtemp
            mk = [_node_of(fcfg, c, "mkdtemp") for c in _calls_named(f.node, ["mkdtemp", "TemporaryDirectory"])]
            if not mk or b.id in fcfg.reachable(fcfg.entry.id, blocked=blocked | {x.id for x in mk}):
                res.fail(k4, "build reachable without the lock and without a private temporary directory", m.line(bcalls[0]))


@rule(
    "FAIL-RELEASE",
    ["C15"],
    "from the point the lock may be owned until _compile_objects completed normally, every path to "
    "the exceptional exit passes a rename of '<module>.c' to '.c.failed', and no handler lets the "
    "failure reach a normal return",
    min_instances=6,
)
def fail_release(repo, res):
    m = repo.mod(JIT)
    for fname in ("compile_forms", "compile_expressions"):
        f = m.func(fname)
        res.functions.add(f.key)
        f = _protocol_func(m, f)
        res.functions.add(f.key)
        cfg = CFG(f.node, PURE)
        sl = Slicer(f.node)
        if not _calls_named(f.node, ["get_cached_module"]) or not _calls_named(f.node, ["_compile_objects"]):
            raise AnalysisError(f"FAIL-RELEASE: {fname}: no function calling both get_cached_module and _compile_objects found")
        g = _node_of(cfg, _calls_named(f.node, ["get_cached_module"])[0], "get_cached_module")
        b = _node_of(cfg, _calls_named(f.node, ["_compile_objects"])[0], "_compile_objects")
        renames = []
        for c in calls_in(f.node):
            nm = call_name(c) or ""
            last = nm.split(".")[-1]
            if last in ("replace", "rename", "move"):
                args = list(c.args)
                if isinstance(c.func, ast.Attribute) and not nm.startswith(("os.", "shutil.")):
                    args = [c.func.value] + args
                if len(args) >= 2:
                    src, dst = args[0], args[1]
                    dst_ok = any(isinstance(x, str) and x.endswith(".failed") for x in sl.constants(dst))
                    src_ok = _is_lock_path(sl, src)
                    k = f"{f.key}:rename-args"
                    res.ob(k)
                    if dst_ok and src_ok:
                        renames.extend(cfg.stmt_nodes_containing(c))
                    elif dst_ok or src_ok:
                        res.fail(k, f"rename `{ast.unparse(c)[:80]}` does not move '<module>.c' to "
                                 "'<module>.c.failed' (source or target wrong): lock stays in place",
                                 m.line(c))
        # wrappers: a call to a helper all of whose normal paths perform the rename counts as the rename (Min et al.)
        for c in calls_in(f.node):
            h = m.funcs.get(call_name(c) or "")
            if h is None or h is f:
                continue
            if _helper_releases(h, c, sl):
                res.functions.add(h.key)
                renames.extend(cfg.stmt_nodes_containing(c))
        k = f"{f.key}:release-on-failure"
        res.ob(k)
        if not renames:
            res.fail(k, "no rename of the lock file to .failed on the failure path: the next request "
                     "waits for the timeout instead of rebuilding", m.line(f.node))
            continue
        rn = {r.id for r in renames}
        # Region: nodes reachable from g's normal successors without crossing b's *normal* out-edges.
        starts = [y for y, kd in cfg.succ[g.id] if kd == "n"]
        seen = set()
        todo = list(starts)
        bad_path = None
        while todo:
            x = todo.pop()
            if x in seen or x in rn:
                continue
            seen.add(x)
            for y, kd in cfg.succ[x]:
                if x == b.id and kd == "n":
                    continue  # build finished: marker exists, lock no longer pending
                todo.append(y)
        if cfg.raise_exit.id in seen:
            # find a witness
            p = None
            for s0 in starts:
                p = _path_avoiding(cfg, s0, cfg.raise_exit.id, rn, b.id)
                if p:
                    break
            # do not blame statements that cannot own the lock yet: cached-return branch is fine,
            # only report if the witness goes through a statement that may raise
            res.fail(k, "an exception between taking the lock and the end of the build can leave "
                     f"{fname} without renaming '<module>.c' to '.c.failed'", m.line(f.node),
                     cfg.describe_path(p) if p else "")
        # no swallowing: a failing build must not reach a normal return
        k2 = f"{f.key}:failure-propagates"
        res.ob(k2)
        for y, kd in cfg.succ[b.id]:
            if kd == "e" and cfg.exit.id in cfg.reachable(y):
                p = cfg.path(y, cfg.exit.id)
                res.fail(k2, "a failed _compile_objects can reach a normal return (exception swallowed)",
                         m.line(b.ast), cfg.describe_path(p) if p else "")
        # the failure handler re-raises the original failure after the rename
        k3 = f"{f.key}:rename-then-raise"
        res.ob(k3)
        for r in renames:
            if cfg.exit.id in cfg.reachable(r.id):
                res.fail(k3, "after renaming the lock to .failed the function can still return normally", m.line(r.ast))


def _helper_releases(h, call, caller_sl) -> bool:
    """`call` invokes helper `h`, every normal path of which renames '<module>.c' (built from a parameter that the call
    binds to the module name) to '.c.failed'."""
    hs = Slicer(h.node)
    hcfg = CFG(h.node, PURE)
    params = [a.arg for a in h.node.args.args]
    bound = {}
    for i, a in enumerate(call.args):
        if i < len(params):
            bound[params[i]] = a
    for kw_ in call.keywords:
        if kw_.arg:
            bound[kw_.arg] = kw_.value
    name_params = {p_ for p_, a in bound.items() if "module_name" in caller_sl.names(a)}
    nodes = set()
    for c in calls_in(h.node):
        nm = call_name(c) or ""
        if nm.split(".")[-1] not in ("replace", "rename", "move"):
            continue
        args = list(c.args)
        if isinstance(c.func, ast.Attribute) and not nm.startswith(("os.", "shutil.")):
            args = [c.func.value] + args
        if len(args) < 2:
            continue
        src, dst = args[0], args[1]
        consts = {x for x in hs.constants(src) if isinstance(x, str)}
        direct = {n.value for n in ast.walk(src) if isinstance(n, ast.Constant) and isinstance(n.value, str)}
        src_ok = ".c" in consts and not any(("cached" in x or "failed" in x) for x in direct) and bool(name_params & hs.names(src))
        dst_ok = any(isinstance(x, str) and x.endswith(".failed") for x in hs.constants(dst))
        if src_ok and dst_ok:
            nodes |= {n.id for n in hcfg.stmt_nodes_containing(c)}
    if not nodes:
        return False
    return hcfg.exit.id not in hcfg.reachable(hcfg.entry.id, blocked=nodes)


def _path_avoiding(cfg, start, goal, blocked, build_node):
    from collections import deque

    prev = {start: None}
    dq = deque([start])
    while dq:
        x = dq.popleft()
        if x == goal:
            out = []
            while x is not None:
                out.append(x)
                x = prev[x]
            return out[::-1]
        if x in blocked:
            continue
        for y, kd in cfg.succ[x]:
            if x == build_node and kd == "n":
                continue
            if y not in prev:
                prev[y] = x
                dq.append(y)
    return None


GLOBAL_ROOTS = ("sys.stdout", "sys.stderr", "sys.stdin", "os.environ")


GLOBAL_SETTERS = ("os.chdir", "logging.captureWarnings", "logging.disable", "np.seterr", "numpy.seterr", "np.set_printoptions", "numpy.set_printoptions",
                  "sys.setrecursionlimit", "os.umask", "locale.setlocale", "warnings.simplefilter", "warnings.filterwarnings", "sys.settrace", "sys.setprofile",
                  "gc.disable", "gc.enable", "socket.setdefaulttimeout", "faulthandler.enable")


@rule(
    "RESTORE-PAIR",
    ["C15", "C12"],
    "a write to process-global state (root logger attributes, sys.stdout/stderr, os.environ, cwd) "
    "whose old value was saved must be undone on every path from the write to every exit, "
    "including exceptional exits (finally / context manager accepted)",
    min_instances=1,
)
def restore_pair(repo, res):
    for mod in repo.modules.values():
        # module-level names bound to the root logger: logging.getLogger() with no argument
        root_names = set()
        for name, val in mod.assigns.items():
            if isinstance(val, ast.Call) and (call_name(val) or "").endswith("getLogger") and not val.args and not val.keywords:
                root_names.add(name)

        def is_global_target(t):
            if isinstance(t, ast.Attribute):
                d = dotted(t) or ""
                if d in GLOBAL_ROOTS:
                    return d
                base = dotted(t.value) or ""
                if base in root_names:
                    return d
                if isinstance(t.value, ast.Call) and (call_name(t.value) or "").endswith("getLogger") and not t.value.args:
                    return "logging.getLogger()." + t.attr
            if isinstance(t, ast.Subscript):
                d = dotted(t.value) or ""
                if d == "os.environ":
                    return "os.environ[" + ast.unparse(t.slice) + "]"
            return None

        for f in mod.funcs.values():
            writes = []
            for n in walk_no_nested(f.node):
                if isinstance(n, ast.Assign):
                    for t in n.targets:
                        g = is_global_target(t)
                        if g:
                            writes.append((n, g))
            if not writes:
                continue
            res.functions.add(f.key)
            cfg = CFG(f.node)
            sl = Slicer(f.node)
            # saved variables: names whose definition reads the same global
            by_glob: dict[str, list] = {}
            for n, g in writes:
                by_glob.setdefault(g, []).append(n)
            for g, ws in by_glob.items():
                saved = {v for v, vals in sl.defs.items() if any(g.split("[")[0] in (ast.unparse(x)) for x in vals)}
                restores = [w for w in ws if saved & {x.id for x in ast.walk(w.value) if isinstance(x, ast.Name)}]
                swaps = [w for w in ws if w not in restores]
                if not saved:
                    # permanent configuration write, not a temporary swap: out of this rule's scope
                    continue
                rn = set()
                for r in restores:
                    rn |= _nodes_of(cfg, r, "restore")
                for s in swaps:
                    sn = _node_of(cfg, s, "swap")
                    k = f"{f.key}:swap:{g}"
                    res.ob(k)
                    if not restores:
                        res.fail(k, f"{g} is replaced (old value saved) but never restored", mod.line(s))
                        continue
                    for goal, gname in ((cfg.exit.id, "normal return"), (cfg.raise_exit.id, "exceptional exit")):
                        starts = [y for y, kd in cfg.succ[sn.id] if kd == "n"]
                        for s0 in starts:
                            if goal in cfg.reachable(s0, blocked=rn):
                                p = cfg.path(s0, goal, blocked=rn)
                                res.fail(
                                    k,
                                    f"{g} swapped at line {s.lineno} is not restored on a path to the "
                                    f"{gname} (e.g. when a statement in between raises)",
                                    mod.line(s),
                                    cfg.describe_path(p) if p else "",
                                )
                                break
        # process-global switches set by a call (cwd, warning capture, logging.disable, numpy error state, recursion limit, umask, ...):
        # inside library code the first call must be undone by a later call of the same function on every path to both exits.
        # The command-line entry point (ffcx.main) configures its own process and is exempt.
        if mod.name == "ffcx.main":
            continue
        # at module level (import time) such a call can never be undone: importing a backend changes the process for everything that runs afterwards -
        # UFL's signatures, for one, print NumPy arrays
        for n in walk_no_nested(mod.tree):
            if isinstance(n, ast.Call) and call_name(n) in GLOBAL_SETTERS:
                k = f"{mod.name}:<module>:{call_name(n).split('.')[-1]}"
                res.ob(k)
                res.fail(k, f"{call_name(n)}(...) is called when {mod.name} is imported: the process-global setting stays changed for every later compilation of the process "
                         "(and for the caller's own code); what is generated afterwards - names derived from printed arrays included - depends on whether this module was "
                         "imported before", mod.line(n), props=("C12", "C15"))
        for f in mod.funcs.values():
            for setter in GLOBAL_SETTERS:
                chd = [c for c in calls_in(f.node) if call_name(c) == setter]
                if not chd:
                    continue
                res.functions.add(f.key)
                cfg = CFG(f.node)
                k = f"{f.key}:{setter.split('.')[-1] if setter != 'os.chdir' else 'chdir'}"
                res.ob(k)
                what = f"{setter}(...) changes process-global state"
                if len(chd) < 2:
                    res.fail(k, f"{what} and is never undone in {f.qualname}: the caller's process keeps the setting after the request", mod.line(chd[0]))
                else:
                    first = _node_of(cfg, chd[0], "chdir")
                    rest = {_node_of(cfg, c, "chdir").id for c in chd[1:]}
                    for y, kd in cfg.succ[first.id]:
                        if kd == "n" and (cfg.raise_exit.id in cfg.reachable(y, blocked=rest) or cfg.exit.id in cfg.reachable(y, blocked=rest)):
                            gname = "an exceptional exit (a statement in between raises)" if cfg.raise_exit.id in cfg.reachable(y, blocked=rest) else "a normal return"
                            res.fail(k, f"{what} at line {chd[0].lineno} and is not undone on a path to {gname}: a failed request leaves the process in the changed state",
                                     mod.line(chd[0]))
                            break
    # anchor: the swap around ffibuilder.compile must be seen (either as swap instance or as a
    # context-manager based replacement that removed the assignment altogether)
    co = repo.mod(JIT).func("_compile_objects")
    src = ast.unparse(co.node)
    if "handlers" not in src and "redirect" not in src:
        res.notes.append("_compile_objects no longer touches root logger handlers")
        res.ob(f"{co.key}:no-global-swap")
