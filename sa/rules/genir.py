"""ffcx.ir.integral._compute_integral_ir interpreted on a sample factorisation (C01, C02, C08, C10).

GEN-IRBLOCKS  The scalar-graph builder, the table builder and the argument factorisation are stubs that return a
              sample: four modified arguments (test / trial function on the "+" and "-" side of an interior facet), a
              coefficient, and factor nodes whose targets list the argument pairs in an order different from ascending
              node order.  The function's own bookkeeping is interpreted and read back:
                - `argkeys` / `modified_arguments`: the generators look a block's modified argument up *by position*
                  (`modified_arguments[mad.ma_index]`), so position m of argkeys must be node m for every argument
                  index used by a block - otherwise the "+" argument is tabulated with the "-" cell's facet and
                  permutation;
                - every (argument tuple -> factors) entry becomes exactly one block under the dof map
                  (offset + i*block_size per argument), with the tables, restrictions (of the non-uniform tables),
                  table types and factor list of those very arguments, in argument order;
                - all_factors_piecewise / is_permuted say what the factor nodes' status / the tables' permutation axis say;
                - part="diagonal" drops exactly the blocks whose two dof maps differ;
                - the active tables are those of non-inactive nodes and of blocks, without zeros/ones tables.
"""

from __future__ import annotations

import copy

from ..absint import Interp, Node, Raised, _PyCall
from ..lnodes_model import load_classes
from ..model import AnalysisError
from ..registry import rule

IRI = "ffcx.ir.integral"


def _nd(shape):
    size = 1
    for s in shape:
        size *= s
    return Node("ndarray", shape=tuple(shape), size=size)


def _table(name, shape, offset, bs=1, ttype="varying"):
    return Node("UniqueTableReferenceT", name=name, values=_nd(shape), offset=offset, block_size=bs, ttype=ttype,
                is_permuted=shape[0] > 1, is_uniform=ttype in ("fixed", "ones", "zeros", "uniform"), is_piecewise=ttype in ("fixed", "ones", "zeros", "piecewise"),
                has_tensor_factorisation=False, tensor_factors=None, tensor_permutation=None)


@rule(
    "GEN-IRBLOCKS",
    ["C02", "C01", "C08", "C10"],
    "_compute_integral_ir interpreted on a sample factorisation: modified arguments are retrievable by their node index (the positional "
    "lookup the generators use), each argument tuple gives one block under the dof maps of its own tables with its own restrictions, "
    "factors and flags, the diagonal part keeps exactly the blocks whose dof maps coincide, and the active tables are the referenced "
    "non-trivial ones",
    min_instances=5,
)
def gen_irblocks(repo, res):
    m = repo.mod(IRI)
    f = m.func("_compute_integral_ir")
    res.functions.add(f.key)
    loc = m.line(f.node)

    def world(part, rank2=True, perm_axis=2, rt=False):
        # expression nodes
        def ex(name, terminal=True):
            return Node("UflExpr", name=name, is_mt=terminal, ufl_shape=())
        if rt:
            # two components of one vector-valued (RT-like) element: different tables over the SAME dofs
            names = ["v0", "v1", "u0", "u1", "f"]
            restr = {n: None for n in names}
            comp = {"v0": 0, "v1": 1, "u0": 0, "u1": 1, "f": 0}
            tabs = {n: _table(f"FE_{n}", (1, 1, 3, 3), 0) for n in names[:4]}
            tabs["f"] = _table("FE_f", (1, 1, 3, 4), 0)
        else:
            names = ["v+", "v-", "u+", "u-", "f"]
            restr = {"v+": "+", "v-": "-", "u+": "+", "u-": "-", "f": "+"}
            comp = {n: 0 for n in names}
            tabs = {
                "v+": _table("FE_v", (perm_axis, 2, 3, 3), 0), "v-": _table("FE_v", (perm_axis, 2, 3, 3), 3),
                "u+": _table("FE_u", (1, 2, 3, 2), 1, bs=2), "u-": _table("FE_u", (1, 2, 3, 2), 5, bs=2),
                "f": _table("FE_f", (1, 2, 3, 4), 0),
            }
        exprs = {n: ex(n) for n in names}
        mts = {n: Node("ModifiedTerminal", name=n, restriction=restr[n], flat_component=comp[n], component=(comp[n],), global_derivatives=(), local_derivatives=(),
                       reference_value=True, averaged=None, base_form_op=None, terminal=Node("FormArgument", name=n)) for n in names}
        one = _table("FE_one", (1, 1, 1, 1), 0, ttype="ones")
        nodes = {}
        for i, n in enumerate(names):
            nodes[i] = {"expression": exprs[n]}
        # factor nodes; targets deliberately first mention (1, 2), then (0, 3), then (0, 2) ...
        if rank2:
            nodes[5] = {"expression": ex("fac5", False), "target": [(1, 2)], "component": [0]}
            nodes[6] = {"expression": ex("fac6", False), "target": [(0, 3), (1, 2)], "component": [0, 0]}
            nodes[7] = {"expression": ex("fac7", False), "target": [(0, 2), (1, 3)], "component": [0, 0]}
        else:
            nodes[5] = {"expression": ex("fac5", False), "target": [(1,)], "component": [0]}
            nodes[6] = {"expression": ex("fac6", False), "target": [(0,), (1,)], "component": [0, 0]}
        F = Node("ExpressionGraph", nodes=nodes, out_edges={i: [] for i in nodes}, in_edges={i: [] for i in nodes})
        S = Node("ExpressionGraph", nodes={i: {"expression": exprs[n]} for i, n in enumerate(names)}, out_edges={i: [] for i in range(len(names))})
        mt_of = {id(e): mts[n] for n, e in exprs.items()}
        table_of = {mts[n]: tabs[n] for n in names}
        status = {0: "varying", 1: "varying", 2: "varying", 3: "varying", 4: "inactive", 5: "piecewise", 6: "varying", 7: "piecewise"}

        def analyse_mt(e):
            n = e.f["name"]
            return mts[n]

        def deps(F_, refs):
            for i, v in F_.f["nodes"].items():
                v["status"] = status.get(i, "varying")

        it = Interp(repo, load_classes(repo), primary=IRI)
        it.overrides["replace_quadratureweight"] = _PyCall(lambda e: e)
        it.overrides["build_scalar_graph"] = _PyCall(lambda e: S)
        it.overrides["analyse_modified_terminal"] = _PyCall(analyse_mt)
        it.overrides["is_modified_terminal"] = _PyCall(lambda e: bool(e.f["is_mt"]))
        it.overrides["ufl.domain.extract_domains"] = _PyCall(lambda e: [])
        it.overrides["build_optimized_tables"] = _PyCall(lambda *a, **k: dict(table_of))
        it.overrides["compute_argument_factorization"] = _PyCall(lambda S_, rank: F)
        it.overrides["analyse_dependencies"] = _PyCall(deps)
        it.overrides["visualise_graph"] = _PyCall(lambda *a: None)
        it.overrides["np.prod"] = _PyCall(lambda s_: 1)
        it.overrides["np.int32"] = _PyCall(lambda v: int(v))
        p = {"part": part, "sum_factorization": False, "table_rtol": 0, "table_atol": 0}
        expression = Node("UflExpr", name="integrand", is_mt=False, ufl_shape=())
        rule_ = Node("QuadratureRule", id=_PyCall(lambda: "r0"))
        cell = Node("Cell", cellname="triangle", topological_dimension=2)
        args = [expression, {}, rule_, cell, "cell" if rt else "interior_facet", "cell" if rt else "facet", ((3, 3) if rt else (6, 8)) if rank2 else (6,), False, p]
        return it, args, F, mts, tabs, names, status

    def run(label, part, rank2=True, perm_axis=2, rt=False):
        key = f"{f.key}:{label}"
        res.ob(key)
        it, args, F, mts, tabs, names, status = world(part, rank2, perm_axis, rt)
        try:
            out = it.call_f(f, args)
        except Raised as e:
            res.fail(key, f"_compute_integral_ir raises ({e.what}) on `{label}`", loc)
            return
        if not isinstance(out, tuple) or len(out) < 5:
            raise AnalysisError("_compute_integral_ir did not return the expected tuple")
        active_tables, active_types, F_out, argkeys, blocks = out[0], out[1], out[2], out[3], out[4]
        nodes = F.f["nodes"]
        # expected blocks
        fact = {}
        for fi in sorted(i for i, v in nodes.items() if v.get("target")):
            for w, comp in zip(nodes[fi]["target"], nodes[fi]["component"]):
                fact.setdefault(tuple(w), []).append((fi, comp))
        exp = {}
        for ma, fici in fact.items():
            trs = [tabs[names[a]] for a in ma]
            bm = tuple(tuple(t.f["offset"] + i * t.f["block_size"] for i in range(t.f["values"].f["shape"][3])) for t in trs)
            if part == "diagonal" and len(bm) == 2 and bm[0] != bm[1]:
                continue
            exp.setdefault(bm, []).append((ma, fici))
        got = {}
        for bm, lst in dict(blocks).items():
            for bd in lst:
                g = bd.f if isinstance(bd, Node) else None
                if g is None:
                    raise AnalysisError("block data is not a record")
                got.setdefault(tuple(tuple(x) for x in bm), []).append(g)
        fail = lambda msg: res.fail(key, f"`{label}`: {msg}", loc)  # noqa: E731
        if set(got) != set(exp):
            missing = sorted(set(exp) - set(got))
            extra = sorted(set(got) - set(exp))
            fail(f"blocks are stored under dof maps {sorted(got)}; expected {sorted(exp)} (missing {missing}, unexpected {extra})"
                 + (": with part='diagonal' exactly the blocks whose two dof maps coincide contribute to the diagonal" if part == "diagonal" else
                    ": the dof map of an argument is offset + i*block_size over the dofs of its own table"))
            return
        for bm, want in exp.items():
            gl = got[bm]
            if len(gl) != len(want):
                fail(f"dof map {bm} holds {len(gl)} block(s), expected {len(want)}")
                continue
            for (ma, fici), g in zip(sorted(want), sorted(gl, key=lambda g_: tuple(md.f["ma_index"] for md in g_["ma_data"]))):
                trs = [tabs[names[a]] for a in ma]
                mas = tuple(md.f["ma_index"] for md in g["ma_data"])
                if mas != ma:
                    fail(f"block {bm} lists modified arguments {mas}, expected {ma}")
                    continue
                if any(md.f["tabledata"] is not t for md, t in zip(g["ma_data"], trs)):
                    fail(f"block of arguments {ma}: ma_data carries the table of another argument")
                if tuple(g["unames"]) != tuple(t.f["name"] for t in trs) or tuple(g["ttypes"]) != tuple(t.f["ttype"] for t in trs):
                    fail(f"block of arguments {ma}: table names/types {g['unames']}/{g['ttypes']} are not those of its arguments, in argument order")
                want_r = tuple(mts[names[a]].f["restriction"] for a, t in zip(ma, trs) if not t.f["is_uniform"])
                if tuple(g["restrictions"]) != want_r:
                    fail(f"block of arguments {[names[a] for a in ma]} records restrictions {tuple(g['restrictions'])}, expected {want_r}")
                if sorted(map(tuple, g["factor_indices_comp_indices"])) != sorted(fici):
                    fail(f"block of arguments {ma} is multiplied by factors {g['factor_indices_comp_indices']}, the factorisation says {fici}")
                if bool(g["all_factors_piecewise"]) != all(status[fi] == "piecewise" for fi, _c in fici):
                    fail(f"block of arguments {ma}: all_factors_piecewise = {g['all_factors_piecewise']} but its factors have status {[status[fi] for fi, _ in fici]}: "
                         "a varying factor would be hoisted out of the quadrature loop")
                if bool(g["is_permuted"]) != any(t.f["values"].f["shape"][0] > 1 for t in trs):
                    fail(f"block of arguments {ma}: is_permuted = {g['is_permuted']} but its tables have permutation axes {[t.f['values'].f['shape'][0] for t in trs]}")
                # positional lookup contract of the generators
                for a in ma:
                    if not (isinstance(argkeys, list) and a < len(argkeys) and argkeys[a] == a):
                        fail(f"argkeys = {argkeys}: the generators read modified_arguments[{a}] for argument node {a} ({names[a]}), which is node "
                             f"{argkeys[a] if isinstance(argkeys, list) and a < len(argkeys) else '?'}"
                             f" ({names[argkeys[a]] if isinstance(argkeys, list) and a < len(argkeys) and argkeys[a] < len(names) else '?'}): its restriction selects "
                             "entity_local_index / quadrature_permutation of the wrong cell")
                        break
        if isinstance(argkeys, list) and len(set(argkeys)) != len(argkeys):
            fail(f"argkeys = {argkeys} lists a node twice")
        want_active = {tabs[n].f["name"] for n in names[:4]}   # f is inactive and in no block; the ones table is dropped
        if set(dict(active_tables)) != want_active or set(dict(active_types)) != want_active:
            fail(f"active tables are {sorted(dict(active_tables))} (types for {sorted(dict(active_types))}), expected {sorted(want_active)}: tables of inactive nodes and "
                 "zeros/ones tables are not emitted, every table a block or an active node refers to is")
        for i_ in range(4):
            if F_out.f["nodes"][i_].get("mt") is not mts[names[i_]] or F_out.f["nodes"][i_].get("tr") is not tabs[names[i_]]:
                fail(f"factorisation node {i_} ({names[i_]}) is annotated with mt/tr of another terminal")
                break

    run("bilinear interior-facet form, full tensor", "full")
    run("bilinear interior-facet form, diagonal", "diagonal")
    run("bilinear form without permuted tables", "full", perm_axis=1)
    run("linear interior-facet form", "full", rank2=False)
    run("linear form with part=diagonal", "diagonal", rank2=False)
    # whether a block has diagonal entries is decided by its dofs: two components of a vector-valued element (RT, N1curl, BDM) live on the
    # same dofs, their cross terms contribute to A[i, i]
    run("bilinear form on a vector-valued element, components sharing dofs, full", "full", rt=True)
    run("bilinear form on a vector-valued element, components sharing dofs, diagonal", "diagonal", rt=True)
    # consumer side (modified_arguments built from argkeys in order): GEN-INTEGRAL-DRIVER interprets compute_integral_ir as a whole


@rule(
    "GEN-INTEGRAL-DRIVER",
    ["C03", "C08", "C01", "C11"],
    "ffcx.ir.integral.compute_integral_ir (the loop over integration domains and quadrature rules) interpreted with a stub for the per-rule "
    "analysis: every (domain, rule) is analysed with its own integrand, the tables accumulated so far *for that domain* and the caller's cell, "
    "types, shape and options; its record carries the graph, the modified arguments in argkeys order and the blocks of that very rule; the "
    "tables of a domain are the union over its rules; needs_facet_permutations is true whenever some rule of some domain has a table with "
    "more than one permutation slice (the kernel then reads quadrature_permutation), whatever comes before or after it",
    min_instances=5,
)
def gen_integral_driver(repo, res):
    from ..npmodel import NDArr, install_arrays

    m = repo.mod(IRI)
    g = m.func("compute_integral_ir")
    res.functions.add(g.key)
    loc = m.line(g.node)

    def tbl(p_):
        return NDArr([[[[1.0]]]] * p_, (p_, 1, 1, 1))

    def sample(name, tables, restrictions, mixed=False):
        """what the per-rule analysis returns for the integrand `name`"""
        F = Node("ExpressionGraph", name=f"F<{name}>", nodes={i: {"mt": f"{name}.mt{i}"} for i in range(4)})
        terms = {f"{name}.t{k}": Node("ModifiedTerminal", restriction=r_) for k, r_ in enumerate(restrictions)}
        return {"tables": dict(tables), "types": {k_: "varying" for k_ in tables}, "F": F, "argkeys": [2, 0, 3], "blocks": {"blocks-of": name}, "terms": terms, "mixed": mixed}

    r1, r2, r3 = (Node("QuadratureRule", name=n_) for n_ in ("r1", "r2", "r3"))
    # scenario -> {domain: {rule: (integrand name, per-rule analysis result)}}, expected flag (None = not constrained)
    P2, P1 = tbl(2), tbl(1)
    scenarios = {
        "permuted table in the first of two rules, one-sided terms only": ({"triangle": [(r1, sample("a", {"FE0": P2, "FE1": P1}, ["+", "+"])), (r2, sample("b", {"FE2": P1}, ["+"]))]}, True),
        "permuted table in the last of three rules": ({"triangle": [(r1, sample("a", {"FE0": P1}, [None])), (r2, sample("b", {"FE1": P1}, ["+", "-"])), (r3, sample("c", {"FE2": P2}, ["-"]))]}, True),
        "permuted table in the second domain only": ({"triangle": [(r1, sample("a", {"FE0": P1}, [None]))], "quadrilateral": [(r1, sample("b", {"FE0": P2}, ["+"])), (r2, sample("c", {"FE3": P1}, [None]))]}, True),
        "mixed-dimensional, permuted table in the first rule": ({"triangle": [(r1, sample("a", {"FE0": P2}, [None], mixed=True)), (r2, sample("b", {"FE1": P1}, [None], mixed=True))]}, True),
        "no permuted table anywhere": ({"triangle": [(r1, sample("a", {"FE0": P1}, [None])), (r2, sample("b", {"FE1": P1}, [None]))]}, None),
    }
    for label, (doms, want_flag) in scenarios.items():
        key = f"{g.key}:{label}"
        res.ob(key)
        it = install_arrays(Interp(repo, load_classes(repo), primary=IRI))
        it.overrides["balance_modifiers"] = _PyCall(lambda e: e)
        by_name = {}
        integrands = {}
        for d_, rules_ in doms.items():
            integrands[d_] = {}
            for r_, smp in rules_:
                nm = smp["F"].f["name"][2:-1]
                integrands[d_][r_] = f"integrand<{nm}>"
                by_name[f"integrand<{nm}>"] = (d_, r_, smp)
        calls = []

        def inner(expression, existing, rule_, cell, itype, etype, shape, visualise, p_):
            if expression not in by_name:
                raise AnalysisError("compute_integral_ir hands something else than an integrand of the map to the per-rule analysis")
            d_, r_, smp = by_name[expression]
            calls.append({"domain": d_, "rule": rule_, "expected_rule": r_, "existing": set(existing), "args": (cell, itype, etype, tuple(shape), visualise, p_)})
            return (dict(smp["tables"]), dict(smp["types"]), smp["F"], list(smp["argkeys"]), smp["blocks"], smp["terms"], smp["mixed"])
        it.overrides["_compute_integral_ir"] = _PyCall(inner)
        it.overrides["IntermediateIntegrandIR"] = _PyCall(lambda **k: dict(k))
        it.overrides["IntermediateIntegralIR"] = _PyCall(lambda **k: dict(k))
        cell = Node("Cell", cellname="prism")
        opts = {"part": "full", "table_rtol": 1e-6}
        try:
            out = it.call_f(g, [cell, "interior_facet", "facet", integrands, (3, 3), opts, False])
        except Raised as e:
            res.fail(key, f"compute_integral_ir raises ({e.what}) on `{label}`", loc)
            continue
        if not isinstance(out, dict):
            raise AnalysisError("compute_integral_ir did not return a record")
        msgs = []
        nrules = sum(len(v) for v in doms.values())
        if len(calls) != nrules:
            msgs.append(f"{len(calls)} per-rule analyses for {nrules} (domain, rule) pairs")
        seen_tables = {d_: set() for d_ in doms}
        for c_ in calls:
            if c_["rule"] is not c_["expected_rule"]:
                msgs.append(f"the integrand filed under rule {c_['expected_rule'].f['name']} is analysed with rule {c_['rule'].f['name']}")
            if c_["args"] != (cell, "interior_facet", "facet", (3, 3), False, opts):
                msgs.append("cell / integral type / entity type / argument shape / options are not handed on unchanged")
            if c_["existing"] != seen_tables[c_["domain"]]:
                msgs.append(f"the analysis of a rule on {c_['domain']} is given the existing tables {sorted(c_['existing'])}; the tables accumulated so far for that "
                            f"domain are {sorted(seen_tables[c_['domain']])}: names and values are shared between the rules of one domain, never across domains")
            d_, r_, smp = [v for v in by_name.values() if v[1] is c_["expected_rule"] and v[0] == c_["domain"]][0]
            seen_tables[c_["domain"]] |= set(smp["tables"])
        for d_, rules_ in doms.items():
            want_t = set()
            for r_, smp in rules_:
                want_t |= set(smp["tables"])
                rec = (out.get("integrand") or {}).get((d_, r_))
                if not isinstance(rec, dict):
                    msgs.append(f"no integrand record under ({d_}, {r_.f['name']})")
                    continue
                if rec.get("factorization") is not smp["F"] or rec.get("block_contributions") is not smp["blocks"]:
                    msgs.append(f"the record of ({d_}, {r_.f['name']}) carries the graph / blocks of another rule")
                nm = smp["F"].f["name"][2:-1]
                if rec.get("modified_arguments") != [f"{nm}.mt2", f"{nm}.mt0", f"{nm}.mt3"]:
                    msgs.append(f"modified_arguments of ({d_}, {r_.f['name']}) = {rec.get('modified_arguments')}, expected the terminals of nodes argkeys = [2, 0, 3] of "
                                "that rule's graph, in that order (blocks refer to them by position)")
            got_t = set((out.get("unique_tables") or {}).get(d_, {}))
            if got_t != want_t or set((out.get("unique_table_types") or {}).get(d_, {})) != want_t:
                msgs.append(f"unique tables of {d_} are {sorted(got_t)}, the rules of that domain use {sorted(want_t)}")
        if want_flag is not None and out.get("needs_facet_permutations") is not True:
            msgs.append(f"needs_facet_permutations = {out.get('needs_facet_permutations')!r} although a table with two permutation slices is active: the kernel reads "
                        "quadrature_permutation while the descriptor tells the caller not to provide it")
        if not isinstance(out.get("needs_facet_permutations"), bool):
            msgs.append(f"needs_facet_permutations is {out.get('needs_facet_permutations')!r}, not a bool")
        for msg in msgs[:3]:
            res.fail(key, f"`{label}`: {msg}", loc)


# ---- the per-form driver ffcx.ir.representation._compute_integral_ir, interpreted as a whole ---------------------------

REP = "ffcx.ir.representation"


@rule(
    "GEN-INTEGRAL-IR",
    ["C05", "C06", "C08", "C01", "C02", "C11", "C19", "C03"],
    "_compute_integral_ir interpreted on a sample form with several integral groups (cell, exterior facet, interior facet, vertex; "
    "two meshes, two quadrature rules in one group, a prism group with two facet types): after the whole loop every group's record is "
    "read back and compared with a specification evaluated per group - coefficient offsets = exclusive prefix sums of the element "
    "dimensions with two restrictions exactly in the interior-facet group, numbering = position in reduced_coefficients, constant "
    "offsets over the original form's constants, tensor shape (doubled on interior facets, diagonal), entity type, coordinate element "
    "data of the group's own mesh, enabled flags and name of the group, and the integrand handed on per (cell type, rule) is the sum "
    "of exactly the integrands filed under that key",
    min_instances=20,
)
def gen_integral_ir(repo, res):
    m = repo.mod(REP)
    f = m.func("_compute_integral_ir")
    res.functions.add(f.key)
    loc = m.line(f.node)
    elP2, elP1, elDG = Node("Element", name="P2", dim=6), Node("Element", name="P1", dim=3), Node("Element", name="DG0", dim=1)
    coefs = [Node("Coefficient", name=n) for n in ("B", "C", "D")]
    coef_els = [elP1, elP2, elDG]
    consts = [Node("Constant", name="k0", ufl_shape=()), Node("Constant", name="k1", ufl_shape=(2, 3)), Node("Constant", name="k2", ufl_shape=(2,))]

    def mesh(name, cellname, tdim, h, ncoord):
        cell = Node("Cell", cellname=cellname, topological_dimension=tdim)
        ce = Node("CoordinateElement", basix_hash=_PyCall(lambda: h), dim=ncoord)
        return Node("Mesh", name=name, ufl_cell=_PyCall(lambda: cell), ufl_coordinate_element=_PyCall(lambda: ce), topological_dimension=tdim)

    meshA, meshB = mesh("meshA", "triangle", 2, 111, 6), mesh("meshB", "prism", 3, 222, 18)
    r1, r2 = Node("QuadratureRule", name="r1"), Node("QuadratureRule", name="r2")
    # (integral type, mesh, subdomain ids, enabled flags, grouping {cell type: {rule: integrands}})
    groups = [
        ("cell", meshA, (1,), [True, False, True], {"triangle": {r1: ["c1", "c2"], r2: ["c3"]}}),
        ("exterior_facet", meshB, (2, 3), [False, True, True], {"triangle": {r1: ["t1"]}, "quadrilateral": {r1: ["q1", "q2"], r2: ["q3"]}}),
        ("interior_facet", meshA, ("otherwise",), [True, True, False], {"interval": {r2: ["i1"]}}),
        ("vertex", meshA, (7,), [False, False, True], {"vertex": {r1: ["v1"]}}),
        ("cell", meshB, (1,), [True, True, True], {"prism": {r1: ["p1"]}}),
        ("ridge", meshB, (9, 4), [True, False, False], {"interval": {r1: ["g1", "g2"]}}),
    ]

    def run(nargs, part):
        it = Interp(repo, load_classes(repo), primary=REP)
        it.overrides["logger"] = Node("Logger", info=_PyCall(lambda *a: None), debug=_PyCall(lambda *a: None))
        it.overrides["typing.cast"] = _PyCall(lambda t, v: v)
        it.overrides["supported_integral_types"] = "supported_integral_types"
        it.overrides["np.prod"] = _PyCall(lambda shape, dtype=None: __import__("math").prod(shape))
        it.overrides["basix_cell_from_string"] = _PyCall(lambda s_: f"CellType.{s_}")
        idata = []
        for t_, mesh_, ids, en, grp in groups:
            itg_objs = [Node("Integral", name=x, ufl_domain=_PyCall(lambda _m=mesh_: _m)) for d in grp.values() for v in d.values() for x in v]
            idata.append(Node("IntegralData", integral_type=t_, domain=mesh_, subdomain_id=ids, enabled_coefficients=list(en), integrals=itg_objs))
        by_ints = {id(d.f["integrals"]): g[4] for d, g in zip(idata, groups)}

        def group_fn(integrals, *a, **k):
            grp = by_ints.get(id(integrals))
            if grp is None:
                raise AnalysisError("_group_integrands_by_quadrature_rule is not called with the integrals of the integral data being processed")
            return {c: {r: list(v) for r, v in d.items()} for c, d in grp.items()}
        it.overrides["_group_integrands_by_quadrature_rule"] = _PyCall(group_fn)
        it.overrides["sorted_expr_sum"] = _PyCall(lambda seq: ("sum",) + tuple(seq))
        it.overrides["Integral"] = _PyCall(lambda integrand, itype, domain, sid, md, dt: Node("Integral", integrand=_PyCall(lambda: integrand), integral_type=_PyCall(lambda: itype),
                                                                                           ufl_domain=_PyCall(lambda: domain), subdomain_id=_PyCall(lambda: sid)))
        handed = []

        def cir(cell, itype, etype, integrand_map, tensor_shape, options, visualise):
            handed.append({"cell": cell, "integral_type": itype, "entity_type": etype, "integrands": {c: dict(d) for c, d in integrand_map.items()}, "tensor_shape": list(tensor_shape)})
            # the shape of the real result: per (cell type, rule) a factorisation graph whose nodes carry modified terminals and table references, per cell
            # type the tables that are stored.  Only the first coefficient has a stored table here; the others have all-ones tables (a DG0 / Real
            # coefficient), which the kernel reads directly from w without a table
            n = len(handed)
            integrand, tables = {}, {}
            for c, d in integrand_map.items():
                tables[c] = {f"FE{n}_0": "table"}
                for r in d:
                    nodes = {k: {"mt": Node("ModifiedTerminal", terminal=co), "tr": Node("TableRef", name=f"FE{n}_{k}", ttype="varying" if k == 0 else "ones")}
                             for k, co in enumerate(coefs)}
                    nodes[len(coefs)] = {"expression": "weight"}
                    integrand[(c, r)] = {"factorization": Node("ExpressionGraph", nodes=nodes), "modified_arguments": [], "block_contributions": {}}
            returned.append(integrand)
            return {"integrand": integrand, "unique_tables": tables, "unique_table_types": {c: {k: "varying" for k in t} for c, t in tables.items()},
                    "needs_facet_permutations": False}
        returned = []
        it.overrides["compute_integral_ir"] = _PyCall(cir)
        it.overrides["CommonExpressionIR"] = _PyCall(lambda **k: Node("CommonExpressionIR", **k))
        it.overrides["IntegralIR"] = _PyCall(lambda **k: Node("IntegralIR", **k))
        args_el = [elP2, elP1][:nargs] if nargs < 2 else ([elP2, elP2] if part == "diagonal" else [elP2, elP1])
        fd = Node("FormData", integral_data=idata, rank=nargs, argument_elements=list(args_el), reduced_coefficients=list(coefs), coefficient_elements=list(coef_els),
                  original_form=Node("Form", constants=_PyCall(lambda: list(consts)), coefficients=_PyCall(lambda: [Node("Coefficient", name="A")] + list(coefs))),
                  preprocessed_form=Node("Form", constants=_PyCall(lambda: list(consts[1:])), coefficients=_PyCall(lambda: list(coefs[1:]))),
                  original_coefficient_positions=[1, 2, 3])
        names = {(4, i): f"integral_{i}" for i in range(len(groups))}
        out = it.call_f(f, [fd, 4, [elP2, elP1, elDG], names, {"part": part, "sum_factorization": False, "table_rtol": 1e-6, "table_atol": 1e-9}, False])
        return out, handed, args_el, returned

    # part="diagonal" applies to bilinear forms only: a linear form or a functional compiled with it must come out as without it
    for label, nargs, part in (("bilinear form", 2, "full"), ("bilinear form, diagonal", 2, "diagonal"), ("linear form", 1, "full"), ("functional", 0, "full"),
                               ("linear form with part=diagonal", 1, "diagonal"), ("functional with part=diagonal", 0, "diagonal")):
        try:
            out, handed, args_el, returned = run(nargs, part)
        except Raised as e:
            res.ob(f"{f.key}:{label}:runs")
            res.fail(f"{f.key}:{label}:runs", f"_compute_integral_ir raises ({e.what}) on the sample {label}", loc)
            continue
        if not isinstance(out, list) or len(out) != len(groups) or len(handed) != len(groups):
            res.ob(f"{f.key}:{label}:one-record-per-group")
            res.fail(f"{f.key}:{label}:one-record-per-group", f"{len(out) if isinstance(out, list) else out} records / {len(handed)} calls of compute_integral_ir for {len(groups)} integral groups", loc)
            continue
        etypes = {"cell": "cell", "exterior_facet": "facet", "interior_facet": "facet", "vertex": "vertex", "ridge": "ridge"}
        for gi, ((t_, mesh_, ids, en, grp), rec, hd) in enumerate(zip(groups, out, handed)):
            key = f"{f.key}:{label}:group{gi}:{t_}"
            res.ob(key)
            ex = rec.f.get("expression")
            if not isinstance(ex, Node):
                res.fail(key, "the record has no expression part", loc)
                continue
            g = ex.f
            width = 2 if t_ == "interior_facet" else 1
            want_off, acc = {}, 0
            for c_, e_ in zip(coefs, coef_els):
                want_off[c_.f["name"]] = acc
                acc += width * e_.f["dim"]
            got_off = {k.f["name"]: v for k, v in (g.get("coefficient_offsets") or {}).items()}
            msgs = []
            if got_off != want_off:
                msgs.append(f"coefficient offsets into w are {got_off}, expected {want_off} (element dimensions {[e_.f['dim'] for e_ in coef_els]}, "
                            f"{'two restrictions' if width == 2 else 'one restriction'} in a {t_} kernel)")
            got_num = {k.f["name"]: v for k, v in (g.get("coefficient_numbering") or {}).items()}
            if got_num != {"B": 0, "C": 1, "D": 2}:
                msgs.append(f"coefficient numbering is {got_num}, expected the position in reduced_coefficients")
            got_c = {k.f["name"]: v for k, v in (g.get("original_constant_offsets") or {}).items()}
            if got_c != {"k0": 0, "k1": 1, "k2": 7}:
                msgs.append(f"constant offsets into c are {got_c}, expected k0->0, k1->1, k2->7 over the original form's constants")
            dims = [e_.f["dim"] * width for e_ in args_el]
            want_shape = dims[:1] if (part == "diagonal" and nargs == 2) else dims
            if list(g.get("tensor_shape", ["<missing>"])) != want_shape or hd["tensor_shape"] != want_shape:
                msgs.append(f"tensor shape is {g.get('tensor_shape')} (handed to compute_integral_ir: {hd['tensor_shape']}), expected {want_shape}")
            if (g.get("integral_type"), g.get("entity_type")) != (t_, etypes[t_]) or (hd["integral_type"], hd["entity_type"]) != (t_, etypes[t_]):
                msgs.append(f"(integral type, entity type) = ({g.get('integral_type')}, {g.get('entity_type')}), expected ({t_}, {etypes[t_]})")
            ce = mesh_.f["ufl_coordinate_element"].fn()
            if (g.get("coordinate_element_hash"), g.get("number_coordinate_dofs")) != (ce.f["basix_hash"].fn(), ce.f["dim"]):
                msgs.append(f"coordinate element hash / dofs = ({g.get('coordinate_element_hash')}, {g.get('number_coordinate_dofs')}), the group's mesh {mesh_.f['name']} has "
                            f"({ce.f['basix_hash'].fn()}, {ce.f['dim']})")
            if hd["cell"] is not mesh_.f["ufl_cell"].fn():
                msgs.append(f"compute_integral_ir receives the cell of another mesh than the group's ({mesh_.f['name']})")
            if rec.f.get("enabled_coefficients") != en:
                msgs.append(f"enabled_coefficients = {rec.f.get('enabled_coefficients')}, UFL's integral data says {en}")
            if g.get("name") != f"integral_{gi}":
                msgs.append(f"name = {g.get('name')!r}, expected integral_names[(form index, {gi})] = 'integral_{gi}'")
            want_rank = 1 if (part == "diagonal" and nargs == 2) else nargs
            if rec.f.get("rank") != want_rank:
                msgs.append(f"rank = {rec.f.get('rank')}, expected {want_rank}")
            want_int = {f"CellType.{c}" if not str(c).startswith("CellType") else c: {r.f["name"]: ("sum",) + tuple(v) for r, v in d.items()} for c, d in grp.items()}
            got_int = {}
            for c, d in hd["integrands"].items():
                got_int[c if str(c).startswith("CellType") else f"CellType.{c}"] = {r.f["name"] if isinstance(r, Node) else r: v for r, v in d.items()}
            if got_int != want_int:
                msgs.append(f"integrands handed on per (cell type, rule) are {got_int}, expected {want_int}: each rule integrates the sum of exactly its own integrands")
            if g.get("integrand") is not returned[gi]:
                msgs.append("the record does not carry the result computed for its own group (compute_integral_ir's output of another group)")
            if msgs:
                res.fail(key, f"{label}, integral group {gi} ({t_} on {mesh_.f['name']}, ids {ids}): " + "; ".join(msgs), loc)


@rule(
    "GEN-EXPRESSION-IR",
    ["C04", "C05", "C08", "C20", "C19", "C12", "C13"],
    "representation._compute_expression_ir interpreted as a whole on a sample (processed, points, original) triple - the original expression has "
    "coefficients [A, B, C] and constants [k0, k1, k2], preprocessing kept [B, C]; one P2 argument; two domains of different dimension; "
    "value shape (2,3) - with cell points, facet points, points of a wrong dimension, two arguments, and a domain-free expression: every "
    "field of the ExpressionIR is compared with its specification (positions among the *original* coefficients, numbering and offsets over "
    "the processed ones, constant names and offsets over the original constants, names through object_names under the identity of the "
    "original objects, entity type from the point dimension, coordinate element of the highest-dimensional domain) and the per-rule "
    "analysis must be handed the processed expression under one rule with these points and unit weights",
    min_instances=5,
)
def gen_expression_ir(repo, res):
    from ..npmodel import NDArr, NPInt, install_arrays

    m = repo.mod(REP)
    g = m.func("_compute_expression_ir")
    res.functions.add(g.key)
    loc = m.line(g.node)
    elA, elB, elC, elP2 = (Node("Element", name=n_, dim=d_) for n_, d_ in (("elA", 6), ("elB", 3), ("elC", 4), ("P2", 6)))
    A, B, C = (Node("Coefficient", name=n_, ufl_element=_PyCall(lambda e_=e: e_)) for n_, e in (("A", elA), ("B", elB), ("C", elC)))
    k0, k1, k2 = Node("Constant", name="k0", ufl_shape=()), Node("Constant", name="k1", ufl_shape=(2, 3)), Node("Constant", name="k2", ufl_shape=(NPInt(2),))
    V = Node("FunctionSpace", ufl_element=_PyCall(lambda: elP2))
    arg0, arg1 = Node("Argument", name="v", ufl_function_space=_PyCall(lambda: V)), Node("Argument", name="u", ufl_function_space=_PyCall(lambda: V))

    def mesh(tdim, h, nd):
        cell = Node("Cell", cellname={1: "interval", 2: "triangle", 3: "tetrahedron"}[tdim], topological_dimension=tdim)
        ce = Node("CoordinateElement", basix_hash=_PyCall(lambda: h), dim=nd)
        return Node("Mesh", topological_dimension=tdim, ufl_cell=_PyCall(lambda: cell), ufl_coordinate_element=_PyCall(lambda: ce)), cell
    (m1, c1), (m2, c2) = mesh(1, 555, 2), mesh(2, 111, 6)

    def run(points, args, domains, free=False):
        processed, original = Node("UflExpr", name="processed", ufl_shape=(2, 3)), Node("UflExpr", name="original", ufl_shape=(2, 3))
        it = install_arrays(Interp(repo, load_classes(repo), primary=REP))
        it.overrides["logger"] = Node("Logger", info=_PyCall(lambda *a: None), debug=_PyCall(lambda *a: None))

        def which(x, fn):
            if x is processed:
                return "processed"
            if x is original:
                return "original"
            raise AnalysisError(f"{fn} applied to something else than the processed / original expression")
        for pre in ("ufl.algorithms.", "ufl.algorithms.analysis.", ""):
            it.overrides[pre + "extract_coefficients"] = _PyCall(lambda x: [] if free else ([B, C] if which(x, "extract_coefficients") == "processed" else [A, B, C]))
            it.overrides[pre + "extract_constants"] = _PyCall(lambda x: [] if free else ([k1, k2] if which(x, "extract_constants") == "processed" else [k0, k1, k2]))
            it.overrides[pre + "extract_arguments"] = _PyCall(lambda x: list(args) if which(x, "extract_arguments") else [])
        it.overrides["ufl.domain.extract_domains"] = _PyCall(lambda x: list(domains))
        it.overrides["naming.expression_name"] = _PyCall(lambda e, prefix, i=None: ("name", e, prefix, i))
        it.overrides["np.prod"] = _PyCall(lambda shape, dtype=None: __import__("math").prod(int(x) for x in shape))
        it.overrides["id"] = _PyCall(lambda o: id(o))
        it.overrides["QuadratureRule"] = _PyCall(lambda pts, w, tf=None: Node("QuadratureRule", points=pts, weights=w, tensor_factors=tf))
        calls = []

        def cir(cell, itype, etype, integrands, tshape, options, visualise):
            calls.append((cell, itype, etype, integrands, list(tshape), options, visualise))
            return {"needs_facet_permutations": False, "unique_tables": {}, "unique_table_types": {}, "integrand": {"marker": 1}}
        it.overrides["compute_integral_ir"] = _PyCall(cir)
        it.overrides["CommonExpressionIR"] = _PyCall(lambda **k: Node("CommonExpressionIR", **k))
        it.overrides["ExpressionIR"] = _PyCall(lambda **k: Node("ExpressionIR", **k))
        onames = {id(C): "gamma", id(k1): "kappa", id(original): "flux", id(processed): "WRONG", id(B.f["ufl_element"]): "x"}
        analysis = Node("UFLData", unique_elements=[elA, elP2, elB, elC])
        opts = {"scalar_type": "float64", "marker": "opts"}
        out = it.call_f(g, [(processed, points, original), 4, "p", analysis, opts, False, onames])
        return out, calls, processed, original, opts

    def named(d):
        return sorted((k.f.get("name"), int(v)) for k, v in d.items()) if isinstance(d, dict) else d

    pts_cell, pts_facet, pts_bad = NDArr([[0.25, 0.5], [0.5, 0.25], [0.125, 0.125]], (3, 2)), NDArr([[0.25], [0.5], [0.75]], (3, 1)), NDArr([[0.1, 0.2, 0.3]], (1, 3))
    for label, points, etype in (("cell points on a triangle", pts_cell, "cell"), ("facet points on a triangle", pts_facet, "facet")):
        key = f"{g.key}:{label}"
        res.ob(key)
        try:
            out, calls, processed, original, opts = run(points, [arg0], [m1, m2])
        except Raised as e:
            res.fail(key, f"_compute_expression_ir raises ({e.what}) on the sample expression with {label}", loc)
            continue
        if not isinstance(out, Node) or not isinstance(out.f.get("expression"), Node):
            raise AnalysisError("_compute_expression_ir did not return an ExpressionIR record")
        x, e_ = out.f, out.f["expression"].f
        checks = [
            ("name", e_.get("name"), ("name", (original, points), "p", 4), "expression_name((original expression, points), prefix, index)"),
            ("tensor_shape", list(e_.get("tensor_shape", ["?"])), [6], "the dimension of the argument's element"),
            ("shape", list(e_.get("shape", ["?"])), [2, 3], "the value shape of the expression"),
            ("coefficient_numbering", named(e_.get("coefficient_numbering")), [("B", 0), ("C", 1)], "position among the coefficients of the processed expression"),
            ("original_coefficient_positions", [int(v) for v in x.get("original_coefficient_positions", [])], [1, 2],
             "index of each processed coefficient among the coefficients [A, B, C] of the ORIGINAL expression (what the caller packs w by)"),
            ("coefficient_names", x.get("coefficient_names"), ["w0", "gamma"], "names registered for the coefficient objects, w<j> otherwise, in processed order"),
            ("constant_names", x.get("constant_names"), ["c0", "kappa", "c2"], "one name per constant of the ORIGINAL expression (the caller packs all of them into c)"),
            ("name_from_uflfile", x.get("name_from_uflfile"), "expression_p_flux", "the name registered under the identity of the ORIGINAL expression"),
            ("coefficient_offsets", named(e_.get("coefficient_offsets")), [("B", 0), ("C", 3)], "exclusive prefix sums of the element dimensions of the processed coefficients"),
            ("original_constant_offsets", named(e_.get("original_constant_offsets")), [("k0", 0), ("k1", 1), ("k2", 7)], "exclusive prefix sums of prod(shape) over the original constants"),
            ("integral_type", e_.get("integral_type"), "expression", ""),
            ("entity_type", e_.get("entity_type"), etype, "cell when the points have the cell's dimension, facet when one less"),
            ("coordinate_element_hash", e_.get("coordinate_element_hash"), 111, "of the domain of highest topological dimension"),
            ("number_coordinate_dofs", e_.get("number_coordinate_dofs"), 6, "of the domain of highest topological dimension"),
            ("integrand", e_.get("integrand"), {"marker": 1}, "the result of the per-rule analysis"),
        ]
        for fld, got, want, why in checks:
            if got != want:
                res.fail(key, f"{label}: {fld} = {got!r}, expected {want!r}" + (f" ({why})" if why else ""), loc,
                         props=("C04", "C05", "C08") if fld in ("original_coefficient_positions", "coefficient_offsets", "original_constant_offsets", "coefficient_numbering")
                         else ("C04", "C20") if fld in ("name", "name_from_uflfile", "coefficient_names", "constant_names") else ("C04",))
        if len(calls) != 1:
            res.fail(key, f"{label}: the per-rule analysis is called {len(calls)} times", loc, props=("C04",))
        else:
            cell, itype, et_, integrands, tshape, o_, vis = calls[0]
            ok = cell is c2 and itype == "expression" and et_ == etype and tshape == [6] and o_ is opts and vis is False and isinstance(integrands, dict) and len(integrands) == 1
            if ok:
                inner = list(integrands.values())[0]
                ok = isinstance(inner, dict) and len(inner) == 1
                if ok:
                    (rule_, expr_), = inner.items()
                    w_ = rule_.f.get("weights") if isinstance(rule_, Node) else None
                    wl = w_.tolist() if hasattr(w_, "tolist") else w_
                    ok = expr_ is processed and isinstance(rule_, Node) and rule_.f.get("points") is points and wl == [1.0] * 3
            if not ok:
                res.fail(key, f"{label}: compute_integral_ir is not handed (cell of the 2D domain, 'expression', {etype!r}, {{'': {{rule(points, unit weights): processed "
                         "expression}}, [6], the caller's options, visualise)", loc, props=("C04",))
    # points given in single precision: the rule is identified (and its tables are named) by a digest of the raw buffer and the points are printed into the
    # descriptor - while the module name is computed from their double-precision values: the rule must be built from those too
    key = f"{g.key}:points-in-single-precision"
    res.ob(key)
    from ..npmodel import NPFloat32
    pts32 = NDArr([[NPFloat32(v) for v in row] for row in pts_cell.tolist()], pts_cell.shape)
    try:
        out32, calls32, *_rest = run(pts32, [arg0], [m1, m2])
        rules32 = [r_ for c_ in calls32 for inner in c_[3].values() for r_ in inner]
        vals = [v for r_ in rules32 if isinstance(r_, Node) and isinstance(r_.f.get("points"), NDArr) for v in r_.f["points"].flat()]
        if not vals:
            res.fail(key, "no quadrature rule with the given points is handed to the per-rule analysis for points given as a float32 array", loc, props=("C04", "C12"))
        elif any(isinstance(v, NPFloat32) for v in vals):
            res.fail(key, "points given as a float32 array reach the quadrature rule as float32 scalars: the rule id - a digest of the raw buffer, part of every table name - "
                     "differs from the one the same points get as a float64 array, although both requests have the same module name (computed from the double-precision "
                     "values): which text a shared cache holds under that name depends on which request came first", loc, props=("C12", "C13", "C04"))
    except Raised as e:
        res.fail(key, f"_compute_expression_ir raises ({e.what}) for points given as a float32 array", loc, props=("C04",))
    key = f"{g.key}:points-of-wrong-dimension-rejected"
    res.ob(key)
    try:
        run(pts_bad, [arg0], [m2])
        res.fail(key, "points with three coordinates on a triangle (neither the cell's nor a facet's dimension) are accepted", loc, props=("C19", "C04"))
    except Raised:
        pass
    key = f"{g.key}:two-arguments-rejected"
    res.ob(key)
    try:
        run(pts_cell, [arg0, arg1], [m2])
        res.fail(key, "an expression with two arguments is accepted although A[point][component][dof] has room for one", loc, props=("C19", "C04"))
    except Raised:
        pass
    key = f"{g.key}:domain-free-expression"
    res.ob(key)
    try:
        out, calls, processed, original, opts = run(pts_cell, [], [], free=True)
        e_ = out.f["expression"].f
        got = (e_.get("entity_type"), e_.get("coordinate_element_hash"), e_.get("number_coordinate_dofs"), list(e_.get("tensor_shape", ["?"])), calls[0][0] if calls else "?")
        if got != ("cell", 0, 0, [], None):
            res.fail(key, f"an expression without domain: (entity type, coordinate hash, coordinate dofs, tensor shape, cell) = {got}, expected ('cell', 0, 0, [], None)", loc, props=("C04",))
    except Raised as e:
        res.fail(key, f"_compute_expression_ir raises ({e.what}) on an expression without domain, coefficients and constants", loc, props=("C04", "C19"))
