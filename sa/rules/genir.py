"""ffcx.ir.integral._compute_integral_ir interpreted on a sample factorisation (C01, C02, C08, C10).

GEN-IRBLOCKS  The scalar-graph builder, the table builder and the argument factorisation are stubs that return a
              sample: four modified arguments (test / trial function on the "+" and "-" side of an interior facet), a
              coefficient, and factor nodes whose targets list the argument pairs in an order different from ascending
              node order.  The function's own bookkeeping is interpreted and read back:
                - `argkeys` / `modified_arguments`: the generators look a block's modified argument up *by position*
                  (`modified_arguments[mad.ma_index]`), so position m of argkeys must be node m for every argument
                  index used by a block - otherwise the "+" argument is tabulated with the "-" cell's facet and
                  permutation;
                - every (argument tuple -> factors) entry becomes exactly one block under the dof map
                  (offset + i*block_size per argument), with the tables, restrictions (of the non-uniform tables),
                  table types and factor list of those very arguments, in argument order;
                - all_factors_piecewise / is_permuted say what the factor nodes' status / the tables' permutation axis say;
                - part="diagonal" drops exactly the blocks whose two dof maps differ;
                - the active tables are those of non-inactive nodes and of blocks, without zeros/ones tables.
"""

from __future__ import annotations

import copy

from ..absint import Interp, Node, Raised, _PyCall
from ..lnodes_model import load_classes
from ..model import AnalysisError
from ..registry import rule

IRI = "ffcx.ir.integral"


def _nd(shape):
    size = 1
    for s in shape:
        size *= s
    return Node("ndarray", shape=tuple(shape), size=size)


def _table(name, shape, offset, bs=1, ttype="varying"):
    return Node("UniqueTableReferenceT", name=name, values=_nd(shape), offset=offset, block_size=bs, ttype=ttype,
                is_permuted=shape[0] > 1, is_uniform=ttype in ("fixed", "ones", "zeros", "uniform"), is_piecewise=ttype in ("fixed", "ones", "zeros", "piecewise"),
                has_tensor_factorisation=False, tensor_factors=None, tensor_permutation=None)


@rule(
    "GEN-IRBLOCKS",
    ["C02", "C01", "C08", "C10"],
    "_compute_integral_ir interpreted on a sample factorisation: modified arguments are retrievable by their node index (the positional "
    "lookup the generators use), each argument tuple gives one block under the dof maps of its own tables with its own restrictions, "
    "factors and flags, the diagonal part keeps exactly the blocks whose dof maps coincide, and the active tables are the referenced "
    "non-trivial ones",
    min_instances=6,
)
def gen_irblocks(repo, res):
    m = repo.mod(IRI)
    f = m.func("_compute_integral_ir")
    res.functions.add(f.key)
    loc = m.line(f.node)

    def world(part, rank2=True, perm_axis=2):
        # expression nodes
        def ex(name, terminal=True):
            return Node("UflExpr", name=name, is_mt=terminal, ufl_shape=())
        names = ["v+", "v-", "u+", "u-", "f"]
        exprs = {n: ex(n) for n in names}
        restr = {"v+": "+", "v-": "-", "u+": "+", "u-": "-", "f": "+"}
        mts = {n: Node("ModifiedTerminal", name=n, restriction=restr[n]) for n in names}
        tabs = {
            "v+": _table("FE_v", (perm_axis, 2, 3, 3), 0), "v-": _table("FE_v", (perm_axis, 2, 3, 3), 3),
            "u+": _table("FE_u", (1, 2, 3, 2), 1, bs=2), "u-": _table("FE_u", (1, 2, 3, 2), 5, bs=2),
            "f": _table("FE_f", (1, 2, 3, 4), 0),
        }
        one = _table("FE_one", (1, 1, 1, 1), 0, ttype="ones")
        nodes = {}
        for i, n in enumerate(names):
            nodes[i] = {"expression": exprs[n]}
        # factor nodes; targets deliberately first mention (1, 2), then (0, 3), then (0, 2) ...
        if rank2:
            nodes[5] = {"expression": ex("fac5", False), "target": [(1, 2)], "component": [0]}
            nodes[6] = {"expression": ex("fac6", False), "target": [(0, 3), (1, 2)], "component": [0, 0]}
            nodes[7] = {"expression": ex("fac7", False), "target": [(0, 2), (1, 3)], "component": [0, 0]}
        else:
            nodes[5] = {"expression": ex("fac5", False), "target": [(1,)], "component": [0]}
            nodes[6] = {"expression": ex("fac6", False), "target": [(0,), (1,)], "component": [0, 0]}
        F = Node("ExpressionGraph", nodes=nodes, out_edges={i: [] for i in nodes}, in_edges={i: [] for i in nodes})
        S = Node("ExpressionGraph", nodes={i: {"expression": exprs[n]} for i, n in enumerate(names)}, out_edges={i: [] for i in range(len(names))})
        mt_of = {id(e): mts[n] for n, e in exprs.items()}
        table_of = {mts[n]: tabs[n] for n in names}
        status = {0: "varying", 1: "varying", 2: "varying", 3: "varying", 4: "inactive", 5: "piecewise", 6: "varying", 7: "piecewise"}

        def analyse_mt(e):
            n = e.f["name"]
            return mts[n]

        def deps(F_, refs):
            for i, v in F_.f["nodes"].items():
                v["status"] = status.get(i, "varying")

        it = Interp(repo, load_classes(repo), primary=IRI)
        it.overrides["replace_quadratureweight"] = _PyCall(lambda e: e)
        it.overrides["build_scalar_graph"] = _PyCall(lambda e: S)
        it.overrides["analyse_modified_terminal"] = _PyCall(analyse_mt)
        it.overrides["is_modified_terminal"] = _PyCall(lambda e: bool(e.f["is_mt"]))
        it.overrides["ufl.domain.extract_domains"] = _PyCall(lambda e: [])
        it.overrides["build_optimized_tables"] = _PyCall(lambda *a, **k: dict(table_of))
        it.overrides["compute_argument_factorization"] = _PyCall(lambda S_, rank: F)
        it.overrides["analyse_dependencies"] = _PyCall(deps)
        it.overrides["visualise_graph"] = _PyCall(lambda *a: None)
        it.overrides["np.prod"] = _PyCall(lambda s_: 1)
        it.overrides["np.int32"] = _PyCall(lambda v: int(v))
        p = {"part": part, "sum_factorization": False, "table_rtol": 0, "table_atol": 0}
        expression = Node("UflExpr", name="integrand", is_mt=False, ufl_shape=())
        rule_ = Node("QuadratureRule", id=_PyCall(lambda: "r0"))
        cell = Node("Cell", cellname="triangle", topological_dimension=2)
        args = [expression, {}, rule_, cell, "interior_facet", "facet", (6, 8) if rank2 else (6,), False, p]
        return it, args, F, mts, tabs, names, status

    def run(label, part, rank2=True, perm_axis=2):
        key = f"{f.key}:{label}"
        res.ob(key)
        it, args, F, mts, tabs, names, status = world(part, rank2, perm_axis)
        try:
            out = it.call_f(f, args)
        except Raised as e:
            res.fail(key, f"_compute_integral_ir raises ({e.what}) on `{label}`", loc)
            return
        if not isinstance(out, tuple) or len(out) < 5:
            raise AnalysisError("_compute_integral_ir did not return the expected tuple")
        active_tables, active_types, F_out, argkeys, blocks = out[0], out[1], out[2], out[3], out[4]
        nodes = F.f["nodes"]
        # expected blocks
        fact = {}
        for fi in sorted(i for i, v in nodes.items() if v.get("target")):
            for w, comp in zip(nodes[fi]["target"], nodes[fi]["component"]):
                fact.setdefault(tuple(w), []).append((fi, comp))
        exp = {}
        for ma, fici in fact.items():
            trs = [tabs[names[a]] for a in ma]
            bm = tuple(tuple(t.f["offset"] + i * t.f["block_size"] for i in range(t.f["values"].f["shape"][3])) for t in trs)
            if part == "diagonal" and len(bm) == 2 and bm[0] != bm[1]:
                continue
            exp.setdefault(bm, []).append((ma, fici))
        got = {}
        for bm, lst in dict(blocks).items():
            for bd in lst:
                g = bd.f if isinstance(bd, Node) else None
                if g is None:
                    raise AnalysisError("block data is not a record")
                got.setdefault(tuple(tuple(x) for x in bm), []).append(g)
        fail = lambda msg: res.fail(key, f"`{label}`: {msg}", loc)  # noqa: E731
        if set(got) != set(exp):
            missing = sorted(set(exp) - set(got))
            extra = sorted(set(got) - set(exp))
            fail(f"blocks are stored under dof maps {sorted(got)}; expected {sorted(exp)} (missing {missing}, unexpected {extra})"
                 + (": with part='diagonal' exactly the blocks whose two dof maps coincide contribute to the diagonal" if part == "diagonal" else
                    ": the dof map of an argument is offset + i*block_size over the dofs of its own table"))
            return
        for bm, want in exp.items():
            gl = got[bm]
            if len(gl) != len(want):
                fail(f"dof map {bm} holds {len(gl)} block(s), expected {len(want)}")
                continue
            for (ma, fici), g in zip(sorted(want), sorted(gl, key=lambda g_: tuple(md.f["ma_index"] for md in g_["ma_data"]))):
                trs = [tabs[names[a]] for a in ma]
                mas = tuple(md.f["ma_index"] for md in g["ma_data"])
                if mas != ma:
                    fail(f"block {bm} lists modified arguments {mas}, expected {ma}")
                    continue
                if any(md.f["tabledata"] is not t for md, t in zip(g["ma_data"], trs)):
                    fail(f"block of arguments {ma}: ma_data carries the table of another argument")
                if tuple(g["unames"]) != tuple(t.f["name"] for t in trs) or tuple(g["ttypes"]) != tuple(t.f["ttype"] for t in trs):
                    fail(f"block of arguments {ma}: table names/types {g['unames']}/{g['ttypes']} are not those of its arguments, in argument order")
                want_r = tuple(mts[names[a]].f["restriction"] for a, t in zip(ma, trs) if not t.f["is_uniform"])
                if tuple(g["restrictions"]) != want_r:
                    fail(f"block of arguments {[names[a] for a in ma]} records restrictions {tuple(g['restrictions'])}, expected {want_r}")
                if sorted(map(tuple, g["factor_indices_comp_indices"])) != sorted(fici):
                    fail(f"block of arguments {ma} is multiplied by factors {g['factor_indices_comp_indices']}, the factorisation says {fici}")
                if bool(g["all_factors_piecewise"]) != all(status[fi] == "piecewise" for fi, _c in fici):
                    fail(f"block of arguments {ma}: all_factors_piecewise = {g['all_factors_piecewise']} but its factors have status {[status[fi] for fi, _ in fici]}: "
                         "a varying factor would be hoisted out of the quadrature loop")
                if bool(g["is_permuted"]) != any(t.f["values"].f["shape"][0] > 1 for t in trs):
                    fail(f"block of arguments {ma}: is_permuted = {g['is_permuted']} but its tables have permutation axes {[t.f['values'].f['shape'][0] for t in trs]}")
                # positional lookup contract of the generators
                for a in ma:
                    if not (isinstance(argkeys, list) and a < len(argkeys) and argkeys[a] == a):
                        fail(f"argkeys = {argkeys}: the generators read modified_arguments[{a}] for argument node {a} ({names[a]}), which is node "
                             f"{argkeys[a] if isinstance(argkeys, list) and a < len(argkeys) else '?'}"
                             f" ({names[argkeys[a]] if isinstance(argkeys, list) and a < len(argkeys) and argkeys[a] < len(names) else '?'}): its restriction selects "
                             "entity_local_index / quadrature_permutation of the wrong cell")
                        break
        if isinstance(argkeys, list) and len(set(argkeys)) != len(argkeys):
            fail(f"argkeys = {argkeys} lists a node twice")
        want_active = {"FE_v", "FE_u"}   # f is inactive and in no block; the ones table is dropped
        if set(dict(active_tables)) != want_active or set(dict(active_types)) != want_active:
            fail(f"active tables are {sorted(dict(active_tables))} (types for {sorted(dict(active_types))}), expected {sorted(want_active)}: tables of inactive nodes and "
                 "zeros/ones tables are not emitted, every table a block or an active node refers to is")
        for i_ in range(4):
            if F_out.f["nodes"][i_].get("mt") is not mts[names[i_]] or F_out.f["nodes"][i_].get("tr") is not tabs[names[i_]]:
                fail(f"factorisation node {i_} ({names[i_]}) is annotated with mt/tr of another terminal")
                break

    run("bilinear interior-facet form, full tensor", "full")
    run("bilinear interior-facet form, diagonal", "diagonal")
    run("bilinear form without permuted tables", "full", perm_axis=1)
    run("linear interior-facet form", "full", rank2=False)
    run("linear form with part=diagonal", "diagonal", rank2=False)
    # consumer side: modified_arguments is built from argkeys in order
    g = m.func("compute_integral_ir")
    res.functions.add(g.key)
    key = f"{g.key}:modified_arguments"
    res.ob(key)
    from ..sliceint import find_store
    import ast

    found = None
    for n in ast.walk(g.node):
        if isinstance(n, ast.keyword) and n.arg == "modified_arguments":
            found = n.value
        if isinstance(n, ast.Dict):
            for k_, v_ in zip(n.keys, n.values):
                if isinstance(k_, ast.Constant) and k_.value == "modified_arguments":
                    found = v_
    if found is None and find_store(g.node, key="modified_arguments") is None:
        raise AnalysisError("compute_integral_ir: construction of modified_arguments not found")
    if found is None:
        found = find_store(g.node, key="modified_arguments")[1]
    it = Interp(repo, load_classes(repo), primary=IRI)
    Fs = Node("ExpressionGraph", nodes={i: {"mt": f"mt{i}"} for i in range(4)})
    it.ctx.append(m)
    try:
        names_ = {n.id for n in ast.walk(found) if isinstance(n, ast.Name) and isinstance(n.ctx, ast.Load)}
        env = {"F": Fs, "argkeys": [0, 1, 2, 3]}
        if not names_ - {"i", "k", "a", "ai"} <= set(env) | {"i", "k", "a", "ai"}:
            res.notes.append(f"modified_arguments is built from {sorted(names_)}; judged by GEN-BLOCKS / GEN-EXPR only")
        else:
            try:
                val = it.expr(found, env)
            except Raised as e:
                val = f"raises {e.what}"
            if val != ["mt0", "mt1", "mt2", "mt3"]:
                res.fail(key, f"modified_arguments built from argkeys [0, 1, 2, 3] is {val}; position m must hold the modified terminal of node m", m.line(g.node))
    finally:
        it.ctx.pop()
    _ = copy
