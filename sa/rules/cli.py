"""C20: command-line compiler, option precedence, header/source pairing, single pipeline.

OPT-PRECEDENCE   defaults < user file < cwd file < priority options (order of dict updates)
CLI-SENTINEL     the filter that builds priority options uses the sentinel every option argument
                 defaults to (argparse semantics)
PAIR-TEMPLATES   every `extern T {x};` of a declaration template is defined `T {x} =` in the paired
                 factory template; slot values agree; extern "C" braces balance
SUFFIX-ARITY     generators return tuples whose arity equals len(suffixes); format_code concatenates
                 column-wise; write_code zips strictly
SINGLE-PIPELINE  CLI and JIT both go through compiler.compile_ufl_objects, whose four stages are chained
ALIAS-NAMES      form_<prefix>_<name> / expression_<prefix>_<name> aliases from object_names
"""

from __future__ import annotations

import ast
import re
import string

from ..cfg import CFG
from ..flow import Slicer
from ..model import AnalysisError, call_name, calls_in, const_value, dotted, kwarg, walk_no_nested
from ..registry import rule

OPTIONS = "ffcx.options"
MAIN = "ffcx.main"


def _node_containing(cfg, target):
    ns = cfg.stmt_nodes_containing(target)
    if not ns:
        raise AnalysisError("cannot locate CFG node")
    return ns[0]


@rule(
    "OPT-PRECEDENCE",
    ["C20", "C10"],
    "get_options builds one dict: defaults first, then update(user file), update(cwd file), "
    "update(priority options) in this order on every path; _load_options returns (user, cwd) in that "
    "order, reading $XDG_CONFIG_HOME/ffcx/ffcx_options.json and $PWD/ffcx_options.json",
    min_instances=6,
)
def opt_precedence(repo, res):
    m = repo.mod(OPTIONS)
    go = m.func("get_options")
    lo = m.func("_load_options")
    res.functions.update({go.key, lo.key})
    # both functions are interpreted over a virtual file system and environment; the merged dict is compared with the documented precedence
    from ..absint import Interp, Node, PyNative, Raised, _PyCall
    from ..lnodes_model import load_classes

    class _P(PyNative):
        def __init__(self, *parts):
            self.p = "/".join(str(x).rstrip("/") if i < len(parts) - 1 else str(x) for i, x in enumerate(parts)).replace("//", "/")

        def __truediv__(self, o):
            return _P(self.p, o)

        def __rtruediv__(self, o):
            return _P(o, self.p)

        def joinpath(self, *o):
            return _P(self.p, *o)

        def __str__(self):
            return self.p

        def __fspath__(self):
            return self.p

        def __eq__(self, o):
            return str(o) == self.p

        def __hash__(self):
            return hash(self.p)

    table_node = m.assign("FFCX_DEFAULT_OPTIONS")
    try:
        defaults = {const_value(k): const_value(v.elts[1]) for k, v in zip(table_node.keys, table_node.values)}
    except Exception as e:
        raise AnalysisError(f"FFCX_DEFAULT_OPTIONS is not a literal table: {e}")

    def run(files, environ, priority):
        opened = []

        class _F(PyNative):
            def __init__(self, path):
                self.path = str(path)
                opened.append(self.path)
                if self.path not in files:
                    raise Raised(f"FileNotFoundError: {self.path}")

            def __enter__(self):
                return self

            def __exit__(self, *a):
                return False

        it = Interp(repo, load_classes(repo), primary=OPTIONS)
        it.overrides["Path"] = _PyCall(lambda *a: _P(*a))
        it.overrides["Path.home"] = _PyCall(lambda: _P("/home/u"))
        it.overrides["Path.cwd"] = _PyCall(lambda: _P("/work"))
        it.overrides["os.getcwd"] = _PyCall(lambda: "/work")
        it.overrides["os.path.join"] = _PyCall(lambda *a: str(_P(*a)))
        it.overrides["os.path.expanduser"] = _PyCall(lambda p_: str(p_).replace("~", "/home/u"))
        it.overrides["os.getenv"] = _PyCall(lambda k, default=None: environ.get(k, default))
        it.overrides["os.environ.get"] = _PyCall(lambda k, default=None: environ.get(k, default))
        it.overrides["os.environ"] = dict(environ)
        it.overrides["open"] = _PyCall(lambda p_, *a, **k: _F(p_))
        it.overrides["json.load"] = _PyCall(lambda f_: dict(files[f_.path]))
        it.overrides["logger"] = Node("Logger", info=_PyCall(lambda *a: None), debug=_PyCall(lambda *a: None), setLevel=_PyCall(lambda *a: None))
        it.overrides["pprint.pformat"] = _PyCall(lambda *a, **k: "")
        for t_ in ("str", "float", "int", "bool"):
            it.overrides.setdefault(t_, t_)
        out = it.call_f(go, [priority] if priority is not None else [])
        return out, opened

    user_xdg, user_home, pwd = "/xdg/ffcx/ffcx_options.json", "/home/u/.config/ffcx/ffcx_options.json", "/work/ffcx_options.json"
    U = {"verbosity": 10, "epsilon": 1.0, "table_rtol": 5.0}
    W = {"epsilon": 2.0, "table_rtol": 6.0}
    PR = {"table_rtol": 7.0}
    scenarios = [
        ("update-order", {user_xdg: U, pwd: W}, {"XDG_CONFIG_HOME": "/xdg"}, PR, {**defaults, **U, **W, **PR}),
        ("update-order:no-priority", {user_xdg: U, pwd: W}, {"XDG_CONFIG_HOME": "/xdg"}, None, {**defaults, **U, **W}),
        ("defaults-first", {}, {"XDG_CONFIG_HOME": "/xdg"}, None, dict(defaults)),
        ("priority-guard", {}, {}, {"scalar_type": "complex128"}, {**defaults, "scalar_type": "complex128"}),
        # falsy values given with priority are values like any other (--table_atol 0, verbosity 0, an explicit False)
        ("priority-falsy-values", {user_xdg: {"table_atol": 1.0, "verbosity": 10}, pwd: {"sum_factorization": True}}, {"XDG_CONFIG_HOME": "/xdg"},
         {"table_atol": 0.0, "verbosity": 0, "sum_factorization": False}, {**defaults, "table_atol": 0.0, "verbosity": 0, "sum_factorization": False}),
        ("priority-empty-dict", {pwd: W}, {}, {}, {**defaults, **W}),
        ("tuple-order:user-file-under-home-config", {user_home: U}, {}, None, {**defaults, **U}),
        ("tuple-order:pwd-file-only", {pwd: W}, {}, None, {**defaults, **W}),
        ("file-name:xdg-is-not-home", {user_home: U}, {"XDG_CONFIG_HOME": "/xdg"}, None, dict(defaults)),
    ]
    for label, files, environ, prio, want in scenarios:
        key = f"{go.key}:{label}"
        res.ob(key)
        try:
            got, opened = run(files, environ, prio)
        except Raised as e:
            res.fail(key, f"get_options raises ({e.what}) with option files {sorted(files)} and priority options {prio}", m.line(go.node))
            continue
        if not isinstance(got, dict):
            res.fail(key, f"get_options returns {type(got).__name__}", m.line(go.node))
            continue
        if got != want:
            diff = {k_: (got.get(k_, '<missing>'), want.get(k_, '<absent>')) for k_ in sorted(set(got) | set(want)) if got.get(k_, '<missing>') != want.get(k_, '<absent>')}
            res.fail(key, f"with user file {files.get(user_xdg, files.get(user_home))}, $PWD file {files.get(pwd)} and priority options {prio} the merged options differ "
                     f"from the documented precedence defaults < user file < $PWD file < priority options: {{option: (got, expected)}} = {diff} "
                     f"(files opened: {opened})", m.line(go.node))
    # option table well-formed: every default passes its own choices
    table = m.assign("FFCX_DEFAULT_OPTIONS")
    try:
        opts = {}
        for k, v in zip(table.keys, table.values):
            name = const_value(k)
            ty = dotted(v.elts[0])
            default = const_value(v.elts[1])
            choices = const_value(v.elts[3])
            opts[name] = (ty, default, choices)
    except Exception as e:
        raise AnalysisError(f"FFCX_DEFAULT_OPTIONS is not a literal table: {e}")
    for name, (ty, default, choices) in opts.items():
        key = f"{OPTIONS}:default:{name}"
        res.ob(key)
        if choices is not None and default not in choices:
            res.fail(key, f"default {default!r} of option {name} is not among its choices {choices}", m.line(table))
        pyty = {"str": str, "float": float, "int": int, "bool": bool}.get(ty)
        if pyty and not isinstance(default, pyty):
            res.fail(key, f"default {default!r} of option {name} is not of the declared type {ty}", m.line(table))


@rule(
    "CLI-SENTINEL",
    ["C20"],
    "main() forwards exactly the options the user gave: the filter building priority_options compares "
    "against the same sentinel that every option argument defaults to (argparse: store_true defaults "
    "to False unless default= is given)",
    min_instances=3,
)
def cli_sentinel(repo, res):
    m = repo.mod(MAIN)
    mainf = m.func("main")
    res.functions.add(mainf.key)
    # sentinel of the filter
    sentinel = "?"
    filt = None
    for n in walk_no_nested(mainf.node):
        if isinstance(n, ast.DictComp) and ("__dict__" in ast.unparse(n.generators[0].iter) or "vars(" in ast.unparse(n.generators[0].iter)):
            filt = n
    key = f"{mainf.key}:priority-filter"
    res.ob(key)
    if filt is None:
        res.fail(key, "main() no longer filters the parsed arguments before passing them as priority options: argparse "
                 "defaults override ffcx_options.json", m.line(mainf.node))
        return
    conds = filt.generators[0].ifs
    if len(conds) == 1 and isinstance(conds[0], ast.Compare) and isinstance(conds[0].ops[0], ast.IsNot) \
            and isinstance(conds[0].comparators[0], ast.Constant):
        sentinel = conds[0].comparators[0].value
    else:
        res.fail(key, f"priority filter `{' and '.join(ast.unparse(c) for c in conds) or 'none'}` is not of the form `v is not <sentinel>`", m.line(filt))
        return
    # option arguments: add_argument calls in the loop over FFCX_DEFAULT_OPTIONS (module level)
    loops = [n for n in m.tree.body if isinstance(n, ast.For) and "FFCX_DEFAULT_OPTIONS" in ast.unparse(n.iter)]
    if not loops:
        raise AnalysisError("main.py: loop adding the FFCx options to the parser not found")
    n_calls = 0
    for c in calls_in(loops[0]):
        if not (isinstance(c.func, ast.Attribute) and c.func.attr == "add_argument"):
            continue
        n_calls += 1
        action = kwarg(c, "action")
        action = action.value if isinstance(action, ast.Constant) else None
        d = kwarg(c, "default")
        if d is not None:
            try:
                eff = const_value(d)
            except ValueError:
                eff = "<non-literal>"
                # default taken from the option table (e.g. default=opt_val): evaluate it per option
                tgt = loops[0].target
                if isinstance(d, ast.Name) and isinstance(tgt, ast.Tuple) and len(tgt.elts) == 2 and isinstance(tgt.elts[1], ast.Tuple):
                    names = [getattr(e, "id", None) for e in tgt.elts[1].elts]
                    if d.id in names:
                        pos = names.index(d.id)
                        try:
                            tab = repo.mod(OPTIONS).assign("FFCX_DEFAULT_OPTIONS")
                            vals = {const_value(k): (const_value(v.elts[pos]) if not isinstance(v.elts[pos], (ast.Name, ast.Attribute)) else "<type>") for k, v in zip(tab.keys, tab.values)}
                        except Exception as e:
                            raise AnalysisError(f"CLI-SENTINEL: cannot evaluate default `{ast.unparse(d)}`: {e}")
                        offenders = sorted(k for k, v in vals.items() if v is not sentinel)
                        if offenders:
                            eff = f"the table value of each option (e.g. {offenders[0]}={vals[offenders[0]]!r})"
                if eff == "<non-literal>":
                    raise AnalysisError(f"CLI-SENTINEL: default `{ast.unparse(d)}` of an option argument cannot be evaluated")
        elif action == "store_true":
            eff = False
        elif action == "store_false":
            eff = True
        elif action in ("count",):
            eff = None
        else:
            eff = None
        key = f"{MAIN}:option-argument:{action or 'store'}"
        res.ob(key)
        if eff is not sentinel:
            res.fail(key, f"option arguments with action={action!r} default to {eff!r} but main() only drops values that are "
                     f"{sentinel!r}: an option the user did not pass still overrides ffcx_options.json "
                     "(e.g. {\"sum_factorization\": true} in the JSON file is reset to False)", m.line(c))
    if n_calls < 2:
        raise AnalysisError("main.py: expected add_argument calls for bool and non-bool options")
    # priority_options reach get_options and the result reaches the compiler
    key = f"{mainf.key}:options-flow"
    res.ob(key)
    sl = Slicer(mainf.node)
    cc = [c for c in calls_in(mainf.node) if (call_name(c) or "").endswith("compile_ufl_objects")]
    if len(cc) != 1:
        raise AnalysisError("main(): compile_ufl_objects call not found")
    ov = kwarg(cc[0], "options") or (cc[0].args[1] if len(cc[0].args) > 1 else None)
    if ov is None or "get_options(" not in sl.text(ov) or "__dict__" not in sl.text(ov) and "vars(" not in sl.text(ov):
        res.fail(key, "the options passed to the compiler are not get_options(<command-line values>)", m.line(cc[0]))


def _template_strings(mod):
    out = {}
    for name, val in mod.assigns.items():
        if isinstance(val, ast.Constant) and isinstance(val.value, str):
            out[name] = val.value
    return out


def _fields(tmpl: str) -> list[str]:
    return [f for _, f, _, _ in string.Formatter().parse(tmpl) if f]


def _literal(tmpl: str) -> str:
    """Template with {{ }} unescaped and slots kept as {name}."""
    out = ""
    for lit, f, spec, conv in string.Formatter().parse(tmpl):
        out += lit
        if f is not None:
            out += "{" + f + "}"
    return out


C_TEMPLATES = {
    "form": ("ffcx.codegeneration.C.form_template", "ffcx.codegeneration.C.form"),
    "expression": ("ffcx.codegeneration.C.expression_template", "ffcx.codegeneration.C.expression"),
    "integral": ("ffcx.codegeneration.C.integral_template", "ffcx.codegeneration.C.integral"),
}


@rule(
    "PAIR-TEMPLATES",
    ["C20", "C19"],
    "every object declared `extern T {x};` in a C declaration template is defined `T {x} =` in the paired "
    "factory template with the same slot and type, the generator feeds both slots from the same value, "
    "and the extern \"C\" block of the header is closed",
    min_instances=8,
)
def pair_templates(repo, res):
    for kind, (tmod, gmod) in C_TEMPLATES.items():
        tm = repo.mod(tmod)
        gm = repo.mod(gmod)
        ts = _template_strings(tm)
        if "declaration" not in ts or "factory" not in ts:
            raise AnalysisError(f"{tmod}: declaration/factory templates not found")
        decl, fac = _literal(ts["declaration"]), _literal(ts["factory"])
        externs = re.findall(r"extern\s+([A-Za-z_][\w]*\s*\*?)\s*\{(\w+)\}\s*;", decl)
        if not externs:
            raise AnalysisError(f"{tmod}: no extern declaration in the declaration template")
        for cty, slot in externs:
            key = f"{tmod}:extern:{cty.strip()}:{slot}"
            res.ob(key)
            ty = re.sub(r"\s+", "", cty)
            pat = re.compile(r"(?m)^\s*" + re.escape(ty.rstrip("*")) + r"\s*" + (r"\*\s*" if ty.endswith("*") else r"") + r"\{" + slot + r"\}\s*=")
            if not pat.search(fac):
                res.fail(key, f"`extern {cty.strip()} {{{slot}}};` is declared in the header template but the source "
                         f"template has no definition `{cty.strip()} {{{slot}}} =`", tm.rel)
        # alias points to the object
        if kind in ("form", "expression"):
            key = f"{tmod}:alias-target"
            res.ob(key)
            if not re.search(r"\{name_from_uflfile\}\s*=\s*&\{factory_name\}\s*;", fac):
                res.fail(key, "the alias {name_from_uflfile} is not initialised with &{factory_name}", tm.rel)
        # generator: interpreted on a small sample IR; what the header text declares must be what the source text defines, in the
        # order (declaration, implementation)
        from ..absint import Raised as _RaisedPT
        from .genintegral import sample_form_output, sample_generator_output

        g = gm.func("generator")
        res.functions.add(g.key)
        key = f"{gmod}:declared-is-defined"
        res.ob(key)
        try:
            out = sample_form_output(repo, "C")[0] if kind == "form" else sample_generator_output(repo, "C", kind)[0]
        except _RaisedPT as e:
            res.fail(key, f"C {kind} generator raises ({e.what}) on the sample IR", gm.line(g.node))
            continue
        if not (isinstance(out, tuple) and len(out) == 2):
            res.fail(key, "generator does not return a (declaration, implementation) pair", gm.line(g.node))
            continue
        hdr, src = out
        declared = re.findall(r"extern\s+([A-Za-z_]\w*\s*\*?)\s*([A-Za-z_]\w*)\s*;", hdr)
        if not declared:
            res.fail(key, f"the first text the C {kind} generator returns declares nothing (`extern ...;`): header and source text swapped?", gm.line(g.node))
        if re.search(r"(?m)^\s*[A-Za-z_][\w\s\*]*\b[A-Za-z_]\w*\s*(\[[^\]]*\])?\s*=\s*[^=]", hdr):
            res.fail(key, f"the header text of the C {kind} generator contains a definition: every file including it would define the object", gm.line(g.node))
        for cty, name in declared:
            ty = re.sub(r"\s+", "", cty)
            pat = re.compile(r"(?m)^\s*" + re.escape(ty.rstrip("*")) + r"\s*" + (r"\*\s*" if ty.endswith("*") else r"") + re.escape(name) + r"\s*=")
            if not pat.search(src):
                res.fail(key, f"the header declares `extern {cty.strip()} {name};` but the source text of the same object has no definition `{cty.strip()} {name} =`: "
                         "header and source are formatted with different names", gm.line(g.node))
    # file templates
    ft = repo.mod("ffcx.codegeneration.C.file_template")
    ts = _template_strings(ft)
    key = "ffcx.codegeneration.C.file_template:extern-c-balanced"
    res.ob(key)
    pre, post = _literal(ts.get("declaration_pre", "")), _literal(ts.get("declaration_post", ""))
    opens = len(re.findall(r'extern\s+"C"\s*\{', pre))
    closes = post.count("}")
    if opens != 1 or closes != 1 or pre.count("#ifdef __cplusplus") != 1 or post.count("#ifdef __cplusplus") != 1 or "#endif" not in post:
        res.fail(key, f"header prologue opens {opens} extern \"C\" block(s) and the epilogue closes {closes}", ft.rel)
    key = "ffcx.codegeneration.C.file_template:includes"
    res.ob(key)
    ipre = _literal(ts.get("implementation_pre", ""))
    for inc in ("<math.h>", "<ufcx.h>"):
        if f"#include {inc}" not in ipre:
            res.fail(key, f"source prologue lacks #include {inc}", ft.rel)
    if "#include <ufcx.h>" not in pre or "#pragma once" not in pre:
        res.fail(key, "header prologue lacks `#pragma once` / `#include <ufcx.h>`", ft.rel)
    if "{extra_c_includes}" not in ipre:
        res.fail(key, "source prologue has no slot for <complex.h>", ft.rel)
    # file generator (interpreted): header text = pre[0] ... post[0] opens and closes one extern "C" block; source text = pre[1] ... post[1]
    from ..absint import Raised as _RaisedPT2
    from .genintegral import sample_file_output

    fg = repo.mod("ffcx.codegeneration.C.file").func("generator")
    res.functions.add(fg.key)
    key = f"{fg.key}:pre-post-order"
    res.ob(key)
    try:
        (fpre, fpost), _g = sample_file_output(repo, "C", "complex128")
        hdr, src = fpre[0] + "\n/* objects */\n" + fpost[0], fpre[1] + "\n/* objects */\n" + fpost[1]
        ok = (len(re.findall(r'extern\s+"C"\s*\{', fpre[0])) == 1 and "}" in fpost[0] and "#pragma once" in fpre[0] and "#include <ufcx.h>" in fpre[0]
              and "#include <math.h>" in fpre[1] and "#include <complex.h>" in fpre[1] and 'extern "C"' not in src and hdr.count("{") == hdr.count("}"))
    except (_RaisedPT2, IndexError, TypeError) as e:
        ok = False
    if not ok:
        res.fail(key, "C file generator does not return ((header prologue, source prologue), (header epilogue, source epilogue)): the header must open and close its "
                 "extern \"C\" block around the declarations, the source must include <math.h> (and <complex.h> in complex mode) before the kernels",
                 "ffcx/codegeneration/C/file.py")


@rule(
    "SUFFIX-ARITY",
    ["C20", "C18"],
    "for each backend, len(suffixes) equals the arity of every generator's result; format_code "
    "concatenates the i-th components of all blocks into the i-th file in the order file_pre, integrals, "
    "forms, expressions, file_post; write_code pairs files with suffixes strictly",
    min_instances=10,
)
def suffix_arity(repo, res):
    for be in ("C", "numba"):
        base = f"ffcx.codegeneration.{be}"
        fm = repo.mod(f"{base}.file")
        try:
            suffixes = const_value(fm.assign("suffixes"))
        except ValueError:
            raise AnalysisError(f"{base}.file.suffixes is not a literal")
        n = len(suffixes)
        key = f"{base}.file:suffixes"
        res.ob(key)
        want = (".h", ".c") if be == "C" else ("_numba.py",)
        if tuple(suffixes) != want:
            res.fail(key, f"{be} backend writes files with suffixes {suffixes}, documented {want}", fm.rel)
        # arity of what each generator returns: the generators are interpreted on small sample IRs
        from ..absint import Raised as _RaisedSA
        from .genintegral import sample_file_output, sample_form_output, sample_generator_output

        for gname in ("integral", "form", "expression"):
            g = repo.mod(f"{base}.{gname}").func("generator")
            res.functions.add(g.key)
            key = f"{g.key}:arity"
            res.ob(key)
            try:
                out = sample_form_output(repo, be)[0] if gname == "form" else sample_generator_output(repo, be, gname)[0]
            except _RaisedSA as e:
                res.fail(key, f"{g.key} raises ({e.what}) on the sample IR", g.module.line(g.node))
                continue
            k = len(out) if isinstance(out, tuple) else None
            if k != n or not all(isinstance(t_, str) for t_ in out):
                res.fail(key, f"{g.key} returns {k} part(s) but the backend writes {n} file(s) {tuple(suffixes)}", g.module.line(g.node))
        g = fm.func("generator")
        res.functions.add(g.key)
        key = f"{g.key}:arity"
        res.ob(key)
        try:
            out = sample_file_output(repo, be)[0]
        except _RaisedSA as e:
            res.fail(key, f"{g.key} raises ({e.what})", fm.line(g.node))
            continue
        if not (isinstance(out, tuple) and len(out) == 2):
            res.fail(key, "file generator must return (pre, post)", fm.line(g.node))
            continue
        for part in out:
            k = len(part) if isinstance(part, (tuple, list)) else None
            if k != n or not all(isinstance(t_, str) for t_ in part):
                res.fail(key, f"a part of what the file generator returns has {k} components, expected {n} texts (one per file)", fm.line(g.node))
    # format_code
    fmod = repo.mod("ffcx.formatting")
    fc = fmod.func("format_code")
    res.functions.add(fc.key)
    from ..absint import Interp, Node, PyNative, Raised, _PyCall
    from ..lnodes_model import load_classes

    def fresh():
        it_ = Interp(repo, load_classes(repo), primary="ffcx.formatting")
        it_.overrides["logger"] = Node("Logger", info=_PyCall(lambda *a: None), debug=_PyCall(lambda *a: None))
        return it_

    block_samples = {
        "header+source, empty forms block": ([("h0", "s0")], [("h1", "s1"), ("h2", "s2")], [], [("h3", "s3")], [("h4", "s4")]),
        "single file": ([("p0",)], [("p1",), ("p2",)], [("p3",)], [], [("p4",)]),
        "three files": ([("a0", "b0", "c0")], [], [("a1", "b1", "c1")], [], [("a2", "b2", "c2")]),
    }
    for label, blocks in block_samples.items():
        key = f"{fc.key}:column-wise:{label}"
        res.ob(key)
        nfiles = len(blocks[0][0])
        want = ["".join(c[i] for block in blocks for c in block) for i in range(nfiles)]
        try:
            got = fresh().call_f(fc, [tuple(list(b_) for b_ in blocks)])
            got = list(got)
        except Raised as e:
            got = f"raises {e.what}"
        if got != want:
            res.fail(key, f"format_code on `{label}` gives {got}; file i must be the i-th component of every entry, block by block, in order: {want}",
                     fmod.line(fc.node))
    cg = repo.mod("ffcx.codegeneration.codegeneration")
    cb = cg.cls("CodeBlocks")
    fields = [st.target.id for st in cb.body if isinstance(st, ast.AnnAssign)]
    key = "ffcx.codegeneration.codegeneration:CodeBlocks:order"
    res.ob(key)
    if fields != ["file_pre", "integrals", "forms", "expressions", "file_post"]:
        res.fail(key, f"CodeBlocks fields are {fields}: blocks are concatenated in field order, so prologue/epilogue or "
                 "definition order is broken", cg.rel)
    gc = cg.func("generate_code")
    res.functions.add(gc.key)
    key = f"{gc.key}:blocks"
    res.ob(key)
    sl = Slicer(gc.node)
    for c in calls_in(gc.node):
        if call_name(c) == "CodeBlocks":
            for k in c.keywords:
                t = sl.text(k.value)
                need = {"file_pre": "code_file_pre", "file_post": "code_file_post", "integrals": "integral_generator", "forms": "form_generator",
                        "expressions": "expression_generator"}[k.arg]
                if need not in t:
                    res.fail(key, f"CodeBlocks.{k.arg} is filled from `{ast.unparse(k.value)}`", cg.line(c))
    key = f"{gc.key}:suffixes-of-same-backend"
    res.ob(key)
    rets = [x for x in walk_no_nested(gc.node) if isinstance(x, ast.Return)]
    if not rets or "mod.file.suffixes" not in ast.unparse(rets[0].value):
        res.fail(key, "generate_code does not return the suffixes of the backend module that generated the code", cg.line(gc.node))
    wc = fmod.func("write_code")
    class _P(PyNative):
        def __init__(self, p_):
            self.p = str(p_)

        def __truediv__(self, o):
            return _P(self.p.rstrip("/") + "/" + str(o))

        def __str__(self):
            return self.p

        def __fspath__(self):
            return self.p

        def joinpath(self, *o):
            out = self
            for x in o:
                out = out / x
            return out

        def with_suffix(self, suf):
            head, _, tail = self.p.rpartition("/")
            stem = tail.rsplit(".", 1)[0] if "." in tail[1:] else tail
            return _P((head + "/" if head else "") + stem + suf)

        def with_name(self, name):
            head, _, _tail = self.p.rpartition("/")
            return _P((head + "/" if head else "") + str(name))

        # the pathlib ways of writing a file go through the same virtual files as the builtin open()
        def open(self, mode="r", **k):
            return _P.opener(self.p, mode)

        def write_text(self, text, **k):
            f_ = _P.opener(self.p, "w")
            f_.write(text)
            return len(text)

    def run_write(code, suffixes):
        written = {}

        class _F(PyNative):
            def __init__(self, p_, mode="r", **k):
                self.p, self.mode = str(p_), mode
                if "w" in mode:
                    written[self.p] = ""

            def write(self, t):
                if "w" not in self.mode and "a" not in self.mode:
                    raise Raised("io.UnsupportedOperation: not writable")
                written[self.p] = written.get(self.p, "") + t

            def close(self):
                pass

            def __enter__(self):
                return self

            def __exit__(self, *a):
                return False
        it_ = fresh()
        _P.opener = staticmethod(lambda p_, mode="r": _F(p_, mode))
        for nm in ("Path", "pathlib.Path"):
            it_.overrides[nm] = _PyCall(lambda *p_: _P(p_[0]).joinpath(*p_[1:]) if p_ else _P("."))
        it_.overrides["open"] = _PyCall(lambda p_, mode="r", **k: _F(p_, mode))
        it_.overrides["os.path.join"] = _PyCall(lambda *a: "/".join(str(x).rstrip("/") for x in a))
        try:
            it_.call_f(wc, [list(code), "pre", tuple(suffixes), "out"])
        except Raised as e:
            return f"raises {e.what}"
        return written

    key = f"{wc.key}:path"
    res.ob(key)
    got = run_write(["HEADER", "SOURCE"], (".h", ".c"))
    if got != {"out/pre.h": "HEADER", "out/pre.c": "SOURCE"}:
        res.fail(key, f"write_code(['HEADER', 'SOURCE'], 'pre', ('.h', '.c'), 'out') writes {got}; expected out/pre.h and out/pre.c with the "
                 "header and the source", fmod.line(wc.node))
    key = f"{wc.key}:strict-zip"
    res.ob(key)
    got = run_write(["HEADER", "SOURCE"], (".h",))
    if not (isinstance(got, str) and got.startswith("raises")):
        res.fail(key, f"write_code with two texts and one suffix writes {got} instead of failing: a missing file is silently dropped", fmod.line(wc.node))


@rule(
    "SINGLE-PIPELINE",
    ["C20"],
    "the CLI and the JIT both generate code only through compiler.compile_ufl_objects, whose stages "
    "analysis -> IR -> code generation -> formatting are chained on each other's results with the same "
    "options, namespace and object names",
    min_instances=8,
)
def single_pipeline(repo, res):
    comp = repo.mod("ffcx.compiler")
    f = comp.func("compile_ufl_objects")
    res.functions.add(f.key)
    sl = Slicer(f.node)
    stages = [("analyze_ufl_objects", None), ("compute_ir", "analyze_ufl_objects"), ("generate_code", "compute_ir"), ("format_code", "generate_code")]
    calls = {}
    for name, _ in stages:
        cs = [c for c in calls_in(f.node) if (call_name(c) or "").split(".")[-1] == name]
        key = f"{f.key}:stage:{name}"
        res.ob(key)
        if len(cs) != 1:
            res.fail(key, f"compile_ufl_objects calls {name} {len(cs)} times", comp.line(f.node))
            continue
        calls[name] = cs[0]
    for name, prev in stages:
        if prev is None or name not in calls or prev not in calls:
            continue
        key = f"{f.key}:chain:{prev}->{name}"
        res.ob(key)
        a0 = calls[name].args[0] if calls[name].args else None
        if a0 is None or prev + "(" not in sl.text(a0):
            res.fail(key, f"{name} is not applied to the result of {prev}", comp.line(calls[name]))
    key = f"{f.key}:options-to-both"
    res.ob(key)
    for name in ("compute_ir", "generate_code"):
        if name in calls and "options" not in {n.id for a in calls[name].args for n in ast.walk(a) if isinstance(n, ast.Name)}:
            res.fail(key, f"{name} does not receive the options", comp.line(calls[name]))
    if "analyze_ufl_objects" in calls and "scalar_type" not in ast.unparse(calls["analyze_ufl_objects"]):
        res.fail(key, "analysis does not receive options['scalar_type']", comp.line(calls["analyze_ufl_objects"]))
    key = f"{f.key}:names-and-namespace"
    res.ob(key)
    if "compute_ir" in calls:
        t = " ".join(sl.text(a) for a in calls["compute_ir"].args)
        if "object_names" not in t or "namespace" not in t:
            res.fail(key, "compute_ir does not receive object_names / namespace", comp.line(calls["compute_ir"]))
    key = f"{f.key}:returns-formatted"
    res.ob(key)
    rets = [x for x in walk_no_nested(f.node) if isinstance(x, ast.Return)]
    if not rets or "format_code(" not in sl.text(rets[0].value):
        res.fail(key, "compile_ufl_objects does not return the formatted code", comp.line(f.node))
    # who may generate: only compiler.compile_ufl_objects calls generate_code / format_code
    for m in repo.modules.values():
        for g in m.funcs.values():
            for c in calls_in(g.node):
                nm = (call_name(c) or "").split(".")[-1]
                if nm in ("generate_code", "format_code", "compute_ir") and g.key != f.key:
                    res.fail(f"{g.key}:side-pipeline", f"{g.key} calls {nm} directly, bypassing compile_ufl_objects", m.line(c))
    mainf = repo.mod(MAIN).func("main")
    jitf = repo.mod("ffcx.codegeneration.jit").func("_compile_objects")
    for g in (mainf, jitf):
        key = f"{g.key}:uses-pipeline"
        res.ob(key)
        cs = [c for c in calls_in(g.node) if (call_name(c) or "").endswith("compile_ufl_objects")]
        if len(cs) != 1:
            res.fail(key, f"{g.key} does not call compiler.compile_ufl_objects exactly once", g.module.line(g.node))
    # main writes what it compiled
    key = f"{mainf.key}:writes-compiled"
    res.ob(key)
    msl = Slicer(mainf.node)
    wc = [c for c in calls_in(mainf.node) if (call_name(c) or "").endswith("write_code")]
    if len(wc) != 1 or "compile_ufl_objects(" not in msl.text(wc[0].args[0]) or "compile_ufl_objects(" not in msl.text(wc[0].args[2]):
        res.fail(key, "main() does not write the code and suffixes returned by compile_ufl_objects", repo.mod(MAIN).line(mainf.node))
    elif "outfile" not in msl.text(wc[0].args[1]) or "dir" not in ast.unparse(wc[0].args[3]):
        res.fail(key, "main() does not write to <dir>/<outfile stem>", repo.mod(MAIN).line(wc[0]))
    # JIT takes the implementation file (index 1) of the C pair
    key = f"{jitf.key}:takes-source-part"
    res.ob(key)
    ok = any(isinstance(n, ast.Subscript) and isinstance(n.slice, ast.Constant) and n.slice.value == 1 and "code" in ast.unparse(n.value)
             for n in walk_no_nested(jitf.node))
    if not ok:
        res.fail(key, "_compile_objects no longer passes code[1] (the .c text) to cffi", "ffcx/codegeneration/jit.py")


@rule(
    "ALIAS-NAMES",
    ["C20", "C19"],
    "the alias of an expression is expression_<prefix>_<name> with <name> registered in object_names under the identity of the ORIGINAL "
    "expression, the position in the module otherwise (slice of _compute_expression_ir interpreted; forms: FORM-IR-SOURCES); "
    "compute_ir, interpreted on object lists, refuses a module in which two objects get the same alias (the same expression at "
    "two point sets, the same form listed twice): the header would declare the alias twice and the source define it twice",
    min_instances=5,
)
def alias_names(repo, res):
    from ..absint import Interp, Node, Raised, _PyCall
    from ..lnodes_model import load_classes
    from ..sliceint import value_of
    from ._irsamples import IRSamples

    rep = repo.mod("ffcx.ir.representation")
    g = rep.func("_compute_expression_ir")
    res.functions.add(g.key)
    S = IRSamples(repo)

    def alias(names_for, index=0):
        it, env = S.expression(g)
        processed, _pts, original = env[g.params[0]]
        env["index"] = index
        env["object_names"] = {id({"processed": processed, "original": original}[k]): v for k, v in names_for.items()}
        try:
            return value_of(it, g, env, key="name_from_uflfile")
        except Raised as e:
            return f"raises {e.what}"

    for label, names_for, index, want in (("named original expression", {"original": "flux"}, 0, "expression_p_flux"), ("unnamed expression, position 3", {}, 3, "expression_p_3"),
                                          ("a name registered for the processed expression only", {"processed": "wrong"}, 1, "expression_p_1")):
        key = f"{g.key}:alias:{label}"
        res.ob(key)
        got = alias(names_for, index)
        if got != want:
            res.fail(key, f"{label}: the alias is {got!r}, expected {want!r} (expression_<prefix>_<name of the original expression, or its position>)", rep.line(g.node))
    # uniqueness of aliases within one module
    ci = rep.func("compute_ir")
    res.functions.add(ci.key)

    def run(forms, exprs, names):
        it = Interp(repo, load_classes(repo), primary="ffcx.ir.representation")
        it.overrides["logger"] = Node("Logger", info=_PyCall(lambda *a: None), debug=_PyCall(lambda *a: None))
        it.overrides["naming.form_name"] = _PyCall(lambda form, i, prefix: f"form_{i}_{prefix}")
        it.overrides["naming.integral_name"] = _PyCall(lambda form, t, i, sid, prefix: f"integral_{i}_{t}")
        it.overrides["naming.expression_name"] = _PyCall(lambda e, prefix, i=None: f"expression_{i}_{prefix}")
        it.overrides["_compute_integral_ir"] = _PyCall(lambda fd, i, els, inames, opts, vis: [])
        it.overrides["_compute_form_ir"] = _PyCall(lambda fd, i, prefix, fnames, inames, idom, onames, part:
                                                    Node("FormIR", name=fnames[i], name_from_uflfile=f"form_{prefix}_{onames.get(id(fd.f['original_form']), i)}"))
        it.overrides["_compute_expression_ir"] = _PyCall(lambda e, i, prefix, an, opts, vis, onames:
                                                          Node("ExpressionIR", name=f"expression_{i}", name_from_uflfile=f"expression_{prefix}_{onames.get(id(e[2]), i)}"))
        it.overrides["TensorPart.from_str"] = _PyCall(lambda s_: "TensorPart.full")
        it.overrides["DataIR"] = _PyCall(lambda **k: Node("DataIR", **k))
        it.overrides["id"] = _PyCall(lambda o: id(o))
        it.overrides["itertools.chain"] = _PyCall(lambda *a: [x for l_ in a for x in l_])
        fds = [Node("FormData", original_form=f_, integral_data=[]) for f_ in forms]
        an = Node("UFLData", form_data=fds, expressions=list(exprs), element_numbers={}, unique_elements=[])
        return it.call_f(ci, [an, names, "p", {"part": "full", "scalar_type": "float64"}, False])

    fa, fb = Node("Form", name="a"), Node("Form", name="b")
    e1, e2 = Node("Expr", name="flux"), Node("Expr", name="stress")
    ok_cases = [("two named forms, two named expressions", [fa, fb], [("p1", "pts1", e1), ("p2", "pts1", e2)], {id(fa): "a", id(fb): "L", id(e1): "flux", id(e2): "stress"}),
                ("unnamed objects", [fa, fb], [("p1", "pts1", e1), ("p1b", "pts2", e1)], {})]
    bad_cases = [("the same named expression at two point sets", [fa], [("p1", "pts1", e1), ("p1b", "pts2", e1)], {id(fa): "a", id(e1): "flux"}),
                 ("the same named form listed twice", [fa, fa], [], {id(fa): "a"}),
                 ("two objects given one name", [fa, fb], [], {id(fa): "a", id(fb): "a"})]
    for label, forms, exprs, names in ok_cases:
        key = f"{ci.key}:aliases:{label}"
        res.ob(key)
        try:
            out = run(forms, exprs, names)
            al = [x.f["name_from_uflfile"] for x in out.f["forms"] + out.f["expressions"]]
            if len(set(al)) != len(al):
                res.fail(key, f"{label}: aliases {al} are not distinct", rep.line(ci.node))
        except Raised as e:
            res.fail(key, f"compute_ir rejects {label} ({e.what})", rep.line(ci.node))
    for label, forms, exprs, names in bad_cases:
        key = f"{ci.key}:aliases:{label}"
        res.ob(key)
        try:
            out = run(forms, exprs, names)
            al = [x.f["name_from_uflfile"] for x in out.f["forms"] + out.f["expressions"]]
            res.fail(key, f"{label}: compute_ir returns a module whose aliases are {al}: `extern ufcx_... * {sorted(a for a in al if al.count(a) > 1)[0]};` is declared twice in "
                     "the header and defined twice in the source (redefinition error in the C compiler instead of a Python exception)", rep.line(ci.node))
        except Raised:
            pass


@rule(
    "DIAG-TO-FORM",
    ["C10", "C06"],
    "compute_ir, interpreted with stubbed per-object IR functions: the form IR and the integral IR of every form are computed under the "
    "`part` the caller's options name (diagonal -> TensorPart.diagonal for the form descriptor's rank, the same options dict for the "
    "integrals), for each form of the module",
    min_instances=2,
)
def diag_to_form(repo, res):
    from ..absint import Interp, Node, Raised, _PyCall
    from ..lnodes_model import load_classes

    rep = repo.mod("ffcx.ir.representation")
    ci = rep.func("compute_ir")
    res.functions.add(ci.key)
    for part in ("diagonal", "full"):
        key = f"{ci.key}:part-handed-on:{part}"
        res.ob(key)
        it = Interp(repo, load_classes(repo), primary="ffcx.ir.representation")
        it.overrides["logger"] = Node("Logger", info=_PyCall(lambda *a: None), debug=_PyCall(lambda *a: None))
        it.overrides["naming.form_name"] = _PyCall(lambda form, i, prefix: f"form_{i}_{prefix}")
        it.overrides["naming.integral_name"] = _PyCall(lambda form, t, i, sid, prefix, k=None: f"integral_{i}_{t}_{k}")
        it.overrides["naming.expression_name"] = _PyCall(lambda e, prefix, i=None: f"expression_{i}_{prefix}")
        seen = {"form": [], "integral": []}
        it.overrides["_compute_integral_ir"] = _PyCall(lambda fd, i, els, inames, opts, vis: seen["integral"].append((i, dict(opts))) or [])
        it.overrides["_compute_form_ir"] = _PyCall(lambda fd, i, prefix, fnames, inames, idom, onames, part_:
                                                    seen["form"].append((i, part_)) or Node("FormIR", name=fnames[i], name_from_uflfile=f"form_{prefix}_{i}"))
        it.overrides["_compute_expression_ir"] = _PyCall(lambda e, i, prefix, an, opts, vis, onames: Node("ExpressionIR", name=f"expression_{i}", name_from_uflfile=f"expression_{prefix}_{i}"))
        it.overrides["TensorPart.from_str"] = _PyCall(lambda s_: f"TensorPart.{s_}")
        it.overrides["DataIR"] = _PyCall(lambda **k: Node("DataIR", **k))
        it.overrides["id"] = _PyCall(lambda o: id(o))
        it.overrides["itertools.chain"] = _PyCall(lambda *a: [x for l_ in a for x in l_])
        fds = [Node("FormData", original_form=Node("Form", name=n_), integral_data=[]) for n_ in ("a", "L")]
        an = Node("UFLData", form_data=fds, expressions=[], element_numbers={}, unique_elements=[])
        opts = {"part": part, "scalar_type": "float64", "sum_factorization": False}
        try:
            it.call_f(ci, [an, {}, "p", opts, False])
        except Raised as e:
            res.fail(key, f"compute_ir raises ({e.what}) on two forms with part={part!r}", rep.line(ci.node))
            continue
        if seen["form"] != [(0, f"TensorPart.{part}"), (1, f"TensorPart.{part}")]:
            res.fail(key, f"with options part={part!r} the form IRs are computed under {seen['form']}, expected TensorPart.{part} for both forms: the descriptor's rank "
                     "and the kernels' tensor shape must follow the same option", rep.line(ci.node))
        if [(i, o.get("part")) for i, o in seen["integral"]] != [(0, part), (1, part)]:
            res.fail(key, f"with options part={part!r} the integral IRs are computed with {[(i, o.get('part')) for i, o in seen['integral']]}", rep.line(ci.node))


@rule(
    "KERNEL-ONCE",
    ["C06"],
    "compute_ir, interpreted with a stub for the per-form integral IR that returns integrals whose integrand maps have several quadrature rules "
    "per cell type (and, for a prism facet integral, two cell types): the cell types handed to the form IR per integral name are exactly the "
    "first components of that integral's integrand keys, each once - an integral lowered with two rules must not appear twice under its id",
    min_instances=1,
)
def kernel_once(repo, res):
    from ..absint import Interp, Node, Raised, _PyCall
    from ..lnodes_model import load_classes

    rep = repo.mod("ffcx.ir.representation")
    ci = rep.func("compute_ir")
    res.functions.add(ci.key)
    key = f"{ci.key}:integral_domains:one-entry-per-cell-type"
    res.ob(key)
    it = Interp(repo, load_classes(repo), primary="ffcx.ir.representation")
    it.overrides["logger"] = Node("Logger", info=_PyCall(lambda *a: None), debug=_PyCall(lambda *a: None))
    it.overrides["naming.form_name"] = _PyCall(lambda form, i, prefix: f"form_{i}_{prefix}")
    it.overrides["naming.integral_name"] = _PyCall(lambda form, t, i, sid, prefix, k=None: f"integral_{i}_{t}_{k}")
    it.overrides["naming.expression_name"] = _PyCall(lambda e, prefix, i=None: f"expression_{i}_{prefix}")
    r1, r2, r3 = (Node("QuadratureRule", name=n_) for n_ in ("r1", "r2", "r3"))
    tri, quad, prism = 3, 4, 6   # basix.CellType values are int-like: hashable, sortable
    per_form = {
        0: [Node("IntegralIR", expression=Node("CommonExpressionIR", name="two_rules_on_one_cell_type", integrand={(tri, r1): {}, (tri, r2): {}, (tri, r3): {}})),
            Node("IntegralIR", expression=Node("CommonExpressionIR", name="prism_facets", integrand={(quad, r1): {}, (tri, r1): {}, (quad, r2): {}}))],
        1: [Node("IntegralIR", expression=Node("CommonExpressionIR", name="single", integrand={(prism, r1): {}}))],
    }
    seen = []
    it.overrides["_compute_integral_ir"] = _PyCall(lambda fd, i, els, inames, opts, vis: list(per_form[i]))
    it.overrides["_compute_form_ir"] = _PyCall(lambda fd, i, prefix, fnames, inames, idom, onames, part_:
                                                seen.append(idom) or Node("FormIR", name=fnames[i], name_from_uflfile=f"form_{prefix}_{i}"))
    it.overrides["_compute_expression_ir"] = _PyCall(lambda *a: Node("ExpressionIR", name="e", name_from_uflfile="e"))
    it.overrides["TensorPart.from_str"] = _PyCall(lambda s_: f"TensorPart.{s_}")
    it.overrides["DataIR"] = _PyCall(lambda **k: Node("DataIR", **k))
    it.overrides["id"] = _PyCall(lambda o: id(o))
    fds = [Node("FormData", original_form=Node("Form", name=n_), integral_data=[]) for n_ in ("a", "L")]
    an = Node("UFLData", form_data=fds, expressions=[], element_numbers={}, unique_elements=[])
    try:
        it.call_f(ci, [an, {}, "p", {"part": "full", "scalar_type": "float64", "sum_factorization": False}, False])
    except Raised as e:
        res.fail(key, f"compute_ir raises ({e.what}) on the sample", rep.line(ci.node))
        return
    want = {"two_rules_on_one_cell_type": [tri], "prism_facets": [tri, quad], "single": [prism]}
    for idom in seen:
        if not isinstance(idom, dict):
            res.fail(key, f"the form IR is handed {idom!r} instead of a map integral name -> cell types", rep.line(ci.node))
            return
        for name, w in want.items():
            try:
                got = sorted(it.iterate(idom.get(name))) if isinstance(idom.get(name), (set, frozenset)) else list(it.iterate(idom.get(name)))
            except Exception:
                got = idom.get(name)
            if not isinstance(got, list) or sorted(got) != w:
                res.fail(key, f"integral `{name}` (integrand keys {[(c, r.f['name']) for c, r in [k_ for f_ in per_form.values() for x in f_ if x.f['expression'].f['name'] == name for k_ in x.f['expression'].f['integrand']]]}) "
                         f"is listed with the cell types {got}, expected {w}: one kernel per cell type - an integral lowered with several rules "
                         "(m*ds(7, degree=2) + 3*m*ds(7, degree=4)) would otherwise be listed, and added by the assembler, once per rule", rep.line(ci.node))
                return
    if len(seen) != 2:
        res.fail(key, f"_compute_form_ir is called {len(seen)} times for two forms", rep.line(ci.node))


@rule(
    "CLI-OUTSTEM",
    ["C20"],
    "the part of main() that derives namespaces and output file stems from the parsed arguments is interpreted for every "
    "combination of -n / -o given or not (one and two UFL files): without -o the pair is written under the sanitised stem of "
    "each UFL file whatever -n says; without -n the namespace is that stem; explicit values are used as given",
    min_instances=6,
)
def cli_outstem(repo, res):
    import re as _re
    import string as _string

    from ..absint import Interp, Node, Raised, _PyCall
    from ..lnodes_model import load_classes

    m = repo.mod("ffcx.main")
    f = m.func("main")
    res.functions.add(f.key)
    stop = None
    for i, st in enumerate(f.node.body):
        if isinstance(st, ast.Assign) and isinstance(st.targets[0], ast.Name) and st.targets[0].id == "priority_options":
            stop = i
    if stop is None:
        raise AnalysisError("main(): priority_options assignment not found")
    stmts = f.node.body[:stop]
    files2 = ["dir/poisson.py", "other/mass-matrix v2.py"]
    cases = [(fl, ns, of) for fl in (files2[:1], files2) for ns in (None, "ns") for of in (None, "out")]
    for fl, ns, of in cases:
        key = f"{f.key}:stems:files={len(fl)},-n={'given' if ns else 'absent'},-o={'given' if of else 'absent'}"
        res.ob(key)
        nsl = None if ns is None else [f"{ns}{k}" for k in range(len(fl))]
        ofl = None if of is None else [f"{of}{k}" for k in range(len(fl))]
        xargs = Node("Namespace", input=None, ufl_file=list(fl), namespace=nsl, outfile=ofl, profile=False, visualise=False, dir=".")
        it = Interp(repo, load_classes(repo), primary="ffcx.main")
        it.overrides["logging.captureWarnings"] = _PyCall(lambda *a, **k: None)
        it.overrides["parser.parse_args"] = _PyCall(lambda a=None: xargs)
        it.overrides["pathlib.Path"] = _PyCall(lambda p_: Node("Path", stem=str(p_).rsplit("/", 1)[-1].rsplit(".", 1)[0]))
        it.overrides["re.subn"] = _PyCall(lambda pat, rep, s_: _re.subn(pat, rep, s_))
        it.overrides["re.sub"] = _PyCall(lambda pat, rep, s_, **k: _re.sub(pat, rep, s_))
        it.overrides["string.ascii_letters"] = _string.ascii_letters
        it.overrides["string.digits"] = _string.digits
        env = {"args": None}
        it.ctx.append(m)
        try:
            try:
                it.block(stmts, env)
            except Raised as e:
                res.fail(key, f"main() raises ({e.what}) for files={fl}, -n={nsl}, -o={ofl}", m.line(f.node))
                continue
        finally:
            it.ctx.pop()
        stems = [_re.subn("!+", "_", _re.subn("[^A-Za-z0-9_]", "!", x.rsplit("/", 1)[-1].rsplit(".", 1)[0])[0])[0] for x in fl]
        want_ns = nsl if nsl is not None else stems
        want_of = ofl if ofl is not None else stems
        got_ns, got_of, got_fn = env.get("namespaces"), env.get("outfiles"), env.get("filenames")
        if got_fn != list(fl):
            res.fail(key, f"input files are {got_fn}, expected {fl}", m.line(f.node))
        if got_ns != want_ns:
            res.fail(key, f"for files={fl}, -n={nsl}, -o={ofl} the namespaces are {got_ns}, expected {want_ns}", m.line(f.node))
        if got_of != want_of:
            res.fail(key, f"for files={fl}, -n={nsl}, -o={ofl} the output stems are {got_of}, expected {want_of}: without -o the pair must be written as "
                     "<stem of the UFL file>.h/.c, otherwise the documented files are missing (or stale ones from an earlier run survive)", m.line(f.node))
    # the loop writes each file's code under its own stem and namespace
    key = f"{f.key}:zip-files-namespaces-outfiles"
    res.ob(key)
    src = ast.unparse(f.node)
    if not re.search(r"for (\w+), (\w+), (\w+) in zip\(filenames, namespaces, outfiles\):", src) or not re.search(r"write_code\(code, (\w+), suffixes, xargs\.dir\)", src):
        res.fail(key, "files, namespaces and output stems are not consumed together, one triple per UFL file", m.line(f.node))
