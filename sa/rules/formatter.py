"""C16 (and the formatter part of C18/C19): formatted text re-read by the target grammar.

PREC-GRAMMAR   exhaustive over (parent class, operand position, child class): the skeleton each
               formatter emits (abstractly evaluated from its handler source) is parsed by the
               reference grammar and must give back the intended tree.
STMT-TERM      every side-effect expression class is formatted by a handler that terminates the
               statement.
LIT-DIGITS     float format precision guarantees read-back within 1 ulp (>= 17 significant digits
               or shortest-round-trip repr).
"""

from __future__ import annotations

import ast
import itertools
import re

from ..fmt_eval import ANode, Atom, Eval, HandlerTable, Str
from ..grammar import ParseError, canon, parse_c, parse_py
from ..lnodes_model import LClass, concrete_expr_classes, load_classes, precedence_table, typed
from ..model import AnalysisError, walk_no_nested
from ..registry import rule

BACKENDS = {
    "C": ("ffcx.codegeneration.C.formatter", parse_c),
    "numba": ("ffcx.codegeneration.numba.formatter", parse_py),
}


LIT_VARIANTS = {"lit_float": ["", "neg", "imag", "cplx", "ncplx"], "lit_int": ["", "neg"]}


class Builder:
    """Builds small abstract trees and their intended canonical trees."""

    inst_prec = None  # callable(class name, number of operands) -> int | None, set by the rule: precedence assigned per instance in __init__

    def __init__(self, classes: dict[str, LClass]):
        self.classes = classes
        self.count = itertools.count()

    def _inst(self, c: LClass, n_ops: int) -> dict:
        if Builder.inst_prec is None:
            return {}
        p_ = Builder.inst_prec(c.name, n_ops)
        return {} if p_ is None else {"precedence": p_}

    def sym(self, name=None) -> ANode:
        name = name or f"s{next(self.count)}"
        n = ANode(self.classes["Symbol"], {}, tag=name)
        n.children["name"] = Str([name])
        return n

    def lit(self, cls: str, value) -> ANode:
        n = ANode(self.classes[cls], {}, tag=f"lit{next(self.count)}")
        n.children["value"] = value  # concrete Python number
        return n

    def make(self, c: LClass, kids: list[ANode] | None = None, variant: str = "") -> ANode:
        tag = f"n{next(self.count)}"
        k = c.kind
        if k == "symbol":
            return self.sym()
        if k == "lit_float":
            return self.lit(c.name, {"": 2.5, "neg": -2.5, "imag": 2j, "cplx": 1.5 + 2j, "ncplx": -1.5 - 2j, "near": 1.0000000000000004}[variant])
        if k == "lit_int":
            return self.lit(c.name, -3 if variant == "neg" else 3)
        kids = kids or []

        def kid(i):
            return kids[i] if i < len(kids) and kids[i] is not None else self.sym()

        if k in ("bin", "assign"):
            return ANode(c, {"lhs": kid(0), "rhs": kid(1)}, tag)
        if k == "nary":
            n = {"3": 3, "1": 1}.get(variant, 2)
            return ANode(c, {"args": [kid(i) for i in range(n)]}, tag, self._inst(c, n))
        if k == "unary":
            return ANode(c, {"arg": kid(0)}, tag)
        if k == "cond":
            return ANode(c, {"condition": kid(0), "true": kid(1), "false": kid(2)}, tag)
        if k == "access":
            return ANode(c, {"array": self.sym("arr"), "indices": [kid(0), kid(1)]}, tag)
        if k == "call":
            return ANode(c, {"function": Str(["fn"]), "args": [kid(0), kid(1)]}, tag)
        if k == "multiindex":
            n = {"1": 1}.get(variant, 2)
            gi = ANode(self.classes["Sum"], {"args": [kid(i) for i in range(n)]}, tag + "g", self._inst(self.classes["Sum"], n))
            return ANode(c, {"global_index": gi}, tag, self._inst(c, n))
        raise AnalysisError(f"Builder: cannot instantiate {c.name} ({k})")

    def positions(self, c: LClass, variant="") -> list[str]:
        k = c.kind
        return {
            "bin": ["lhs", "rhs"], "assign": ["rhs"], "nary": ["args0", "args1"] + (["args2"] if variant == "3" else []),
            "unary": ["arg"], "cond": ["condition", "true", "false"],
            "access": ["indices0", "indices1"], "call": ["args0", "args1"],
        }.get(k, [])

    # intended canonical tree
    def intended(self, n: ANode, opmap):
        c = n.cls
        k = c.kind
        ch = n.children
        if k == "symbol":
            return ("sym", n.tag)
        if k in ("lit_float", "lit_int"):
            return ("num", complex(ch["value"]))
        if k in ("bin", "assign"):
            return ("bin", opmap(c.op), self.intended(ch["lhs"], opmap), self.intended(ch["rhs"], opmap))
        if k == "nary":
            out = self.intended(ch["args"][0], opmap)
            for a in ch["args"][1:]:
                out = ("bin", opmap(c.op), out, self.intended(a, opmap))
            return out
        if k == "unary":
            return canon(("un", opmap(c.op), self.intended(ch["arg"], opmap)))
        if k == "cond":
            return ("cond",) + tuple(self.intended(ch[a], opmap) for a in ("condition", "true", "false"))
        if k == "access":
            return ("idx", ("sym", "arr")) + tuple(self.intended(i, opmap) for i in ch["indices"])
        if k == "call":
            return ("call", "*") + tuple(self.intended(a, opmap) for a in ch["args"])
        if k == "multiindex":
            return self.intended(ch["global_index"], opmap)
        raise AnalysisError(f"intended: {c.name}")


def strip_call_name(t):
    if isinstance(t, tuple):
        if t and t[0] == "call":
            return ("call", "*") + tuple(strip_call_name(x) for x in t[2:])
        return tuple(strip_call_name(x) for x in t)
    return t


def render(ev: Eval, n: ANode) -> str:
    """Text the formatter emits for abstract tree n (skeletons composed recursively)."""
    return ev.render(Str([Atom(n.tag, n)]))


def constructible(parent: LClass, pos: str, child: LClass) -> bool:
    attr = re.sub(r"\d+$", "", pos)
    if attr in parent.merges or (parent.kind == "nary") or (parent.kind == "cond" and attr in ("true", "false")):
        return typed(child)
    return True


def _instance_precedence(repo, classes):
    """-> f(class name, number of operands): the precedence an instance gets when a method of the class (or of a base) assigns
    `self.precedence`; the constructor is interpreted on symbol operands. None when the class never assigns it per instance."""
    from ..absint import Interp, Node as INode, Raised

    lm = repo.mod("ffcx.codegeneration.lnodes")
    assigning = set()
    for q, f in lm.funcs.items():
        if "." not in q:
            continue
        cname = q.split(".")[0]
        for n in walk_no_nested(f.node):
            if isinstance(n, (ast.Assign, ast.AugAssign, ast.AnnAssign)):
                for t in (n.targets if isinstance(n, ast.Assign) else [n.target]):
                    if isinstance(t, ast.Attribute) and t.attr == "precedence" and isinstance(t.value, ast.Name) and t.value.id == "self":
                        assigning.add(cname)
    cache = {}

    def get(cname, n_ops):
        chain = [cname] + (classes[cname].bases if cname in classes else [])
        if not any(c in assigning for c in chain):
            return None
        if (cname, n_ops) not in cache:
            it = Interp(repo, classes)
            it.prec = precedence_table(repo)
            syms = [it.construct("Symbol", [f"i{k}", "DataType.INT"], {}) for k in range(n_ops)]
            kind = classes[cname].kind
            try:
                if kind == "multiindex":
                    obj = it.construct(cname, [syms, [3] * n_ops], {})
                elif kind == "nary":
                    obj = it.construct(cname, [syms], {})
                else:
                    obj = it.construct(cname, syms, {})
            except Raised as e:
                raise AnalysisError(f"{cname} assigns self.precedence per instance and its constructor raises on symbol operands ({e.what})")
            v = obj.f.get("precedence")
            cache[(cname, n_ops)] = v if isinstance(v, int) else None
        return cache[(cname, n_ops)]

    return get


@rule(
    "PREC-GRAMMAR",
    ["C16", "C18", "C09"],
    "for every (parent class, operand position, child class) that can be constructed, the text "
    "skeleton emitted by the C / numba formatter handler (abstractly evaluated from its source with "
    "the precedence constants of lnodes.py) is parsed by the reference grammar of the target "
    "language and must yield the intended tree; by induction over tree height this covers all "
    "expression trees. Extra parentheses are never reported.",
    min_instances=400,
)
def prec_grammar(repo, res, backends=("C", "numba"), props_by_backend=None):
    classes = load_classes(repo)
    exprs = concrete_expr_classes(classes)
    props_by_backend = props_by_backend or {"C": ("C16", "C09"), "numba": ("C16", "C18")}
    Builder.inst_prec = _instance_precedence(repo, classes)
    for be in backends:
        modname, parser = BACKENDS[be]
        table = HandlerTable(repo, modname)
        ev = Eval(table, classes, precedence_table(repo))
        res.functions.add(f"{modname}:Formatter.__call__ ({len(table.table)} registrations)")
        opmap = (lambda o: o)
        for P in exprs:
            if P.kind in ("symbol", "lit_float", "lit_int", "multiindex"):
                continue
            variants = ["", "3"] if P.kind == "nary" else [""]
            for pv in variants:
                b = Builder(classes)
                for pos in b.positions(P, pv):
                    for C in exprs:
                        cvars = LIT_VARIANTS[C.kind] if C.kind in LIT_VARIANTS else [""]
                        for cv in cvars:
                            if not constructible(P, pos, C):
                                continue
                            if C.kind == "assign":
                                # assignment nodes are statements in LNodes (as_statement wraps every
                                # side-effect operator; both formatters emit the terminator for them):
                                # they are not operands of expressions
                                continue
                            key = f"{be}:{P.name}{pv}:{pos}:{C.name}{cv}"
                            res.ob(key)
                            bb = Builder(classes)
                            child = bb.make(C, variant=cv)
                            m = re.match(r"([a-z_]+?)(\d+)?$", pos)
                            attr, idx = m.group(1), m.group(2)
                            nkids = {"bin": 2, "assign": 2, "nary": 3 if pv == "3" else 2, "unary": 1, "cond": 3, "access": 2, "call": 2}[P.kind]
                            order = {"bin": ["lhs", "rhs"], "assign": ["lhs", "rhs"], "unary": ["arg"], "cond": ["condition", "true", "false"]}.get(P.kind)
                            kids = [None] * nkids
                            if order:
                                kids[order.index(attr)] = child
                            else:
                                kids[int(idx)] = child
                            tree = bb.make(P, kids, variant=pv)
                            want = strip_call_name(canon(bb.intended(tree, opmap)))
                            try:
                                text = render(ev, tree)
                            except AnalysisError as e:
                                raise AnalysisError(f"{key}: {e}") from e
                            src = text
                            if P.kind == "assign":
                                src = text.rstrip().rstrip(";")
                            try:
                                got = strip_call_name(canon(parser(src)))
                            except ParseError as e:
                                res.fail(
                                    f"{be}:{P.name}:{pos}:{C.name}{cv}",
                                    f"{be} formatter emits `{text.strip()}` for {P.name}({pos}={C.name}{' ' + cv if cv else ''}); "
                                    f"the {be} grammar rejects it: {e}",
                                    modname.replace(".", "/") + ".py",
                                    props=props_by_backend[be],
                                )
                                continue
                            if got != want:
                                res.fail(
                                    f"{be}:{P.name}:{pos}:{C.name}{cv}",
                                    f"{be} formatter emits `{text.strip()}` for {P.name}({pos}={C.name}{' ' + cv if cv else ''}); "
                                    f"read back by the {be} grammar it is {got}, intended {want}",
                                    modname.replace(".", "/") + ".py",
                                    props=props_by_backend[be],
                                )
        # depth 3 through "transparent" nodes: a Sum / Product with a single operand and a one-dimensional MultiIndex print as the text of
        # their operand, whatever that operand is - the induction over (parent, child) pairs does not cover them, so every
        # (outer parent, position, transparent node, operand class) is rendered and read back as well
        wrappers = [(classes[n_], "1") for n_ in ("Sum", "Product") if n_ in classes] + [(c_, "1") for c_ in exprs if c_.kind == "multiindex"]
        for P in exprs:
            if P.kind in ("symbol", "lit_float", "lit_int", "multiindex", "assign"):
                continue
            for pos in Builder(classes).positions(P, ""):
                for W, wv in wrappers:
                    if not constructible(P, pos, W):
                        continue
                    for C in exprs:
                        if C.kind in ("assign", "multiindex") or not typed(C):
                            continue
                        if W.kind == "multiindex" and C.kind == "lit_float":
                            continue  # index expressions are INT
                        for cv in (LIT_VARIANTS[C.kind] if C.kind in LIT_VARIANTS else [""]):
                            key = f"{be}:{P.name}:{pos}:{W.name}1({C.name}{cv})"
                            res.ob(key)
                            bb = Builder(classes)
                            inner = bb.make(C, variant=cv)
                            wrap = bb.make(W, [inner], variant=wv)
                            m_ = re.match(r"([a-z_]+?)(\d+)?$", pos)
                            attr, idx = m_.group(1), m_.group(2)
                            nkids = {"bin": 2, "nary": 2, "unary": 1, "cond": 3, "access": 2, "call": 2}[P.kind]
                            order = {"bin": ["lhs", "rhs"], "unary": ["arg"], "cond": ["condition", "true", "false"]}.get(P.kind)
                            kids = [None] * nkids
                            if order:
                                kids[order.index(attr)] = wrap
                            else:
                                kids[int(idx)] = wrap
                            tree = bb.make(P, kids)
                            want = strip_call_name(canon(bb.intended(tree, opmap)))
                            try:
                                text = render(ev, tree)
                            except AnalysisError as e:
                                raise AnalysisError(f"{key}: {e}") from e
                            try:
                                got = strip_call_name(canon(parser(text)))
                            except ParseError as e:
                                res.fail(key, f"{be} formatter emits `{text.strip()}` for {P.name}({pos} = one-operand {W.name} of a {C.name}{' ' + cv if cv else ''}); the {be} "
                                         f"grammar rejects it: {e}", modname.replace(".", "/") + ".py", props=props_by_backend[be])
                                continue
                            if got != want:
                                res.fail(key, f"{be} formatter emits `{text.strip()}` for {P.name}({pos} = one-operand {W.name} of a {C.name}{' ' + cv if cv else ''}); read back by "
                                         f"the {be} grammar it is {got}, intended {want}: a node that prints as the bare text of its operand must bind like that operand",
                                         modname.replace(".", "/") + ".py", props=props_by_backend[be])
        # depth 3 with parenthesised grandchildren: the induction above treats the text of a child as opaque; a handler that looks INTO that text
        # (drops its own parentheses when the child's text already starts with "(" and ends with ")") is only seen when the child's operands are
        # themselves parenthesised: P(x, C(a + b, c + d)) for every parent, position and binary / n-ary child
        G = classes.get("Add") or classes.get("Sum")
        if G is not None:
            for P in exprs:
                if P.kind in ("symbol", "lit_float", "lit_int", "multiindex", "assign"):
                    continue
                for pos in Builder(classes).positions(P, ""):
                    for C in exprs:
                        if C.kind not in ("bin", "nary") or not constructible(P, pos, C) or not typed(C):
                            continue
                        cpos = Builder(classes).positions(C, "")
                        if not all(constructible(C, cp, G) for cp in cpos):
                            continue
                        key = f"{be}:{P.name}:{pos}:{C.name}(parenthesised operands)"
                        res.ob(key)
                        bb = Builder(classes)
                        try:
                            inner = bb.make(C, [bb.make(G) for _ in cpos])
                            m_ = re.match(r"([a-z_]+?)(\d+)?$", pos)
                            attr, idx = m_.group(1), m_.group(2)
                            nkids = {"bin": 2, "nary": 2, "unary": 1, "cond": 3, "access": 2, "call": 2}[P.kind]
                            order = {"bin": ["lhs", "rhs"], "unary": ["arg"], "cond": ["condition", "true", "false"]}.get(P.kind)
                            kids = [None] * nkids
                            if order:
                                kids[order.index(attr)] = inner
                            else:
                                kids[int(idx)] = inner
                            tree = bb.make(P, kids)
                            want = strip_call_name(canon(bb.intended(tree, opmap)))
                            text = render(ev, tree)
                        except AnalysisError as e:
                            raise AnalysisError(f"{key}: {e}") from e
                        try:
                            got = strip_call_name(canon(parser(text)))
                        except ParseError as e:
                            res.fail(key, f"{be} formatter emits `{text.strip()}` for {P.name}({pos} = {C.name} of two sums); the {be} grammar rejects it: {e}",
                                     modname.replace(".", "/") + ".py", props=props_by_backend[be])
                            continue
                        if got != want:
                            res.fail(key, f"{be} formatter emits `{text.strip()}` for {P.name}({pos} = {C.name} of two sums); read back by the {be} grammar it is {got}, "
                                     f"intended {want}: whether an operand needs parentheses is decided by its operator, not by how its text begins and ends",
                                     modname.replace(".", "/") + ".py", props=props_by_backend[be])
        # leaves and unary chains at top level must at least parse
        for C in exprs:
            key = f"{be}:top:{C.name}"
            res.ob(key)
            bb = Builder(classes)
            tree = bb.make(C)
            try:
                text = render(ev, tree)
                src = text.rstrip().rstrip(";") if C.kind == "assign" else text
                got = strip_call_name(canon(parser(src)))
                want = strip_call_name(canon(bb.intended(tree, opmap)))
                if got != want:
                    res.fail(key, f"{be} formatter emits `{text.strip()}` for a {C.name} node; read back as {got}, intended {want}",
                             modname.replace(".", "/") + ".py", props=props_by_backend[be])
            except ParseError as e:
                res.fail(key, f"{be} formatter text for a {C.name} node is not valid {be}: `{text.strip()}` ({e})",
                         modname.replace(".", "/") + ".py", props=props_by_backend[be])
        res.notes.extend(sorted(ev.notes))
    res.notes.append(
        "triples excluded as not constructible: arithmetic/n-ary/conditional-branch operands whose class "
        "carries DataType.NONE (merge_dtypes raises)"
    )


@rule(
    "LOOP-BOUNDS",
    ["C16", "C18"],
    "the for-loop header each formatter emits places begin/end where the target grammar reads them "
    "back as the same expressions, for every INT-typed expression class",
    min_instances=20,
)
def loop_bounds(repo, res):
    classes = load_classes(repo)
    exprs = [c for c in concrete_expr_classes(classes) if typed(c) and c.kind not in ("lit_float",)]
    for be, (modname, parser) in BACKENDS.items():
        table = HandlerTable(repo, modname)
        ev = Eval(table, classes, precedence_table(repo))
        h = table.resolve(classes["ForRange"])
        if h is None:
            raise AnalysisError(f"{modname}: no ForRange handler")
        for pos in ("begin", "end"):
            for C in exprs:
                for cv in (["", "neg"] if C.kind == "lit_int" else [""]):
                    key = f"{be}:ForRange:{pos}:{C.name}{cv}"
                    res.ob(key)
                    bb = Builder(classes)
                    child = bb.make(C, variant=cv)
                    other = bb.sym("n")
                    idx = bb.sym("i")
                    node = ANode(classes["ForRange"], {"index": idx, "begin": child if pos == "begin" else other,
                                                       "end": child if pos == "end" else other, "body": bb.sym("body")}, "loop")
                    env = {h.args.args[1].arg: node}
                    header = None
                    for st in h.body:
                        try:
                            ev._stmt(st, env)
                        except AnalysisError:
                            break
                    for v in env.values():
                        if isinstance(v, Str) and any(isinstance(p, str) and "for" in p for p in v.flat()):
                            header = v
                    if header is None:
                        raise AnalysisError(f"{modname}: cannot extract the for-loop header skeleton")
                    index = {"i": idx, "n": other, child.tag: child}

                    def collect(x):
                        if isinstance(x, ANode):
                            index[x.tag] = x
                            for vv in x.children.values():
                                collect(vv)
                        elif isinstance(x, list):
                            for y in x:
                                collect(y)

                    collect(child)
                    text = header.render(lambda a: render(ev, a.node if a.node is not None else index[a.node_tag]))
                    want_child = strip_call_name(canon(bb.intended(child, lambda o: o)))
                    ok, why = _check_header(be, text, pos, want_child, parser)
                    if not ok:
                        res.fail(f"{be}:ForRange:{pos}:{C.name}{cv}",
                                 f"{be} loop header `{text.strip()}` with {pos}={C.name}: {why}",
                                 modname.replace(".", "/") + ".py", props=("C16",) if be == "C" else ("C16", "C18"))


def _check_header(be, text, pos, want, parser):
    text = text.strip()
    try:
        if be == "C":
            m = re.match(r"for\s*\((.*)\)\s*\{?$", text, re.S)
            if not m:
                return False, "not of the form for (init; cond; step)"
            parts = m.group(1).split(";")
            if len(parts) != 3:
                return False, f"{len(parts)} clauses in the for header"
            init = re.sub(r"^\s*int\s+", "", parts[0])
            it = canon(parse_c(init))
            ct = canon(parse_c(parts[1]))
            if pos == "begin":
                ok = it[0] == "bin" and it[1] == "=" and strip_call_name(it[3]) == want
                return ok, f"initialiser parsed as {it}, intended i = {want}"
            ok = ct[0] == "bin" and ct[1] == "<" and ct[2] == ("sym", "i") and strip_call_name(ct[3]) == want
            return ok, f"condition parsed as {ct}, intended i < {want}"
        m = re.match(r"for\s+(\w+)\s+in\s+(.*):$", text, re.S)
        if not m:
            return False, "not of the form for i in range(b, e):"
        t = strip_call_name(canon(parser(m.group(2))))
        if t[0] != "call" or len(t) != 4:
            return False, f"iterable parsed as {t}"
        got = t[2] if pos == "begin" else t[3]
        return got == want, f"range argument parsed as {got}, intended {want}"
    except ParseError as e:
        return False, str(e)


@rule(
    "STMT-TERM",
    ["C16", "C18", "C19"],
    "every side-effect expression class (AssignOp subclasses) resolves, in each formatter, to a handler "
    "whose text ends with the statement terminator; otherwise consecutive statements run together",
    min_instances=8,
)
def stmt_term(repo, res):
    classes = load_classes(repo)
    for be, (modname, _parser) in BACKENDS.items():
        table = HandlerTable(repo, modname)
        ev = Eval(table, classes, precedence_table(repo))
        for c in classes.values():
            if not c.sideeffect or c.op is None:
                continue
            key = f"{be}:{c.name}:terminator"
            res.ob(key)
            bb = Builder(classes)
            text = render(ev, bb.make(c))
            term = ";\n" if be == "C" else "\n"
            if not text.endswith(term):
                res.fail(key, f"{be} formatter emits `{text!r}` for a {c.name} statement: no statement "
                         f"terminator, the next statement is glued to it", modname.replace(".", "/") + ".py",
                         props=("C16", "C19") if be == "C" else ("C16", "C18"))


def _precision_ok(spec: str):
    """-> (ok, significant digits or None) for a float format spec."""
    m = re.search(r"\.(\d+)([eEfFgG%n]?)$", spec)
    if not m:
        return (spec == "" or spec in ("r",)), None
    p = int(m.group(1))
    ty = m.group(2)
    if ty in ("e", "E"):
        return p + 1 >= 17, p + 1
    if ty in ("f", "F", "%"):
        return False, None  # fixed notation loses small magnitudes
    return p >= 17, p


@rule(
    "LIT-DIGITS",
    ["C16", "C09"],
    "every float-to-text conversion in a formatter's number printer keeps >= 17 significant digits "
    "(p digits give relative error <= 0.5*10^(1-p); one binary64 ulp is >= 2^-53 relative, so p >= 17 "
    "is needed; 16 allows 2.25 ulp) or uses shortest-round-trip repr/str",
    min_instances=2,
)
def lit_digits(repo, res):
    for be, (modname, _p) in BACKENDS.items():
        mod = repo.mod(modname)
        found = 0
        for f in mod.funcs.values():
            if not any(s in f.qualname for s in ("format_number", "LiteralFloat", "initializer")) and "_#" not in f.qualname:
                pass
            for n in walk_no_nested(f.node):
                if isinstance(n, ast.FormattedValue) and n.format_spec is not None:
                    spec = "".join(str(v.value) for v in n.format_spec.values if isinstance(v, ast.Constant))
                    dyn = [v for v in n.format_spec.values if isinstance(v, ast.FormattedValue)]
                    if dyn and spec.startswith("."):
                        # precision computed at run time: `.{sf}` - resolve sf through local definitions
                        found += 1
                        key = f"{be}:{f.qualname.split('#')[0]}:float-spec:{ast.unparse(n.value)}"
                        res.ob(key)
                        from ..flow import Slicer

                        txt = Slicer(f.node).text(dyn[0].value)
                        mm = re.search(r"finfo\([^)]*\)\.precision\s*\+\s*(\d+)", txt)
                        suffix = spec[1:]
                        if mm and suffix in ("", "g", "G"):
                            k = int(mm.group(1))
                            # numpy finfo.precision: float32 6, float64 15; digits needed for round trip: 9 and 17
                            worst = {"float32": (6 + k, 9), "float64": (15 + k, 17)}
                            badt = [f"{t}: {have} < {need}" for t, (have, need) in worst.items() if have < need]
                            if badt:
                                res.fail(key, f"{be} formatter prints floats with finfo.precision + {k} significant digits "
                                         f"({'; '.join(badt)}): literals do not read back within one ulp", mod.line(n),
                                         props=("C16", "C09") if be == "C" else ("C16",))
                        else:
                            raise AnalysisError(f"LIT-DIGITS: run-time float precision `{txt[:80]}` in {f.key} not understood")
                        continue
                    if not re.search(r"\.\d+", spec):
                        continue
                    found += 1
                    key = f"{be}:{f.qualname.split('#')[0]}:float-spec:{ast.unparse(n.value)}"
                    res.ob(key)
                    ok, p = _precision_ok(spec)
                    if not ok:
                        res.fail(key, f"{be} formatter prints floats with format spec '{spec}' "
                                 f"({p} significant digits): values such as 1+2ulp read back more than one "
                                 "ulp away (17 digits are required for binary64)", mod.line(n),
                                 props=("C16", "C09") if be == "C" else ("C16",))
                if isinstance(n, ast.Call) and isinstance(n.func, ast.Attribute) and n.func.attr == "format":
                    if isinstance(n.func.value, ast.Constant) and re.search(r"\.\d+[efgEFG]?\}", str(n.func.value.value)):
                        found += 1
                        key = f"{be}:{f.qualname}:format-call"
                        res.ob(key)
                        for m in re.finditer(r"\{[^}]*:([^}]*)\}", n.func.value.value):
                            ok, p = _precision_ok(m.group(1))
                            if not ok:
                                res.fail(key, f"float printed with '{m.group(1)}'", mod.line(n))
                if isinstance(n, ast.BinOp) and isinstance(n.op, ast.Mod) and isinstance(n.left, ast.Constant) and isinstance(n.left.value, str):
                    if re.search(r"%\.?\d*[efg]", n.left.value):
                        found += 1
                        key = f"{be}:{f.qualname}:percent-format"
                        res.ob(key)
                        m = re.search(r"%\.(\d+)([efg])", n.left.value)
                        p = int(m.group(1)) + (1 if m and m.group(2) == "e" else 0) if m else 6
                        if p < 17:
                            res.fail(key, f"float printed with '{n.left.value}' ({p} digits)", mod.line(n))
        # the literal handler itself
        table = HandlerTable(repo, modname)
        for cname in ("LiteralFloat",):
            h = table.table.get(cname)
            if h is None:
                raise AnalysisError(f"{modname}: no handler for {cname}")
            key = f"{be}:{cname}:printer"
            res.ob(key)
            src = ast.unparse(h)
            if be == "numba" and not ("{val.value}" in src or "repr(" in src or "str(" in src):
                res.notes.append(f"{be}: LiteralFloat handler shape changed: {src[:80]}")
