"""Pipeline rules for the numerical-semantics properties (C01, C04, C10, C11): structural necessary
conditions only - the numerical result itself is not decided statically.

PIPE-FLAGS      UFL lowering flags of compute_form_data; order of the expression pipeline
FACT-LAWS       each argument-factorisation handler inserts the combination its distributive law needs
RULE-COHERENCE  one (cell, quadrature rule) pair selects factorisation graph, blocks, arguments, weights
SCOPE-KEY       the cache of generated sub-expressions is consulted for regeneration only under the
                key it was written with (what is piecewise for one rule may vary for another)
QMETA-FLOW      metadata degree/scheme reach basix.make_quadrature; estimated degree only as fallback;
                vertex and custom rules use the points/weights they define; grouping by computed rule
OPT-GATE        options with an applicability condition never control a raise / index expression
                outside a guard implying that condition; DIAG-SITES agree; tolerances reach clamping
EXPR-LAYOUT     expression tensor index = [point, component, argument dofs]
"""

from __future__ import annotations

import ast
import re

from ..cfg import CFG
from ..flow import Slicer
from ..model import AnalysisError, call_name, calls_in, const_value, dotted, walk_no_nested
from ..registry import rule
from .kernel import _find


def _kwargs(call):
    return {k.arg: k.value for k in call.keywords if k.arg}


@rule(
    "PIPE-FLAGS",
    ["C01", "C04", "C09"],
    "compute_form_data is asked for pull-backs, integral scaling (|det J| into the integrand), geometry "
    "lowering with the Jacobian preserved, restriction propagation, no appended everywhere integrals and "
    "complex_mode = (scalar type is complex); expressions go through algebra lowering -> derivatives -> "
    "pull-backs -> geometry lowering (Jacobian preserved) -> derivatives -> geometry lowering -> "
    "derivatives, in this order on one variable",
    min_instances=9,
)
def pipe_flags(repo, res):
    an = repo.mod("ffcx.analysis")
    f = an.func("_analyze_form")
    res.functions.add(f.key)
    cs = [c for c in calls_in(f.node) if (call_name(c) or "").endswith("compute_form_data")]
    if len(cs) != 1:
        raise AnalysisError("_analyze_form: compute_form_data call not found")
    kw = _kwargs(cs[0])
    sl = Slicer(f.node)
    want = {"do_apply_function_pullbacks": True, "do_apply_integral_scaling": True, "do_apply_geometry_lowering": True,
            "do_apply_restrictions": True, "do_append_everywhere_integrals": False}
    why = {"do_apply_function_pullbacks": "basis functions would be evaluated without their reference-to-physical map (Piola, affine)",
           "do_apply_integral_scaling": "|det J| and the reference cell volume would be missing from every integral (invisible on the reference cell)",
           "do_apply_geometry_lowering": "geometric quantities would reach the generator unlowered",
           "do_apply_restrictions": "'+'/'-' would not be propagated to terminals",
           "do_append_everywhere_integrals": "everywhere integrals would be added to numbered ones"}
    for k, v in want.items():
        key = f"{f.key}:compute_form_data:{k}"
        res.ob(key)
        a = kw.get(k)
        if a is None:
            res.fail(key, f"compute_form_data is called without {k}={v}: {why[k]}", an.line(cs[0]))
            continue
        try:
            val = const_value(a)
        except ValueError:
            consts = {x for x in sl.constants(a) if isinstance(x, bool)}
            if len(consts) != 1:
                raise AnalysisError(f"_analyze_form: cannot resolve {k}={ast.unparse(a)}")
            val = consts.pop()
        if val is not v:
            res.fail(key, f"compute_form_data is called with {k}={val}: {why[k]}", an.line(cs[0]))
    key = f"{f.key}:compute_form_data:preserve_geometry_types"
    res.ob(key)
    a = kw.get("preserve_geometry_types")
    if a is None or "Jacobian" not in sl.text(a):
        res.fail(key, "the Jacobian is not preserved during geometry lowering (the generator computes J from coordinate_dofs tables)", an.line(cs[0]))
    key = f"{f.key}:compute_form_data:form"
    res.ob(key)
    if not cs[0].args or ast.unparse(cs[0].args[0]) != f.params[0]:
        res.fail(key, "compute_form_data is not applied to the form being analysed", an.line(cs[0]))
    # expression pipeline
    g = an.func("_analyze_expression")
    res.functions.add(g.key)
    seq = []
    for st in g.node.body:
        if isinstance(st, ast.Assign) and isinstance(st.value, ast.Call):
            nm = (call_name(st.value) or "").split(".")[-1]
            arg0 = ast.unparse(st.value.args[0]) if st.value.args else ""
            tgt = ast.unparse(st.targets[0])
            if nm.startswith("apply_"):
                seq.append((nm, arg0, tgt, st))
    key = f"{g.key}:order"
    res.ob(key)
    names = [s[0] for s in seq]
    want_seq = ["apply_algebra_lowering", "apply_derivatives", "apply_function_pullbacks", "apply_geometry_lowering", "apply_derivatives",
                "apply_geometry_lowering", "apply_derivatives"]
    if names != want_seq:
        res.fail(key, f"expression preprocessing runs {names}; required {want_seq} (derivatives before pull-backs, geometry lowering after them)", an.line(g.node))
    key = f"{g.key}:chained"
    res.ob(key)
    var = g.params[0]
    for nm, arg0, tgt, st in seq:
        if arg0 != var or tgt != var:
            res.fail(key, f"{nm} is applied to `{arg0}` and stored in `{tgt}`: the passes are not chained on `{var}`", an.line(st))
    key = f"{g.key}:jacobian-preserved"
    res.ob(key)
    gsl = Slicer(g.node)
    for nm, arg0, tgt, st in seq:
        if nm == "apply_geometry_lowering":
            if len(st.value.args) < 2 or "Jacobian" not in gsl.text(st.value.args[1]):
                res.fail(key, "geometry lowering of expressions does not preserve the Jacobian", an.line(st))
    key = f"{g.key}:returns"
    res.ob(key)
    rets = [n for n in walk_no_nested(g.node) if isinstance(n, ast.Return)]
    if not rets or ast.unparse(rets[0].value) != var:
        res.fail(key, "_analyze_expression does not return the processed expression", an.line(g.node))


FACT = "ffcx.ir.analysis.factorization"


class _CondMarker:
    """The condition operand of a conditional, with the truth value assumed in this run."""

    def __init__(self, value):
        self.value = value


def _rat_conj(r):
    """Complex conjugation on the symbolic domain: factor symbols a -> a* (involution); argument symbols u<k> are real."""
    from ..absint import IMAG, Rat

    def cpoly(p):
        out = {}
        for mono, c in p.items():
            m2 = []
            for v, k in mono:
                if v == IMAG:
                    m2.append((v, k))
                    if k % 2:
                        c = -c
                elif v.startswith("u"):
                    m2.append((v, k))
                elif v.endswith("*"):
                    m2.append((v[:-1], k))
                else:
                    m2.append((v + "*", k))
            out[tuple(sorted(m2))] = c
        return out

    return Rat(cpoly(r.num), cpoly(r.den))


def Rat_s():
    from ..absint import Rat

    return Rat.var("s")


def _fact_run(repo, handler_name, fac_spec, sf_spec, cond_value=None):
    """Interpret one factorisation handler on symbolic operands.

    fac_spec: per operand a dict {argkey: symbol name} (empty = argument-free operand)
    sf_spec:  per operand the scalar expression (Rat) or "cond" or None
    Returns (meaning of the result, result keys, meanings of the operands).
    """
    from ..absint import Interp, Node, Rat, _PyCall
    from ..lnodes_model import load_classes

    it = Interp(repo, load_classes(repo), primary=FACT)
    nodes: dict = {}
    F = Node("ExpressionGraph", nodes=nodes)

    def insert(_F, expr):
        i = len(nodes)
        nodes[i] = {"expression": expr}
        return i

    def cond(c, t, f):
        if not isinstance(c, _CondMarker):
            return Rat.var("NOT_THE_CONDITION")
        return t if c.value else f

    it.overrides = {
        "graph_insert": _PyCall(insert),
        "conditional": _PyCall(cond),
        "Conj": _PyCall(lambda x: _rat_conj(x)),
        "as_ufl": _PyCall(lambda x: Rat.const(__import__("fractions").Fraction(x))),
    }
    fac = []
    operand_meaning = []

    def argprod(key):
        out = Rat.const(1)
        for a_ in key:
            out = out * Rat.var(f"u{a_}")
        return out

    for spec, sfx in zip(fac_spec, sf_spec):
        d = {}
        mean = Rat.const(0)
        for key, sym in spec.items():
            val = sym if isinstance(sym, Rat) else Rat.var(sym)
            d[key] = insert(F, val)
            mean = mean + val * argprod(key)
        fac.append(d)
        if not spec:
            mean = sfx if isinstance(sfx, Rat) else None
        operand_meaning.append(mean)
    sf = [(_CondMarker(cond_value) if isinstance(x, str) else x) for x in sf_spec]
    h = repo.mod(FACT).func(handler_name)
    out = it.call_f(h, [None, fac, sf, F])
    if not isinstance(out, dict):
        raise AnalysisError(f"{handler_name}: result is not a factor map")
    total = Rat.const(0)
    for key, fi in out.items():
        if fi not in nodes:
            from ..absint import Raised

            raise Raised(f"the factor recorded for key {key} is {fi!r}, which is not a node of the factorisation graph")
        total = total + nodes[fi]["expression"] * argprod(key)
    return total, list(out.keys()), operand_meaning


@rule(
    "FACT-LAWS",
    ["C01"],
    "each handler of the argument factorisation (Sum, Product, Division, Conditional; Conj: CONJ-LAW too) is "
    "interpreted from source on symbolic operands: with factors a_k of argument keys k, the meaning "
    "sum_k result[k] * prod(args of k) must equal the operation applied to the operands' meanings (polynomial "
    "normal form; conditionals under both truth values of the condition), and result keys are sorted tuples",
    min_instances=13,
)
def fact_laws(repo, res):
    from ..absint import Raised, Rat

    m = repo.mod(FACT)
    S = Rat.var("s")
    Z = Rat.const(0)
    cases = [
        # (handler, label, fac specs, sf specs, expected(op meanings, cond), cond values)
        ("handle_sum", "overlapping keys", [{(0,): "a", (1,): "b"}, {(1,): "c", (2,): "d"}], [None, None], lambda M, c: M[0] + M[1], (None,)),
        ("handle_sum", "rank-2 keys", [{(0, 1): "a", (0, 2): "b"}, {(0, 2): "c"}], [None, None], lambda M, c: M[0] + M[1], (None,)),
        ("handle_product", "scalar * arg", [{}, {(0,): "a", (1,): "b"}], [S, None], lambda M, c: M[0] * M[1], (None,)),
        ("handle_product", "arg * scalar", [{(0,): "a", (1,): "b"}, {}], [None, S], lambda M, c: M[0] * M[1], (None,)),
        ("handle_product", "arg * arg", [{(1,): "a", (2,): "b"}, {(0,): "c", (3,): "d"}], [None, None], lambda M, c: M[0] * M[1], (None,)),
        ("handle_division", "arg / scalar", [{(0,): "a", (1,): "b"}, {}], [None, S], lambda M, c: M[0] / M[1], (None,)),
        ("handle_conj", "conj", [{(0,): "a", (1,): "b"}], [None], lambda M, c: _rat_conj(M[0]), (None,)),
        ("handle_conditional", "both branches, overlapping keys", [{}, {(0,): "a", (1,): "b"}, {(1,): "c", (2,): "d"}], ["cond", None, None],
         lambda M, c: M[1] if c else M[2], (True, False)),
        ("handle_conditional", "true branch only", [{}, {(0,): "a"}, {}], ["cond", None, Z], lambda M, c: M[1] if c else Z, (True, False)),
        ("handle_conditional", "false branch only", [{}, {}, {(0,): "a", (2,): "b"}], ["cond", Z, None], lambda M, c: Z if c else M[2], (True, False)),
    ]
    # a sum of an argument-dependent and an argument-free operand has no factorisation: it must be rejected (forms never get
    # here thanks to UFL's arity check, expressions such as `u + f` do), not reduced to its argument-dependent half
    for label, facs, sfs in (("argument term + scalar", [{(0,): "a"}, {}], [None, S]), ("scalar + argument term", [{}, {(0,): "a", (1,): "b"}], [S, None])):
        h = m.func("handle_sum")
        key = f"{h.key}:mixed-rank:{label}"
        res.ob(key)
        try:
            got, keys, M = _fact_run(repo, "handle_sum", facs, sfs, None)
            res.fail(key, f"handle_sum on {label} ({facs}) returns factors for the keys {keys} meaning {_show(got)}: the argument-free summand is silently dropped "
                     "(compile_expressions([(u + f, pts)]) evaluates u alone); operands of different argument rank must be rejected", m.line(h.node))
        except Raised:
            pass
    for hname, label, facs, sfs, expect, conds in cases:
        h = m.func(hname)
        res.functions.add(h.key)
        for cv in conds:
            key = f"{h.key}:law:{label}" + ("" if cv is None else f":condition={cv}")
            res.ob(key)
            try:
                got, keys, M = _fact_run(repo, hname, facs, sfs, cv)
            except Raised as e:
                res.fail(key, f"{hname} raises ({e.what}) on {label} ({facs})", m.line(h.node))
                continue
            want = expect(M, cv)
            if not (got == want):
                res.fail(key, f"{hname} on {label}: operands {[dict(f) for f in facs]} (scalar {['cond' if isinstance(x, str) else ('-' if x is None else 's/0') for x in sfs]}) give "
                         f"factors whose meaning {_show(got)} differs from the operation's {_show(want)}"
                         + ("" if cv is None else f" when the condition is {cv}"), m.line(h.node))
            bad = [k for k in keys if not isinstance(k, tuple) or list(k) != sorted(k)]
            if bad:
                res.fail(key, f"{hname} on {label}: result key {bad[0]!r} is not a sorted tuple (the same argument pair would be recorded twice)", m.line(h.node))


def _show(r):
    def poly(p):
        terms = []
        for mono, c in sorted(p.items()):
            t = "*".join(v if k == 1 else f"{v}^{k}" for v, k in mono) or "1"
            terms.append(t if c == 1 else f"{c}*{t}")
        return " + ".join(terms) or "0"

    return poly(r.num) if r.den == {(): 1} else f"({poly(r.num)})/({poly(r.den)})"


IG = "ffcx.codegeneration.integral_generator"


@rule(
    "CONJ-LAW",
    ["C09", "C01"],
    "conj(sum_k f_k * arg_k) = sum_k conj(f_k) * arg_k: inside handle_conj every store into the returned factor "
    "map, on every path, is graph_insert(F, Conj(<the factor expression of the same key>)); an argument-free operand "
    "keeps the conjugated scalar; nothing passes through unconjugated (literals can be complex)",
    min_instances=3,
)
def conj_law(repo, res):
    m = repo.mod(FACT)
    f = m.func("handle_conj")
    res.functions.add(f.key)
    from ..absint import Raised

    from ..absint import IMAG, Rat

    lit = Rat.const(2) + Rat.const(3) * Rat.var(IMAG)
    for label, spec in (("two argument factors", {(0,): "a", (1,): "b"}), ("a complex literal factor", {(0,): "a", (1,): lit}), ("rank-2 keys", {(0, 1): "a", (0, 2): "b", (1, 2): "c"}), ("single factor", {(3,): "z"})):
        key = f"{f.key}:law:{label}"
        res.ob(key)
        try:
            got, keys, M = _fact_run(repo, "handle_conj", [spec], [None])
        except Raised as e:
            res.fail(key, f"handle_conj raises ({e.what}) on {spec}", m.line(f.node))
            continue
        want = _rat_conj(M[0])
        if not (got == want) or sorted(keys) != sorted(spec):
            res.fail(key, f"handle_conj on factors {spec} records factors meaning {_show(got)} under keys {keys}; conj(sum_k f_k*arg_k) = sum_k conj(f_k)*arg_k requires "
                     f"{_show(want)}: a factor of conj(f*arg) must be recorded as Conj(f) for every f - inner(u, (2+3j)*v) would otherwise be assembled with (2+3j) "
                     "instead of (2-3j)", m.line(f.node))
    key = f"{f.key}:scalar"
    res.ob(key)
    try:
        got, keys, M = _fact_run(repo, "handle_conj", [{}], [Rat_s()])
        if keys:
            res.fail(key, f"handle_conj of an argument-free operand returns factors {keys}", m.line(f.node))
    except Raised:
        pass  # argument-free operands are not factorised: the caller keeps Conj(v) as a scalar
    # the table: Conj, Real, Imag handlers
    key = f"{m.name}:handler-table"
    res.ob(key)
    decos = [ast.unparse(d).replace(" ", "") for d in f.node.decorator_list]
    if not any(re.fullmatch(r"\w+\.register\(Conj\)", d) for d in decos) and not re.search(r"Conj: handle_conj", ast.unparse(m.tree)):
        res.fail(key, "Conj is not dispatched to handle_conj", m.line(f.node))
    others = [g for g in m.funcs.values() if g.node is not f.node and any(re.fullmatch(r"\w+\.register\(Conj\)", ast.unparse(d).replace(" ", "")) for d in g.node.decorator_list)]
    if others:
        res.fail(key, f"Conj is also registered to {others[0].qualname if hasattr(others[0], 'qualname') else others[0].key}", m.line(others[0].node))


@rule(
    "RULE-COHERENCE",
    ["C01", "C11"],
    "within the integral generator one (cell, quadrature rule) pair selects the factorisation graph, the "
    "block contributions, the modified arguments and (BOUND-SAMESRC) weights and tables; generate() hands "
    "each key of the integrand map to the piecewise partition and to the quadrature loop of the same rule, "
    "only for the kernel's own cell type; every A += is fw * argument tables with fw = factor * weight",
    min_instances=8,
)
def rule_coherence(repo, res):
    m = repo.mod(IG)
    for q in ("IntegralGenerator.generate_piecewise_partition", "IntegralGenerator.generate_varying_partition",
              "IntegralGenerator.generate_dofblock_partition", "IntegralGenerator.get_arg_factors", "IntegralGenerator.generate_block_parts"):
        f = m.func(q)
        res.functions.add(f.key)
        s = ast.unparse(f.node)
        key = f"{f.key}:integrand-key"
        res.ob(key)
        params = f.params
        rp = [p for p in params if "rule" in p]
        dp = [p for p in params if p == "domain"]
        hits = re.findall(r"integrand\[\(?(\w+), (\w+)\)?\]\['(\w+)'\]", s)
        if not hits:
            res.fail(key, f"{q} no longer reads the integrand map under its own (domain, quadrature rule) key", m.line(f.node))
            continue
        for a, b, what in hits:
            if not rp or not dp or a != dp[0] or b != rp[0]:
                res.fail(key, f"{q} reads integrand[({a}, {b})]['{what}'] - not the (domain, quadrature rule) it was called for: "
                         "factors, blocks or arguments of another rule are combined with this rule's weights", m.line(f.node))
    g = m.func("IntegralGenerator.generate")
    res.functions.add(g.key)
    s = ast.unparse(g.node)
    key = f"{g.key}:per-rule-dispatch"
    res.ob(key)
    mm = _find(s, r"for (?P<c>\w+), (?P<r>\w+) in self\.ir\.expression\.integrand\.keys\(\):\n\s+if (?P<t>[^\n]+):\n\s+\w+ \+= self\.generate_piecewise_partition\((?P<r1>\w+), (?P<c1>\w+)\)\n\s+\w+ \+= self\.generate_quadrature_loop\((?P<r2>\w+), (?P<c2>\w+)\)",
               "per-rule generation loop")
    t = mm.group("t").replace(" ", "")
    if not (mm.group("r") == mm.group("r1") == mm.group("r2") and mm.group("c") == mm.group("c1") == mm.group("c2")
            and t in (f"domain=={mm.group('c')}", f"{mm.group('c')}==domain")):
        res.fail(key, "generate() does not hand each (cell, rule) of this kernel's cell type to the piecewise partition and the quadrature loop", m.line(g.node))
    key = f"{g.key}:order"
    res.ob(key)
    if not re.search(r"parts \+= all_preparts\n\s+parts \+= all_quadparts", s):
        res.fail(key, "piecewise definitions are not emitted before the quadrature loops that use them", m.line(g.node))
    q = m.func("IntegralGenerator.generate_quadrature_loop")
    s = ast.unparse(q.node)
    key = f"{q.key}:same-rule"
    res.ob(key)
    a = _find(s, r"self\.generate_varying_partition\((?P<r>\w+), (?P<d>\w+)\)", "varying partition call")
    b = _find(s, r"self\.generate_dofblock_partition\((?P<r>\w+), (?P<d>\w+)\)", "dofblock partition call")
    if not (a.group("r") == b.group("r") == q.params[1] and a.group("d") == b.group("d") == q.params[2]):
        res.fail(key, "varying partition and dof blocks of a quadrature loop are generated for different rules", m.line(q.node))
    key = f"{q.key}:code-order"
    res.ob(key)
    if "code = definitions + intermediates + tensor_comp" not in s:
        res.fail(key, "loop body is not definitions, then intermediates (fw), then tensor computation", m.line(q.node))
    f = m.func("IntegralGenerator.generate_block_parts")
    s = ast.unparse(f.node)
    key = f"{f.key}:factor-lookup"
    res.ob(key)
    fl = _find(s, r"(?P<fi>\w+) = blockdata\.factor_indices_comp_indices\[0\]\[0\]", "factor index")
    vv = _find(s, r"(?P<v>\w+) = (?P<F>\w+)\.nodes\[(?P<fi>\w+)\]\['expression'\]\n\s+(?P<f>\w+) = self\.get_var\((?P<r>\w+), (?P<d>\w+), (?P<v2>\w+)\)", "factor value lookup")
    fdef = re.findall(rf"\b{vv.group('F')} = ([^\n]+)\n", s)
    if fdef != [f"self.ir.expression.integrand[{f.params[2]}, {f.params[1]}]['factorization']"]:
        res.fail(key, f"the factorisation graph used for the block factors is `{fdef}`, not the one of this (cell, rule)", m.line(f.node))
    if not (vv.group("fi") == fl.group("fi") and vv.group("v") == vv.group("v2") and vv.group("r") == f.params[1] and vv.group("d") == f.params[2]):
        res.fail(key, "the scalar factor of a block is not looked up in this rule's factorisation graph / scope", m.line(f.node))
    key = f"{f.key}:product"
    res.ob(key)
    fw = _find(s, r"(?P<fwr>\w+) = L\.float_product\(\[(?P<f>\w+), (?P<w>\w+)\]\)", "fw = f * weight")
    br = _find(s, r"(?P<B>\w+) = L\.float_product\(\[(?P<fw>\w+)\] \+ (?P<af>\w+)\)", "B = fw * argument factors")
    if fw.group("f") != vv.group("f"):
        res.fail(key, "fw is not (factor of this block) * weight", m.line(f.node))
    if not re.search(rf"rhs_expressions\[tuple\(\w+\)\]\.append\({br.group('B')}\)", s) or not re.search(rf"{br.group('af')}, \w+ = self\.get_arg_factors\(", s):
        res.fail(key, "the accumulated right-hand side is not fw * (argument table values of this block)", m.line(f.node))


@rule(
    "SCOPE-KEY",
    ["C11", "C01"],
    "IntegralGenerator caches generated sub-expressions per (cell, rule) plus a rule-independent piecewise "
    "scope that lookups fall back to. Whether a node must be (re)generated in a partition may only be "
    "decided from the scope that partition writes to: piecewise status is computed per rule (a one-point "
    "rule makes everything piecewise), so a value cached by another rule's piecewise partition must not "
    "suppress the varying definition of this rule (behavioural part: GEN-PARTITION; here: the shared piecewise scope "
    "against the per-rule table classification)",
    min_instances=1,
)
def scope_key(repo, res):
    m = repo.mod(IG)
    # set_var / get_var / init_scopes / generate_partition: interpreted on a two-rule sample - rule GEN-PARTITION
    # the piecewise scope is shared by all rules, but the factorisation graph whose `piecewise` nodes fill it
    # is selected per (cell, rule): sound only if `piecewise` cannot be an artefact of the rule
    pp = m.func("IntegralGenerator.generate_piecewise_partition")
    res.functions.add(pp.key)
    key = f"{pp.key}:shared-scope-vs-per-rule-classification"
    res.ob(key)
    from ..absint import Interp, Node, Raised, _PyCall
    from ..lnodes_model import load_classes
    from ..npmodel import NDArr, install_arrays

    it = Interp(repo, load_classes(repo), primary=IG)
    it.obj_classes = {"IntegralGenerator": IG}
    calls = []
    rule_ = Node("QuadratureRule", id=_PyCall(lambda: "r1"))
    graph = Node("ExpressionGraph", nodes={})
    gen = Node("IntegralGenerator", ir=Node("IntegralIR", expression=Node("ExpressionIR", integrand={("triangle", rule_): {"factorization": graph}})),
               generate_partition=_PyCall(lambda *a: calls.append(a) or ([], [])))
    try:
        it.call_f(pp, [gen, rule_, "triangle"])
    except Raised as e:
        raise AnalysisError(f"generate_piecewise_partition raises on the sample ({e.what})")
    if len(calls) != 1 or len(calls[0]) != 5 or calls[0][1] is not graph or calls[0][2] != "piecewise":
        raise AnalysisError("generate_piecewise_partition: call of generate_partition(symbol, F, 'piecewise', rule, domain) not recognised")
    call = [c for c in calls_in(pp.node) if (call_name(c) or "").endswith("generate_partition")]
    shared = calls[0][3] is None and calls[0][4] is None
    et = repo.mod("ffcx.ir.elementtables")
    att = et.func("analyse_table_type")
    res.functions.update({att.key})
    # one-point table that differs between entities and dofs: `piecewise` for this rule only because the rule has a single point
    one_point = NDArr([[[[2, 3]], [[5, 7]]]], (1, 2, 1, 2))
    try:
        tt = install_arrays(Interp(repo, load_classes(repo), primary="ffcx.ir.elementtables")).call_f(att, [one_point])
    except Raised as e:
        raise AnalysisError(f"analyse_table_type raises on a one-point table ({e.what})")
    vacuous = tt in ("piecewise", "fixed")
    if shared and vacuous:
        res.fail(key, "the piecewise scope (None, None) is shared by all quadrature rules of an integral, but a node's `piecewise` status "
                 "comes from the tables of one rule and is_piecewise_table is vacuously true for a one-point rule: with two different "
                 "one-point rules (f*v*dx(custom point p) + f*v*dx(custom point q), f in P2) the second rule reuses f evaluated at p",
                 m.line(call[0]) if call else m.line(pp.node))


def _enclosing_if(root, target):
    """Innermost ast.If under root whose body or orelse contains target."""
    best = None
    for n in ast.walk(root):
        if isinstance(n, ast.If) and any(x is target for b in n.body + n.orelse for x in ast.walk(b)):
            if best is None or any(x is n for x in ast.walk(best)):
                best = n
    return best


def _guard_var_from_own_scope(fnode, guard) -> bool:
    """The guard tests a local that was read from self.scopes[(domain, quadrature_rule)]."""
    names = {n.id for n in ast.walk(guard.test) if isinstance(n, ast.Name)}
    for n in walk_no_nested(fnode):
        if isinstance(n, ast.Assign) and isinstance(n.targets[0], ast.Name) and n.targets[0].id in names:
            t = ast.unparse(n.value)
            if re.search(r"self\.scopes\[\(?domain, quadrature_rule\)?\]", t) and "get_var" not in t:
                return True
    return False


@rule(
    "QMETA-FLOW",
    ["C11", "C01", "C06"],
    "two quadrature rules are equal only if points and weights are. (Degree / scheme selection per integral: QMETA-INTERP; grouping: "
    "QRULE-GROUP; summation per rule and what each integral group receives: GEN-INTEGRAL-IR; the call of create_quadrature for the "
    "requested degree, scheme and elements: the quadrature matrix of OPT-GATE; polyset family: QUAD-FAMILY.)",
    min_instances=1,
)
def qmeta_flow(repo, res):
    ru = repo.mod("ffcx.ir.representationutils")
    qr = ru.func("QuadratureRule.__eq__")
    res.functions.add(qr.key)
    key = f"{qr.key}:points-and-weights"
    res.ob(key)
    cmp_fields = {n.attr for n in ast.walk(qr.node) if isinstance(n, ast.Attribute) and isinstance(n.value, ast.Name) and n.value.id == "self"}
    if not {"points", "weights"} <= cmp_fields:
        res.fail(key, "two quadrature rules compare equal without comparing both points and weights: different rules are merged", ru.line(qr.node))


def _quadrature_matrix(repo, res, ru, cq):
    """create_quadrature_points_and_weights interpreted for every (integral type, cell, use_tensor_product).

    `create_quadrature` is a recording stub that returns a distinct sample rule per reference cell; the
    specification: tensor factors exist only for cell integrals on quadrilaterals / hexahedra with the
    option on, they are one interval rule of the requested degree per direction, and the points/weights
    are their Cartesian product; everything else is the plain rule of each integration entity type.
    """
    import itertools
    from fractions import Fraction as Fr

    from ..absint import Interp, Node, Raised, _PyCall
    from ..lnodes_model import load_classes

    sample = {"interval": ([[Fr(1, 4)], [Fr(3, 4)], [Fr(1, 2)]], [Fr(1, 3), Fr(1, 2), Fr(1, 6)]),
              "vertex": ([[]], [Fr(1)])}
    for i_, nm in enumerate(("triangle", "quadrilateral", "tetrahedron", "hexahedron", "prism", "pyramid")):
        sample[nm] = ([[Fr(1, 7 + i_)] * 2, [Fr(2, 9 + i_)] * 2], [Fr(1, 5 + i_), Fr(4, 5 + i_)])
    facets = {"interval": ["vertex"], "triangle": ["interval"], "quadrilateral": ["interval"], "tetrahedron": ["triangle"],
              "hexahedron": ["quadrilateral"], "prism": ["triangle", "quadrilateral"]}
    ridges = {"triangle": ["vertex"], "quadrilateral": ["vertex"], "tetrahedron": ["interval"], "hexahedron": ["interval"], "prism": ["interval"]}
    itypes = ["cell", "exterior_facet", "interior_facet", "vertex", "ridge", "expression"]

    from ..npmodel import NDArr, install_arrays

    def plain(v):
        if isinstance(v, NDArr):
            return plain(v.tolist())
        if isinstance(v, dict):
            return {k_: plain(x) for k_, x in v.items()}
        if isinstance(v, tuple):
            return tuple(plain(x) for x in v)
        if isinstance(v, list):
            return [plain(x) for x in v]
        return v

    for itype in itypes:
        for cname in facets:
            if itype == "ridge" and cname not in ridges:
                continue
            for tp in (False, True):
                key = f"{cq.key}:rule[{itype},{cname},tensor={tp}]"
                res.ob(key)
                calls = []

                # element_interface.create_quadrature itself is interpreted (whatever its signature); basix.make_quadrature is the recording stub
                def make_quadrature(ct, degree, rule=None, polyset_type=None, _c=calls):
                    _c.append((ct, degree, rule, polyset_type))
                    pts, wts = sample[ct]
                    return (NDArr([list(p_) for p_ in pts], (len(pts), len(pts[0]))), NDArr(list(wts), (len(wts),)))  # basix returns arrays

                it = install_arrays(Interp(repo, load_classes(repo), primary="ffcx.ir.representationutils"))
                it.overrides["basix.make_quadrature"] = _PyCall(make_quadrature)
                it.overrides["basix.PolysetType.standard"] = "PolysetType.standard"
                it.overrides["basix.polyset_superset"] = _PyCall(lambda ct, a, b: a if a == b or b == "PolysetType.standard" else b)
                it.overrides["basix.quadrature.string_to_type"] = _PyCall(lambda r: f"QuadratureType.{r}")
                it.overrides["_CellType"] = {n_: n_ for n_ in sample}
                it.overrides["np.ones"] = _PyCall(lambda shape, **k: NDArr([[]], (1, 0)) if tuple(shape if not isinstance(shape, int) else (shape,)) == (1, 0)
                                                  else NDArr([Fr(1)] * (shape if isinstance(shape, int) else shape[0])))
                it.overrides["np.float64"] = "float64"

                def prod(x):
                    out = Fr(1)
                    for v in (x.flat() if isinstance(x, NDArr) else x):
                        out *= v
                    return out
                it.overrides["itertools.product"] = _PyCall(lambda *its: [tuple(x) for x in itertools.product(*[list(i) for i in its])])
                it.overrides["ufl.measure.facet_integral_types"] = ("exterior_facet", "interior_facet")
                it.overrides["ufl.measure.ridge_integral_types"] = ("ridge",)
                it.overrides["ufl.measure.point_integral_types"] = ("vertex",)
                it.overrides["ufl.custom_integral_types"] = ("cutcell", "interface", "overlap", "custom")
                it.overrides["logger"] = Node("Logger", exception=_PyCall(lambda *a: None), info=_PyCall(lambda *a: None))
                tdims = {"vertex": 0, "interval": 1, "triangle": 2, "quadrilateral": 2, "tetrahedron": 3, "hexahedron": 3, "prism": 3, "pyramid": 3}

                def mkcell(n_):
                    return Node("Cell", cellname=n_, topological_dimension=tdims[n_], geometric_dimension=tdims[n_])
                cell = mkcell(cname)
                cell.f["facet_types"] = [mkcell(f_) for f_ in facets[cname]]
                cell.f["ridge_types"] = [mkcell(r_) for r_ in ridges.get(cname, [])]
                try:
                    out = it.call_f(cq, [itype, cell, 3, "GLL", [Node("Element", polyset_type="PolysetType.macroedge")]], {"use_tensor_product": tp})
                    pts, wts, tf = plain(out[0]), plain(out[1]), plain(out[2])
                except Raised as e:
                    res.fail(key, f"create_quadrature_points_and_weights({itype!r}, {cname}, use_tensor_product={tp}) raises ({e.what})", ru.line(cq.node))
                    continue
                ents = {"cell": [cname], "exterior_facet": facets[cname], "interior_facet": facets[cname], "vertex": ["vertex"],
                        "ridge": ridges.get(cname, []), "expression": []}[itype]
                if any(c_[1:] != (3, "QuadratureType.GLL", "PolysetType.macroedge") for c_ in calls):
                    res.fail(key, f"the rule is not built for the requested degree (3) / scheme (GLL) / polyset of the elements (macroedge): basix.make_quadrature is called "
                             f"with (cell, degree, rule, polyset) = {calls[:2]}", ru.line(cq.node))
                ndir = {"quadrilateral": 2, "hexahedron": 3}.get(cname)
                if itype == "cell" and tp and ndir:
                    ip, iw = sample["interval"]
                    want_tf = {cname: [(plain(ip), plain(iw))] * ndir}
                    want_p = {cname: [tuple(q_[0] for q_ in c_) for c_ in itertools.product(*[ip] * ndir)]}
                    want_w = {cname: [prod(c_) for c_ in itertools.product(*[iw] * ndir)]}
                    got_tf = {k_: [(plain(f_[0]), plain(f_[1])) for f_ in v_] for k_, v_ in dict(tf).items()}
                    if got_tf != want_tf:
                        res.fail(key, f"the 1D factors are not one interval rule per direction ({ndir} for a {cname}) of the requested degree: "
                                 f"{ {k_: len(v_) for k_, v_ in got_tf.items()} } factor(s), built from {[c_[0] for c_ in calls]}", ru.line(cq.node))
                    else:
                        # the rule as a set of (point, weight) pairs; in which order the pairs are listed matters only to a consumer that addresses the
                        # flat arrays with the flattened loop index (rule SUMFACT-ORDER)
                        got_pairs = {k_: sorted(zip([tuple(q_) for q_ in v_], dict(wts).get(k_, []))) for k_, v_ in dict(pts).items()}
                        want_pairs = {k_: sorted(zip(want_p[k_], want_w[k_])) for k_ in want_p}
                        if got_pairs != want_pairs or {k_: len(v_) for k_, v_ in dict(wts).items()} != {k_: len(v_) for k_, v_ in want_w.items()}:
                            res.fail(key, "tensor-product points/weights are not the Cartesian product of the 1D rule, each point with the product of its factors' "
                                     "weights (the generated tensor then differs from the one the plain rule integrates)", ru.line(cq.node))
                    continue
                if dict(tf):
                    res.fail(key, f"tensor-product quadrature is not restricted to cell integrals on quadrilaterals / hexahedra with the option on: "
                             f"({itype}, {cname}, use_tensor_product={tp}) gets tensor factors for {sorted(dict(tf))}", ru.line(cq.node))
                want_p = {e_: plain(sample[e_][0]) for e_ in ents}
                want_w = {e_: plain(sample[e_][1]) for e_ in ents}
                if dict(pts) != want_p or dict(wts) != want_w:
                    res.fail(key, f"({itype}, {cname}, use_tensor_product={tp}): rules for {sorted(dict(pts))} built from {[c_[0] for c_ in calls]}; "
                             f"the integration entities are {ents}, each with its own reference rule", ru.line(cq.node))


@rule(
    "QUAD-MATRIX",
    ["C11", "C10", "C01"],
    "create_quadrature_points_and_weights (with element_interface.create_quadrature) interpreted for every (integral type, cell, "
    "use_tensor_product): basix is asked for the requested degree, scheme and the polyset of the argument elements for every integration "
    "entity type, one rule each; tensor factors exist only for cell integrals on quadrilaterals / hexahedra with the option on, they are "
    "one interval rule of the requested degree and scheme per direction and the points/weights are their Cartesian product",
    min_instances=60,
)
def quad_matrix(repo, res):
    ru = repo.mod("ffcx.ir.representationutils")
    cq = ru.func("create_quadrature_points_and_weights")
    res.functions.add(cq.key)
    res.functions.add(repo.mod("ffcx.element_interface").func("create_quadrature").key)
    _quadrature_matrix(repo, res, ru, cq)


@rule(
    "OPT-GATE",
    ["C10"],
    "an option that applies only under a condition (sum_factorization: cell integrals with a tensor-factor "
    "rule; part=diagonal: bilinear forms) must not control a `raise` or an index expression outside a guard "
    "implying that condition; the five places realising part=\"diagonal\" agree; table_rtol / table_atol "
    "reach the clamping of table values",
    min_instances=10,
)
def opt_gate(repo, res):
    et = repo.mod("ffcx.ir.elementtables")
    f = et.func("build_optimized_tables")
    res.functions.add(f.key)
    # sum_factorization: raises controlled by the raw option
    for n in walk_no_nested(f.node):
        if isinstance(n, ast.If) and "use_sum_factorization" in ast.unparse(n.test):
            key = f"{f.key}:sum_factorization:{'raise' if any(isinstance(x, ast.Raise) for x in n.body) else 'use'}"
            res.ob(key)
            t = ast.unparse(n.test)
            if any(isinstance(x, ast.Raise) for x in n.body):
                res.fail(key, f"`if {t}: raise`: with sum_factorization=True every integral without a tensor-product rule (facet integrals, "
                         "simplex cells) fails to compile instead of being generated as without the option (u*v*dx + u*v*ds on a quadrilateral)",
                         et.line(n))
            else:
                for need in ("has_tensor_factors", "has_tensor_product_factorisation"):
                    if need not in t or f"not quadrature_rule.{need}" in t:
                        res.fail(key, f"sum factorisation is applied under `{t}` without requiring {need}", et.line(n))
    # consumer side: the branch of table_access that multiplies per-direction factor tables needs tables that HAVE
    # tensor factors; it must be selected by the table, not by the shape of the loop indices alone
    am = repo.mod("ffcx.codegeneration.access")
    ta = am.func("FFCXBackendAccess.table_access")
    res.functions.add(ta.key)
    key = f"{ta.key}:tensor-branch-selected-by-table"
    res.ob(key)
    for n in walk_no_nested(ta.node):
        if isinstance(n, ast.If) and n.orelse and any("tensor_factors[" in ast.unparse(b) for b in n.orelse):
            t = ast.unparse(n.test)
            if "has_tensor_factorisation" not in t and "tensor_factors" not in t:
                res.fail(key, f"table_access multiplies tabledata.tensor_factors whenever `not ({t})`, i.e. whenever the quadrature rule is a tensor "
                         "rule, although tables get tensor factors only for elements with a tensor-product factorisation: with "
                         "sum_factorization=True an ordinary Q2 Laplacian on a quadrilateral dies with AssertionError instead of giving the "
                         "same tensor as without the option", am.line(n))
    # which rule every (integral type, cell, use_tensor_product) gets: rule QUAD-MATRIX (create_quadrature_points_and_weights interpreted)
    rep = repo.mod("ffcx.ir.representation")
    # (the rule builder ignores the option for non-cell integrals - quadrature matrix above - so the caller need not filter)
    # ---- part = diagonal. Where the option acts, and that it acts on bilinear forms only, is decided by interpreting each of the five
    # sites on samples of rank 0, 1 and 2 with and without the option: JIT-DIAGONAL (jit.compile_forms, diagonal blocks of mixed forms),
    # GEN-INTEGRAL-IR (representation._compute_integral_ir: rank, tensor shape), FORM-IR-SOURCES (_compute_form_ir), GEN-IRBLOCKS
    # (ir.integral: which blocks contribute), GEN-BLOCKS (IntegralGenerator.generate_block_parts: shared index), DIAG-TO-FORM (compute_ir
    # hands the option to the form IR). The site table of source patterns that used to stand here was removed.
    im = repo.mod("ffcx.ir.integral")
    # diagonal mode: only blocks on the diagonal (row dofs == column dofs) may contribute
    cii = im.func("_compute_integral_ir")
    res.functions.add(cii.key)
    key = f"{cii.key}:diagonal-skips-offdiagonal-blocks"
    res.ob(key)
    loop = None
    for n in ast.walk(cii.node):
        if isinstance(n, ast.For) and "argument_factorization.items()" in ast.unparse(n.iter):
            loop = n
    app = [] if loop is None else [c for c in calls_in(loop) if isinstance(c.func, ast.Attribute) and c.func.attr == "append" and isinstance(c.func.value, ast.Subscript)
                                   and ast.unparse(c.func.value.value) == "block_contributions"]
    if loop is None or len(app) != 1:
        # which blocks contribute is decided by GEN-IRBLOCKS (function interpreted); this reading of the loop only adds the reason
        res.notes.append("ir.integral._compute_integral_ir: block loop not in the recognised shape; the diagonal block filter is decided by GEN-IRBLOCKS alone")
    else:
        bm = ast.unparse(app[0].func.value.slice)
        app_stmt = [i for i, st in enumerate(loop.body) if any(x is app[0] for x in ast.walk(st))]
        ok = False
        for i, st in enumerate(loop.body):
            if not isinstance(st, ast.If) or not app_stmt or i >= app_stmt[0]:
                continue
            t = ast.unparse(st.test)
            cmp_ = [c for c in ast.walk(st.test) if isinstance(c, ast.Compare) and len(c.ops) == 1 and isinstance(c.ops[0], ast.NotEq)
                    and {ast.unparse(c.left), ast.unparse(c.comparators[0])} == {f"{bm}[0]", f"{bm}[1]"}]
            if "diagonal" in t and cmp_ and any(isinstance(b, ast.Continue) for b in st.body) and isinstance(st.test, ast.BoolOp) and isinstance(st.test.op, ast.And):
                ok = True
        other_skip = [st for i, st in enumerate(loop.body) if isinstance(st, ast.If) and "diagonal" in ast.unparse(st.test)
                      and any(isinstance(x, ast.Continue) for x in ast.walk(st))]
        if not ok and other_skip:
            res.fail(key, f"part=\"diagonal\": blocks are skipped under `{ast.unparse(other_skip[0].test)[:90]}` ... rather than by inequality of the two arguments' dof maps. "
                     "Whether a block has diagonal entries is decided by its dofs: different components living on the same dofs (RT, BDM, N1curl) do contribute to "
                     "A[i,i] and would be dropped; equal components with different dof ranges would be kept", im.line(other_skip[0]))
        elif not ok:
            res.fail(key, "part=\"diagonal\": every block of the argument factorisation is accumulated into the rank-1 tensor with one shared dof index, "
                     "including blocks whose row and column dofs differ (other component or sub-element, or the two sides of an interior facet): "
                     "jump(u)*jump(v)*dS and inner(sym(grad(u)), sym(grad(v)))*dx on mixed(P2^2, P1) do not give diag(A)", im.line(loop))
    # sum factorisation: a 1D factor table is shared between terminals only after its values were compared
    from ..cfg import reaching_definitions

    bt = et.func("build_optimized_tables")
    cfg_bt = CFG(bt.node)
    IN_bt, _ = reaching_definitions(cfg_bt, set(bt.params))
    byid = {n.id: n for n in cfg_bt.nodes}
    apps = [c for c in calls_in(bt.node) if isinstance(c.func, ast.Attribute) and c.func.attr == "append" and ast.unparse(c.func.value) == "tensor_factors"]
    if not apps:
        raise AnalysisError("build_optimized_tables: tensor_factors.append not found")
    for n_, c in enumerate(apps):
        key = f"{bt.key}:tensor-factor-reuse:{n_}"
        res.ob(key)
        arg = c.args[0]
        if not isinstance(arg, ast.Name):
            raise AnalysisError("tensor_factors.append of a non-name")
        site = cfg_bt.stmt_nodes_containing(c)[0].id
        for d in IN_bt[site].get(arg.id, ()):
            dn = byid.get(d)
            a = dn.ast if dn is not None else None
            if isinstance(a, ast.Assign) and isinstance(a.value, ast.Call) and (call_name(a.value) or "") == "UniqueTableReferenceT":
                continue  # a table created for this very factor
            # a pre-existing reference: the path to the append must pass a value comparison of it with the fresh table
            guards = []
            for g in ast.walk(bt.node):
                if isinstance(g, ast.If) and any(x is c for b in g.body for x in ast.walk(b)):
                    guards.append(g)
            compared = False
            for g in guards:
                for cc in ast.walk(g.test):
                    if isinstance(cc, ast.Call) and (call_name(cc) or "").split(".")[-1] in ("allclose", "array_equal", "equal_tables", "isclose"):
                        txt = [ast.unparse(x) for x in cc.args]
                        if any(t == f"{arg.id}.values" for t in txt) and len(txt) >= 2:
                            compared = True
            if not compared:
                how = ast.unparse(a)[:80] if a is not None else "parameter"
                res.fail(key, f"an existing factor table (`{how}`) is reused for this terminal without comparing its values with the freshly tabulated "
                         "1D table: elements of equal family/degree but different node placement (gll_warped P3 arguments, equispaced P3 coefficient) "
                         "would share one table, only when sum_factorization=True", et.line(c))
    # TOL-FLOW
    ii = repo.mod("ffcx.ir.integral").func("_compute_integral_ir")
    key = f"{ii.key}:tolerances"
    res.ob(key)
    def _bind(call, callee):
        ps = list(callee.params)
        b_ = {ps[i]: a for i, a in enumerate(call.args) if i < len(ps)}
        b_.update({k.arg: k.value for k in call.keywords if k.arg})
        return b_

    bt_calls = [c for c in calls_in(ii.node) if (call_name(c) or "").endswith("build_optimized_tables")]
    isl = Slicer(ii.node)
    if len(bt_calls) != 1:
        raise AnalysisError("_compute_integral_ir: call of build_optimized_tables not found")
    bb = _bind(bt_calls[0], f)
    for par, opt in (("rtol", "table_rtol"), ("atol", "table_atol")):
        a_ = bb.get(par)
        if a_ is None or f"['{opt}']" not in isl.text(a_).replace('"', "'"):
            res.fail(key, f"build_optimized_tables(... {par}={ast.unparse(a_) if a_ is not None else 'default'} ...): the option {opt} is not forwarded to the table builder",
                     "ffcx/ir/integral.py")
    key = f"{f.key}:clamp"
    res.ob(key)
    cl = et.func("clamp_table_small_numbers")
    cl_calls = [c for c in calls_in(f.node) if (call_name(c) or "").endswith("clamp_table_small_numbers")]
    if not cl_calls:
        res.fail(key, "table values are not clamped at all", et.line(f.node))
    fsl = Slicer(f.node)
    for c in cl_calls:
        cb_ = _bind(c, cl)
        for par in ("rtol", "atol"):
            a_ = cb_.get(par)
            if a_ is None or par not in fsl.param_roots(a_):
                res.fail(key, f"clamp_table_small_numbers is called with {par}={ast.unparse(a_) if a_ is not None else 'its default'}, not with the configured tolerance", et.line(c))
        if "numbers" in cb_:
            res.fail(key, f"clamp targets are overridden at the call (`{ast.unparse(cb_['numbers'])}`)", et.line(c))
    key = f"{cl.key}:targets"
    res.ob(key)
    dflt = dict(zip(reversed([a.arg for a in cl.node.args.args]), reversed(cl.node.args.defaults)))
    try:
        nums = tuple(const_value(dflt["numbers"])) if "numbers" in dflt else None
    except ValueError:
        nums = None
    if nums is None or sorted(nums) != [-1.0, 0.0, 1.0]:
        res.fail(key, f"clamp targets are {nums}, expected -1, 0, 1", et.line(cl.node))
    # how the values are compared with the targets: rule TABLE-CLAMP (the function interpreted on a sample table)
    # options table: every option consumed or inert
    om = repo.mod("ffcx.options")
    declared = set(const_value(k) for k in om.assign("FFCX_DEFAULT_OPTIONS").keys)
    used = set()
    for m in repo.modules.values():
        for n in ast.walk(m.tree):
            if isinstance(n, ast.Subscript) and isinstance(n.slice, ast.Constant) and isinstance(n.slice.value, str) \
                    and isinstance(n.value, ast.Name) and n.value.id in ("options", "p") and n.slice.value in declared:
                used.add(n.slice.value)
            if isinstance(n, ast.Call) and isinstance(n.func, ast.Attribute) and n.func.attr == "get" and n.args and isinstance(n.args[0], ast.Constant) \
                    and n.args[0].value in declared:
                used.add(n.args[0].value)
    key = "ffcx.options:declared-vs-consumed"
    res.ob(key)
    res.notes.append(f"options never read by the pipeline (inert): {sorted(declared - used)}")


EG = "ffcx.codegeneration.expression_generator"


@rule(
    "EXPR-LAYOUT",
    ["C04"],
    "in both branches of ExpressionGenerator.generate_block_parts the flattened index of A has the roles "
    "[point index, expression component, argument dofs...] over the sizes [num_points, prod(value shape)] "
    "+ tensor_shape (ufcx.h: A[num_points][num_components][num_argument_dofs]); the entity type follows "
    "from the dimension of the points",
    min_instances=5,
)
def expr_layout(repo, res):
    m = repo.mod(EG)
    f = m.func("ExpressionGenerator.generate_block_parts")
    res.functions.add(f.key)
    s = ast.unparse(f.node)
    sh = _find(s, r"(?P<sh>\w+) = \[(?P<np>\w+), (?P<nc>\w+)\] \+ self\.ir\.expression\.tensor_shape", "A shape")
    iq = _find(s, r"(?P<iq>\w+) = self\.backend\.symbols\.quadrature_loop_index\b", "point index symbol")
    mis = list(re.finditer(r"L\.MultiIndex\((?P<idx>[^\n]+), (?P<sh>\w+)\)", s))
    key = f"{f.key}:multi-index-count"
    res.ob(key)
    if len(mis) != 2:
        res.fail(key, f"{len(mis)} MultiIndex constructions for A (one per branch expected)", m.line(f.node))
    for i, mi in enumerate(mis):
        key = f"{f.key}:index-roles:{i}"
        res.ob(key)
        idx = mi.group("idx")
        # direct list or a local name
        if re.fullmatch(r"\w+", idx):
            d = re.search(rf"\b{idx} = ([^\n]+)\n", s)
            idx = d.group(1) if d else idx
        mm = re.fullmatch(r"\[(?P<A>\w+)\[0\], (?P<fc>\w+)\[1\]\] \+ (list\()?(?P<A2>\w+)\[1:\]\)?", idx)
        if not mm or mm.group("A") != mm.group("A2"):
            res.fail(key, f"A is indexed with `{idx}`; expected [point, component (fi_ci[1])] + argument indices", m.line(f.node))
            continue
        if mi.group("sh") != sh.group("sh"):
            res.fail(key, "A index is flattened with another shape than [num_points, components] + tensor_shape", m.line(f.node))
        A = mm.group("A")
        defs = re.findall(rf"\b{A} = tuple\(\[(\w+)\] \+ (?:list\()?(\w+)\)?\)", s)
        if not defs or any(d[0] != iq.group("iq") for d in defs):
            res.fail(key, f"the first entry of `{A}` is not the point index", m.line(f.node))
        if not re.search(rf"for {mm.group('fc')} in blockdata\.factor_indices_comp_indices", s):
            res.fail(key, "the component index is not the component of the factor being added", m.line(f.node))
    key = f"{f.key}:factor-of-component"
    res.ob(key)
    if len(re.findall(r"(\w+) = self\.get_var\(F\.nodes\[(\w+)\[0\]\]\['expression'\]\)", s)) != 2:
        res.fail(key, "the value added for a component is not the factor registered for that component", m.line(f.node))
    rep = repo.mod("ffcx.ir.representation")
    g = rep.func("_compute_expression_ir")
    res.functions.add(g.key)
    s = ast.unparse(g.node)
    key = f"{g.key}:entity-type"
    res.ob(key)
    et = re.search(r"if \(tdim := cell\.topological_dimension\) == \(pdim := points\.shape\[1\]\):\n\s+base_ir\['entity_type'\] = 'cell'\n\s+elif tdim - 1 == pdim:\n\s+base_ir\['entity_type'\] = 'facet'\n\s+else:\n\s+raise", s)
    if not et:
        res.fail(key, "entity type is not cell for tdim-dimensional points, facet for (tdim-1)-dimensional ones, and an error otherwise", rep.line(g.node))
    key = f"{g.key}:rule-from-points"
    res.ob(key)
    if not re.search(r"weights = np\.array\(\[1\.0\] \* points\.shape\[0\]\)\n\s+rule = QuadratureRule\(points, weights\)", s):
        res.fail(key, "the evaluation points do not enter the IR as a rule with unit weights (values would be scaled)", rep.line(g.node))
    key = f"{g.key}:shapes"
    res.ob(key)
    if "base_ir['shape'] = list(expr.ufl_shape)" not in s or "base_ir['tensor_shape'] = tensor_shape" not in s:
        res.fail(key, "value shape / argument shape of the expression are not recorded from the expression itself", rep.line(g.node))


@rule(
    "TOL-FORWARD",
    ["C10"],
    "inside every function of ir/elementtables.py that takes (rtol, atol), each call of a repository function that itself takes "
    "(rtol, atol) passes the caller's own tolerances (resolved through the callee's signature and local definitions), so that the "
    "configured table_rtol / table_atol govern clamping, classification (zeros / ones / piecewise / uniform / permuted) and "
    "table sharing alike - a comparison made with the built-in defaults changes results by more than the configured tolerances allow",
    min_instances=8,
)
def tol_forward(repo, res):
    et = repo.mod("ffcx.ir.elementtables")
    takers = {q: f for q, f in et.funcs.items() if "." not in q and {"rtol", "atol"} <= set(f.params)}
    for q, f in takers.items():
        res.functions.add(f.key)
        sl = Slicer(f.node)
        for c in calls_in(f.node):
            nm = (call_name(c) or "")
            callee = takers.get(nm)
            if callee is None and nm in ("np.allclose", "np.isclose", "numpy.allclose", "numpy.isclose"):
                class _NP:  # numpy's signature: (a, b, rtol=1e-05, atol=1e-08, equal_nan=False)
                    params = ["a", "b", "rtol", "atol", "equal_nan"]
                callee = _NP
            if callee is None:
                continue
            ps = list(callee.params)
            b_ = {ps[i]: a for i, a in enumerate(c.args) if i < len(ps)}
            b_.update({k.arg: k.value for k in c.keywords if k.arg})
            for par in ("rtol", "atol"):
                key = f"{f.key}:{nm}:{par}:{_call_ordinal(f.node, c, nm)}"
                res.ob(key)
                a_ = b_.get(par)
                if a_ is None:
                    res.fail(key, f"{q} calls {nm}(...) without {par}: the comparison uses the built-in default ({par} = default_{par}) instead of the tolerance "
                             f"{q} was called with, so table_{par} does not govern this decision (e.g. a table is classified `zeros` under the default although "
                             "its entries exceed the configured tolerance)", et.line(c))
                    continue
                roots = sl.param_roots(a_)
                if par not in roots:
                    res.fail(key, f"{q} calls {nm}(... {par}={ast.unparse(a_)} ...): not the caller's own {par}", et.line(c))


def _call_ordinal(fnode, call, name):
    k = 0
    for c in calls_in(fnode):
        if (call_name(c) or "") == name:
            if c is call:
                return k
            k += 1
    return k
