"""Pipeline rules for the numerical-semantics properties (C01, C04, C10, C11): structural necessary
conditions only - the numerical result itself is not decided statically.

PIPE-FLAGS      UFL lowering flags of compute_form_data; order of the expression pipeline
FACT-LAWS       each argument-factorisation handler inserts the combination its distributive law needs
RULE-COHERENCE  one (cell, quadrature rule) pair selects factorisation graph, blocks, arguments, weights
SCOPE-KEY       the cache of generated sub-expressions is consulted for regeneration only under the
                key it was written with (what is piecewise for one rule may vary for another)
QMETA-FLOW      metadata degree/scheme reach basix.make_quadrature; estimated degree only as fallback;
                vertex and custom rules use the points/weights they define; grouping by computed rule
OPT-GATE        options with an applicability condition never control a raise / index expression
                outside a guard implying that condition; DIAG-SITES agree; tolerances reach clamping
EXPR-LAYOUT     expression tensor index = [point, component, argument dofs]
"""

from __future__ import annotations

import ast
import re

from ..cfg import CFG
from ..flow import Slicer
from ..model import AnalysisError, call_name, calls_in, const_value, dotted, walk_no_nested
from ..registry import rule
from .kernel import _find


def _kwargs(call):
    return {k.arg: k.value for k in call.keywords if k.arg}


@rule(
    "PIPE-FLAGS",
    ["C01", "C04", "C09"],
    "compute_form_data is asked for pull-backs, integral scaling (|det J| into the integrand), geometry "
    "lowering with the Jacobian preserved, restriction propagation, no appended everywhere integrals and "
    "complex_mode = (scalar type is complex); expressions go through algebra lowering -> derivatives -> "
    "pull-backs -> geometry lowering (Jacobian preserved) -> derivatives -> geometry lowering -> "
    "derivatives, in this order on one variable",
    min_instances=9,
)
def pipe_flags(repo, res):
    an = repo.mod("ffcx.analysis")
    f = an.func("_analyze_form")
    res.functions.add(f.key)
    cs = [c for c in calls_in(f.node) if (call_name(c) or "").endswith("compute_form_data")]
    if len(cs) != 1:
        raise AnalysisError("_analyze_form: compute_form_data call not found")
    kw = _kwargs(cs[0])
    sl = Slicer(f.node)
    want = {"do_apply_function_pullbacks": True, "do_apply_integral_scaling": True, "do_apply_geometry_lowering": True,
            "do_apply_restrictions": True, "do_append_everywhere_integrals": False}
    why = {"do_apply_function_pullbacks": "basis functions would be evaluated without their reference-to-physical map (Piola, affine)",
           "do_apply_integral_scaling": "|det J| and the reference cell volume would be missing from every integral (invisible on the reference cell)",
           "do_apply_geometry_lowering": "geometric quantities would reach the generator unlowered",
           "do_apply_restrictions": "'+'/'-' would not be propagated to terminals",
           "do_append_everywhere_integrals": "everywhere integrals would be added to numbered ones"}
    for k, v in want.items():
        key = f"{f.key}:compute_form_data:{k}"
        res.ob(key)
        a = kw.get(k)
        if a is None:
            res.fail(key, f"compute_form_data is called without {k}={v}: {why[k]}", an.line(cs[0]))
            continue
        try:
            val = const_value(a)
        except ValueError:
            consts = {x for x in sl.constants(a) if isinstance(x, bool)}
            if len(consts) != 1:
                raise AnalysisError(f"_analyze_form: cannot resolve {k}={ast.unparse(a)}")
            val = consts.pop()
        if val is not v:
            res.fail(key, f"compute_form_data is called with {k}={val}: {why[k]}", an.line(cs[0]))
    key = f"{f.key}:compute_form_data:preserve_geometry_types"
    res.ob(key)
    a = kw.get("preserve_geometry_types")
    if a is None or "Jacobian" not in sl.text(a):
        res.fail(key, "the Jacobian is not preserved during geometry lowering (the generator computes J from coordinate_dofs tables)", an.line(cs[0]))
    key = f"{f.key}:compute_form_data:form"
    res.ob(key)
    if not cs[0].args or ast.unparse(cs[0].args[0]) != f.params[0]:
        res.fail(key, "compute_form_data is not applied to the form being analysed", an.line(cs[0]))
    # expression pipeline
    g = an.func("_analyze_expression")
    res.functions.add(g.key)
    seq = []
    for st in g.node.body:
        if isinstance(st, ast.Assign) and isinstance(st.value, ast.Call):
            nm = (call_name(st.value) or "").split(".")[-1]
            arg0 = ast.unparse(st.value.args[0]) if st.value.args else ""
            tgt = ast.unparse(st.targets[0])
            if nm.startswith("apply_"):
                seq.append((nm, arg0, tgt, st))
    key = f"{g.key}:order"
    res.ob(key)
    names = [s[0] for s in seq]
    want_seq = ["apply_algebra_lowering", "apply_derivatives", "apply_function_pullbacks", "apply_geometry_lowering", "apply_derivatives",
                "apply_geometry_lowering", "apply_derivatives"]
    if names != want_seq:
        res.fail(key, f"expression preprocessing runs {names}; required {want_seq} (derivatives before pull-backs, geometry lowering after them)", an.line(g.node))
    key = f"{g.key}:chained"
    res.ob(key)
    var = g.params[0]
    for nm, arg0, tgt, st in seq:
        if arg0 != var or tgt != var:
            res.fail(key, f"{nm} is applied to `{arg0}` and stored in `{tgt}`: the passes are not chained on `{var}`", an.line(st))
    key = f"{g.key}:jacobian-preserved"
    res.ob(key)
    gsl = Slicer(g.node)
    for nm, arg0, tgt, st in seq:
        if nm == "apply_geometry_lowering":
            if len(st.value.args) < 2 or "Jacobian" not in gsl.text(st.value.args[1]):
                res.fail(key, "geometry lowering of expressions does not preserve the Jacobian", an.line(st))
    key = f"{g.key}:returns"
    res.ob(key)
    rets = [n for n in walk_no_nested(g.node) if isinstance(n, ast.Return)]
    if not rets or ast.unparse(rets[0].value) != var:
        res.fail(key, "_analyze_expression does not return the processed expression", an.line(g.node))


FACT = "ffcx.ir.analysis.factorization"


@rule(
    "FACT-LAWS",
    ["C01"],
    "each handler of the argument factorisation inserts the combination required by its distributive "
    "law, recognised by operand roles: Sum f0+f1 per key (absent side passes through), Product scalar x "
    "each factor and factor x factor with the sorted union key, Division factor / scalar with an "
    "argument-free divisor, Conj Conj(factor), Conditional conditional(c, f1|0, f2|0) over the union of keys "
    "with an argument-free condition",
    min_instances=11,
)
def fact_laws(repo, res):
    m = repo.mod(FACT)

    def src(q):
        f = m.func(q)
        res.functions.add(f.key)
        return f, ast.unparse(f.node)

    # ---- Sum
    f, s = src("handle_sum")
    key = f"{f.key}:law"
    res.ob(key)
    mm = _find(s, r"(?P<a>\w+) = F\.nodes\[(?P<ia>\w+)\]\['expression'\]\n\s+(?P<b>\w+) = F\.nodes\[(?P<ib>\w+)\]\['expression'\]\n\s+(?P<r>\w+) = graph_insert\(F, (?P<e>[^\n]+)\)", "sum of two factors")
    e = mm.group("e").replace(" ", "")
    if e not in (f"{mm.group('a')}+{mm.group('b')}", f"{mm.group('b')}+{mm.group('a')}"):
        res.fail(key, f"factors of equal argument key are combined as `{mm.group('e')}`, not added (f*arg + g*arg = (f+g)*arg)", m.line(f.node))
    key = f"{f.key}:pass-through"
    res.ob(key)
    pt = _find(s, r"(?P<i0>\w+) = fac0\.get\((?P<k>\w+)\)\n\s+(?P<i1>\w+) = fac1\.get\((?P<k2>\w+)\)\n\s+if (?P<t1>\w+) is None:\n\s+(?P<r>\w+) = (?P<v1>\w+)\n\s+elif (?P<t2>\w+) is None:\n\s+(?P<r2>\w+) = (?P<v2>\w+)", "pass-through of one-sided keys")
    ok = pt.group("k") == pt.group("k2") and {pt.group("t1"), pt.group("v1")} == {pt.group("i0"), pt.group("i1")} and pt.group("t1") != pt.group("v1") \
        and {pt.group("t2"), pt.group("v2")} == {pt.group("i0"), pt.group("i1")} and pt.group("t2") != pt.group("v2") and pt.group("t1") != pt.group("t2")
    if not ok:
        res.fail(key, "a key present in only one summand does not pass that summand's factor through", m.line(f.node))
    if not re.search(rf"factors\[{pt.group('k')}\] = {pt.group('r')}\b", s):
        res.fail(key, "the combined factor is not stored under its argument key", m.line(f.node))
    key = f"{f.key}:all-keys"
    res.ob(key)
    if not re.search(r"argkeys = set\(fac0\) \| set\(fac1\)", s) or not re.search(r"for (\w+) in argkeys", s):
        res.fail(key, "the sum does not range over the union of both summands' argument keys (terms are dropped)", m.line(f.node))
    # ---- Product
    f, s = src("handle_product")
    key = f"{f.key}:scalar-times-factor"
    res.ob(key)
    a = _find(s, r"elif not fac0:.*?(?P<sc>\w+) = sf\[0\]\n.*?for (?P<k>\w+) in sorted\(fac1\):\n\s+(?P<fx>\w+) = F\.nodes\[fac1\[(?P<k2>\w+)\]\]\['expression'\]\n\s+factors\[(?P<k3>\w+)\] = graph_insert\(F, (?P<e>[^\n]+)\)", "scalar * argument-dependent")
    b = _find(s, r"elif not fac1:.*?(?P<sc>\w+) = sf\[1\]\n.*?for (?P<k>\w+) in sorted\(fac0\):\n\s+(?P<fx>\w+) = F\.nodes\[fac0\[(?P<k2>\w+)\]\]\['expression'\]\n\s+factors\[(?P<k3>\w+)\] = graph_insert\(F, (?P<e>[^\n]+)\)", "argument-dependent * scalar")
    for mm_ in (a, b):
        e = mm_.group("e").replace(" ", "")
        if not (mm_.group("k") == mm_.group("k2") == mm_.group("k3")) or e not in (f"{mm_.group('sc')}*{mm_.group('fx')}", f"{mm_.group('fx')}*{mm_.group('sc')}"):
            res.fail(key, f"scalar times argument-dependent operand is recorded as `{mm_.group('e')}` under key `{mm_.group('k3')}`", m.line(f.node))
    key = f"{f.key}:factor-times-factor"
    res.ob(key)
    c = _find(s, r"for (?P<k0>\w+) in sorted\(fac0\):\n\s+(?P<f0>\w+) = F\.nodes\[fac0\[(?P<k0b>\w+)\]\]\['expression'\]\n\s+for (?P<k1>\w+) in sorted\(fac1\):\n\s+(?P<f1>\w+) = F\.nodes\[fac1\[(?P<k1b>\w+)\]\]\['expression'\]\n\s+"
              r"(?P<ak>\w+) = (?P<kx>[^\n#]+?)\s*(?:#[^\n]*)?\n\s+factors\[(?P<ak2>\w+)\] = graph_insert\(F, (?P<e>[^\n]+)\)", "argument * argument")
    e = c.group("e").replace(" ", "")
    mu = re.fullmatch(r"tuple\(sorted\((.+)\)\)", c.group("kx").strip())
    u = mu.group(1).replace(" ", "") if mu else "<" + c.group("kx").strip() + ">"
    if not (c.group("k0") == c.group("k0b") and c.group("k1") == c.group("k1b") and c.group("ak") == c.group("ak2")
            and e in (f"{c.group('f0')}*{c.group('f1')}", f"{c.group('f1')}*{c.group('f0')}") and u in (f"{c.group('k0')}+{c.group('k1')}", f"{c.group('k1')}+{c.group('k0')}")):
        res.fail(key, f"product of two argument-dependent operands records `{c.group('e')}` under key `{c.group('kx').strip()}` "
                 "(must be the sorted union of both operands' argument keys)", m.line(f.node))
    # ---- Division
    f, s = src("handle_division")
    key = f"{f.key}:law"
    res.ob(key)
    d = _find(s, r"(?P<sc>\w+) = sf\[1\]\n.*?for (?P<k>\w+) in sorted\(fac0\):\n\s+(?P<fx>\w+) = F\.nodes\[fac0\[(?P<k2>\w+)\]\]\['expression'\]\n\s+factors\[(?P<k3>\w+)\] = graph_insert\(F, (?P<e>[^\n]+)\)", "factor / scalar")
    if d.group("e").replace(" ", "") != f"{d.group('fx')}/{d.group('sc')}" or not (d.group("k") == d.group("k2") == d.group("k3")):
        res.fail(key, f"division is recorded as `{d.group('e')}`, not factor / scalar divisor", m.line(f.node))
    if not re.search(r"assert not fac1\b", s):
        res.fail(key, "division by an argument-dependent expression is not rejected", m.line(f.node))
    # ---- Conj
    f, s = src("handle_conj")
    key = f"{f.key}:law"
    res.ob(key)
    cj = _find(s, r"for (?P<k>\w+) in fac:\n\s+(?P<fx>\w+) = F\.nodes\[fac\[(?P<k2>\w+)\]\]\['expression'\]\n\s+factors\[(?P<k3>\w+)\] = graph_insert\(F, (?P<e>[^\n]+)\)", "conj of factor")
    if cj.group("e").replace(" ", "") != f"Conj({cj.group('fx')})" or not (cj.group("k") == cj.group("k2") == cj.group("k3")):
        res.fail(key, f"conj(f*arg) is recorded as `{cj.group('e')}`, not Conj(f)", m.line(f.node))
    # ---- Conditional
    f, s = src("handle_conditional")
    key = f"{f.key}:law"
    res.ob(key)
    cd = _find(s, r"(?P<c>\w+) = sf\[0\]", "condition operand")
    cc = _find(s, r"(?P<mas>\w+) = sorted\(set\(fac1\.keys\(\)\) \| set\(fac2\.keys\(\)\)\)", "union of branch keys")
    lp = _find(s, r"for (?P<k>\w+) in (?P<mas>\w+):\n\s+(?P<i1>\w+) = fac1\.get\((?P<ka>\w+)\)\n\s+(?P<i2>\w+) = fac2\.get\((?P<kb>\w+)\)\n\s+"
               r"(?P<t>\w+) = (?P<z1>\w+) if (?P<i1b>\w+) is None else F\.nodes\[(?P<i1c>\w+)\]\['expression'\]\n\s+"
               r"(?P<e_>\w+) = (?P<z2>\w+) if (?P<i2b>\w+) is None else F\.nodes\[(?P<i2c>\w+)\]\['expression'\]\n\s+"
               r"factors\[(?P<k3>\w+)\] = graph_insert\(F, conditional\((?P<a0>\w+), (?P<a1>\w+), (?P<a2>\w+)\)\)", "conditional per key")
    ok = (lp.group("mas") == cc.group("mas") and lp.group("k") == lp.group("ka") == lp.group("kb") == lp.group("k3")
          and lp.group("i1") == lp.group("i1b") == lp.group("i1c") and lp.group("i2") == lp.group("i2b") == lp.group("i2c")
          and lp.group("a0") == cd.group("c") and lp.group("a1") == lp.group("t") and lp.group("a2") == lp.group("e_")
          and lp.group("z1") == lp.group("z2") and re.search(rf"\b{lp.group('z1')} = as_ufl\(0\.0\)", s))
    if not ok:
        res.fail(key, "conditional(c, sum fi*ui, sum fj*uj) is not decomposed as conditional(c, fi|0, fj|0) per key with the true branch "
                 "second and the false branch third", m.line(f.node))
    if not re.search(r"assert not fac0\b", s):
        res.fail(key, "an argument in the condition is not rejected", m.line(f.node))
    # ---- driver: arguments start as 1*v; targets keep their keys
    f, s = src("compute_argument_factorization")
    key = f"{f.key}:argument-seed"
    res.ob(key)
    if not re.search(r"(\w+) = graph_insert\(F, as_ufl\(1\.0\)\)", s) or not re.search(r"factors = \{\(si,\): (\w+)\}", s):
        res.fail(key, "a modified argument is not seeded with factor 1.0 under its own key", m.line(f.node))
    key = f"{f.key}:dispatch"
    res.ob(key)
    if "factors = handler(v, fac, sf, F)" not in s or "fac = [S.nodes[d]['factors'] for d in deps]" not in s:
        res.fail(key, "operands' factorizations are not passed to the handler in operand order", m.line(f.node))
    # registration table: handler per UFL class
    key = f"{FACT}:registrations"
    res.ob(key)
    regs = {}
    for fn in m.funcs.values():
        for dco in fn.node.decorator_list:
            if isinstance(dco, ast.Call) and dotted(dco.func) == "handler.register" and dco.args:
                regs[dotted(dco.args[0])] = fn.node.name
    want = {"Sum": "handle_sum", "Product": "handle_product", "Conj": "handle_conj", "Division": "handle_division", "Conditional": "handle_conditional"}
    if regs != want:
        res.fail(key, f"factorization handlers are registered as {regs}; expected {want}", m.rel)


IG = "ffcx.codegeneration.integral_generator"


@rule(
    "RULE-COHERENCE",
    ["C01", "C11"],
    "within the integral generator one (cell, quadrature rule) pair selects the factorisation graph, the "
    "block contributions, the modified arguments and (BOUND-SAMESRC) weights and tables; generate() hands "
    "each key of the integrand map to the piecewise partition and to the quadrature loop of the same rule, "
    "only for the kernel's own cell type; every A += is fw * argument tables with fw = factor * weight",
    min_instances=8,
)
def rule_coherence(repo, res):
    m = repo.mod(IG)
    for q in ("IntegralGenerator.generate_piecewise_partition", "IntegralGenerator.generate_varying_partition",
              "IntegralGenerator.generate_dofblock_partition", "IntegralGenerator.get_arg_factors", "IntegralGenerator.generate_block_parts"):
        f = m.func(q)
        res.functions.add(f.key)
        s = ast.unparse(f.node)
        key = f"{f.key}:integrand-key"
        res.ob(key)
        params = f.params
        rp = [p for p in params if "rule" in p]
        dp = [p for p in params if p == "domain"]
        hits = re.findall(r"integrand\[\(?(\w+), (\w+)\)?\]\['(\w+)'\]", s)
        if not hits:
            res.fail(key, f"{q} no longer reads the integrand map under its own (domain, quadrature rule) key", m.line(f.node))
            continue
        for a, b, what in hits:
            if not rp or not dp or a != dp[0] or b != rp[0]:
                res.fail(key, f"{q} reads integrand[({a}, {b})]['{what}'] - not the (domain, quadrature rule) it was called for: "
                         "factors, blocks or arguments of another rule are combined with this rule's weights", m.line(f.node))
    g = m.func("IntegralGenerator.generate")
    res.functions.add(g.key)
    s = ast.unparse(g.node)
    key = f"{g.key}:per-rule-dispatch"
    res.ob(key)
    mm = _find(s, r"for (?P<c>\w+), (?P<r>\w+) in self\.ir\.expression\.integrand\.keys\(\):\n\s+if (?P<t>[^\n]+):\n\s+\w+ \+= self\.generate_piecewise_partition\((?P<r1>\w+), (?P<c1>\w+)\)\n\s+\w+ \+= self\.generate_quadrature_loop\((?P<r2>\w+), (?P<c2>\w+)\)",
               "per-rule generation loop")
    t = mm.group("t").replace(" ", "")
    if not (mm.group("r") == mm.group("r1") == mm.group("r2") and mm.group("c") == mm.group("c1") == mm.group("c2")
            and t in (f"domain=={mm.group('c')}", f"{mm.group('c')}==domain")):
        res.fail(key, "generate() does not hand each (cell, rule) of this kernel's cell type to the piecewise partition and the quadrature loop", m.line(g.node))
    key = f"{g.key}:order"
    res.ob(key)
    if not re.search(r"parts \+= all_preparts\n\s+parts \+= all_quadparts", s):
        res.fail(key, "piecewise definitions are not emitted before the quadrature loops that use them", m.line(g.node))
    q = m.func("IntegralGenerator.generate_quadrature_loop")
    s = ast.unparse(q.node)
    key = f"{q.key}:same-rule"
    res.ob(key)
    a = _find(s, r"self\.generate_varying_partition\((?P<r>\w+), (?P<d>\w+)\)", "varying partition call")
    b = _find(s, r"self\.generate_dofblock_partition\((?P<r>\w+), (?P<d>\w+)\)", "dofblock partition call")
    if not (a.group("r") == b.group("r") == q.params[1] and a.group("d") == b.group("d") == q.params[2]):
        res.fail(key, "varying partition and dof blocks of a quadrature loop are generated for different rules", m.line(q.node))
    key = f"{q.key}:code-order"
    res.ob(key)
    if "code = definitions + intermediates + tensor_comp" not in s:
        res.fail(key, "loop body is not definitions, then intermediates (fw), then tensor computation", m.line(q.node))
    f = m.func("IntegralGenerator.generate_block_parts")
    s = ast.unparse(f.node)
    key = f"{f.key}:factor-lookup"
    res.ob(key)
    fl = _find(s, r"(?P<fi>\w+) = blockdata\.factor_indices_comp_indices\[0\]\[0\]", "factor index")
    vv = _find(s, r"(?P<v>\w+) = (?P<F>\w+)\.nodes\[(?P<fi>\w+)\]\['expression'\]\n\s+(?P<f>\w+) = self\.get_var\((?P<r>\w+), (?P<d>\w+), (?P<v2>\w+)\)", "factor value lookup")
    fdef = re.findall(rf"\b{vv.group('F')} = ([^\n]+)\n", s)
    if fdef != [f"self.ir.expression.integrand[{f.params[2]}, {f.params[1]}]['factorization']"]:
        res.fail(key, f"the factorisation graph used for the block factors is `{fdef}`, not the one of this (cell, rule)", m.line(f.node))
    if not (vv.group("fi") == fl.group("fi") and vv.group("v") == vv.group("v2") and vv.group("r") == f.params[1] and vv.group("d") == f.params[2]):
        res.fail(key, "the scalar factor of a block is not looked up in this rule's factorisation graph / scope", m.line(f.node))
    key = f"{f.key}:product"
    res.ob(key)
    fw = _find(s, r"(?P<fwr>\w+) = L\.float_product\(\[(?P<f>\w+), (?P<w>\w+)\]\)", "fw = f * weight")
    br = _find(s, r"(?P<B>\w+) = L\.float_product\(\[(?P<fw>\w+)\] \+ (?P<af>\w+)\)", "B = fw * argument factors")
    if fw.group("f") != vv.group("f"):
        res.fail(key, "fw is not (factor of this block) * weight", m.line(f.node))
    if not re.search(rf"rhs_expressions\[tuple\(\w+\)\]\.append\({br.group('B')}\)", s) or not re.search(rf"{br.group('af')}, \w+ = self\.get_arg_factors\(", s):
        res.fail(key, "the accumulated right-hand side is not fw * (argument table values of this block)", m.line(f.node))


@rule(
    "SCOPE-KEY",
    ["C11", "C01"],
    "IntegralGenerator caches generated sub-expressions per (cell, rule) plus a rule-independent piecewise "
    "scope that lookups fall back to. Whether a node must be (re)generated in a partition may only be "
    "decided from the scope that partition writes to: piecewise status is computed per rule (a one-point "
    "rule makes everything piecewise), so a value cached by another rule's piecewise partition must not "
    "suppress the varying definition of this rule",
    min_instances=4,
)
def scope_key(repo, res):
    m = repo.mod(IG)
    gv = m.func("IntegralGenerator.get_var")
    sv = m.func("IntegralGenerator.set_var")
    gp = m.func("IntegralGenerator.generate_partition")
    res.functions.update({gv.key, sv.key, gp.key})
    s_gv = ast.unparse(gv.node)
    s_sv = ast.unparse(sv.node)
    s_gp = ast.unparse(gp.node)
    key = f"{sv.key}:key"
    res.ob(key)
    if not re.search(r"self\.scopes\[\(?domain, quadrature_rule\)?\]\[v\] = vaccess", s_sv):
        res.fail(key, "set_var does not store under the (domain, rule) key", m.line(sv.node))
    key = f"{gv.key}:own-scope-first"
    res.ob(key)
    own = re.search(r"(\w+) = self\.scopes\[\(?domain, quadrature_rule\)?\]\.get\(v\)", s_gv)
    if not own:
        res.fail(key, "get_var does not look into the (domain, rule) scope first", m.line(gv.node))
    fallback = re.search(r"self\.scopes\[\(?None, None\)?\]", s_gv) is not None
    # the regeneration guard of generate_partition
    key = f"{gp.key}:regeneration-guard"
    res.ob(key)
    guard = None
    for n in walk_no_nested(gp.node):
        if isinstance(n, ast.If) and any(isinstance(x, ast.Call) and (call_name(x) or "").endswith("set_var") for b in n.body for x in ast.walk(b)):
            guard = n
            break
    if guard is None:
        # maybe written as `if cached: continue`
        for n in walk_no_nested(gp.node):
            if isinstance(n, ast.If) and any(isinstance(b, ast.Continue) for b in n.body) and "status" not in ast.unparse(n.test):
                guard = n
    if guard is None:
        raise AnalysisError("generate_partition: guard deciding whether a node is generated not found")
    gt = ast.unparse(guard.test)
    uses_get_var = "self.get_var(" in gt
    if uses_get_var and fallback:
        res.fail(key, "generate_partition decides `already generated` with get_var, which falls back to the rule-independent piecewise "
                 "scope: a value cached by another rule's piecewise partition (e.g. sin(f) at the single point of a degree-1 rule) "
                 "suppresses this rule's varying definition - sin(f)*v*dx(degree=1) + sin(f)*v*dx(degree=4) integrates the second "
                 "term with f frozen at the first rule's point", m.line(guard))
    elif not uses_get_var and "self.scopes[(domain, quadrature_rule)]" not in gt and "self.scopes[domain, quadrature_rule]" not in gt \
            and not _guard_var_from_own_scope(gp.node, guard):
        res.fail(key, f"generation guard `{gt}` does not consult the scope this partition writes to", m.line(guard))
    key = f"{gp.key}:store-key"
    res.ob(key)
    if "self.set_var(quadrature_rule, domain, v, vaccess)" not in s_gp:
        res.fail(key, "generated values are not stored under the key of the partition being generated", m.line(gp.node))
    key = f"{gp.key}:operand-lookup"
    res.ob(key)
    if "vops = [self.get_var(quadrature_rule, domain, op) for op in v.ufl_operands]" not in s_gp:
        res.fail(key, "operands are not looked up in the scope of the partition being generated", m.line(gp.node))
    init = m.func("IntegralGenerator.init_scopes")
    key = f"{init.key}:one-scope-per-rule"
    res.ob(key)
    si = ast.unparse(init.node)
    if not re.search(r"self\.scopes = \{(\w+): \{\} for \1 in self\.ir\.expression\.integrand\.keys\(\)\}", si):
        res.fail(key, "scopes are not created per (cell, rule) key of the integrand map", m.line(init.node))

    # the piecewise scope is shared by all rules, but the factorisation graph whose `piecewise` nodes fill it
    # is selected per (cell, rule): sound only if `piecewise` cannot be an artefact of the rule
    pp = m.func("IntegralGenerator.generate_piecewise_partition")
    res.functions.add(pp.key)
    key = f"{pp.key}:shared-scope-vs-per-rule-classification"
    res.ob(key)
    s_pp = ast.unparse(pp.node)
    sel = re.search(r"self\.ir\.expression\.integrand\[\(?domain, quadrature_rule\)?\]\['factorization'\]", s_pp)
    call = [c for c in calls_in(pp.node) if (call_name(c) or "").endswith("generate_partition")]
    if not sel or len(call) != 1 or len(call[0].args) != 5:
        raise AnalysisError("generate_piecewise_partition: selection of F / call of generate_partition not recognised")
    shared = all(isinstance(a, ast.Constant) and a.value is None for a in call[0].args[3:5])
    et = repo.mod("ffcx.ir.elementtables")
    ipt = et.func("is_piecewise_table")
    att = et.func("analyse_table_type")
    res.functions.update({ipt.key, att.key})
    s_ipt = ast.unparse(ipt.node)
    # vacuous for one point: all(... for i in range(1, table.shape[2])) with no guard on the number of points
    vacuous = re.search(r"range\(1, table\.shape\[2\]\)", s_ipt) is not None and not re.search(r"shape\[2\] (>|>=|==|!=|<|<=) ", s_ipt + ast.unparse(att.node))
    if shared and vacuous:
        res.fail(key, "the piecewise scope (None, None) is shared by all quadrature rules of an integral, but a node's `piecewise` status "
                 "comes from the tables of one rule and is_piecewise_table is vacuously true for a one-point rule: with two different "
                 "one-point rules (f*v*dx(custom point p) + f*v*dx(custom point q), f in P2) the second rule reuses f evaluated at p",
                 m.line(call[0]))


def _guard_var_from_own_scope(fnode, guard) -> bool:
    """The guard tests a local that was read from self.scopes[(domain, quadrature_rule)]."""
    names = {n.id for n in ast.walk(guard.test) if isinstance(n, ast.Name)}
    for n in walk_no_nested(fnode):
        if isinstance(n, ast.Assign) and isinstance(n.targets[0], ast.Name) and n.targets[0].id in names:
            t = ast.unparse(n.value)
            if re.search(r"self\.scopes\[\(?domain, quadrature_rule\)?\]", t) and "get_var" not in t:
                return True
    return False


@rule(
    "QMETA-FLOW",
    ["C11"],
    "quadrature_degree / quadrature_rule of the integral metadata flow (with parameter binding checked at "
    "each call) through _group_integrands_by_quadrature_rule, create_quadrature_points_and_weights and "
    "create_quadrature into basix.make_quadrature; the estimated degree is used only when no non-negative "
    "degree was requested; the vertex scheme uses the cell vertices with equal weights volume/n; custom "
    "rules come from the element; integrands are grouped by the rule computed for their own integral",
    min_instances=10,
)
def qmeta_flow(repo, res):
    an = repo.mod("ffcx.analysis")
    f = an.func("_analyze_form")
    res.functions.add(f.key)
    s = ast.unparse(f.node)
    key = f"{f.key}:degree-selection"
    res.ob(key)
    mm = _find(s, r"(?P<qd>\w+) = -1\n\s+if 'quadrature_degree' in (?P<md>\w+)\.keys\(\):\n\s+(?P<qd2>\w+) = (?P<md2>\w+)\['quadrature_degree'\]\n\s+if (?P<cond>[^\n]+):\n\s+(?P<qd4>\w+) = (?P<est>[^\n]+)\n",
               "degree selection")
    if mm.group("cond").replace(" ", "") != f"{mm.group('qd')}<0":
        res.fail(key, f"the estimated degree replaces the requested one under `{mm.group('cond')}`; it may only do so when no non-negative "
                 "degree was requested (a requested quadrature_degree must be honoured even if lower than the estimate)", an.line(f.node))
    if not (mm.group("qd") == mm.group("qd2") == mm.group("qd4") and mm.group("md") == mm.group("md2")):
        res.fail(key, "the requested degree is not taken from the metadata with the estimated degree as fallback for negative/absent values", an.line(f.node))
    if "estimated_polynomial_degree" not in mm.group("est") or "max" not in mm.group("est"):
        res.fail(key, f"fallback degree is `{mm.group('est')}`, not the (maximum) estimated polynomial degree", an.line(f.node))
    key = f"{f.key}:scheme-selection"
    res.ob(key)
    sc = _find(s, r"(?P<qr>\w+) = integral\.metadata\(\)\.get\('quadrature_rule', (?P<dflt>'\w+')\)", "scheme selection")
    if sc.group("dflt") != "'default'":
        res.fail(key, f"default scheme is {sc.group('dflt')}", an.line(f.node))
    key = f"{f.key}:metadata-update"
    res.ob(key)
    up = _find(s, r"metadata\.update\(\{'quadrature_degree': (?P<a>\w+), 'quadrature_rule': (?P<b>\w+)\}\)", "metadata update")
    if up.group("a") != mm.group("qd") or up.group("b") != sc.group("qr"):
        res.fail(key, "the selected degree / scheme are not the ones written back into the integral metadata", an.line(f.node))
    if "integral_data.integrals[i] = integral.reconstruct(metadata=metadata)" not in s:
        res.fail(key, "the integral is not reconstructed with the updated metadata", an.line(f.node))
    key = f"{f.key}:custom"
    res.ob(key)
    if not re.search(r"metadata\.update\(\{'quadrature_points': custom_q\[0\], 'quadrature_weights': custom_q\[1\], 'quadrature_rule': 'custom'\}\)", s):
        res.fail(key, "quadrature elements do not hand their own points and weights on as the custom rule", an.line(f.node))
    rep = repo.mod("ffcx.ir.representation")
    g = rep.func("_group_integrands_by_quadrature_rule")
    res.functions.add(g.key)
    s = ast.unparse(g.node)
    key = f"{g.key}:metadata-read"
    res.ob(key)
    if not re.search(r"(\w+) = integral\.metadata\(\) or \{\}\n\s+scheme = \1\['quadrature_rule'\]", s) or len(re.findall(r"degree = md\['quadrature_degree'\]", s)) < 2:
        res.fail(key, "scheme / degree are not read from this integral's own metadata", rep.line(g.node))
    # call binding to create_quadrature_points_and_weights
    ru = repo.mod("ffcx.ir.representationutils")
    cq = ru.func("create_quadrature_points_and_weights")
    res.functions.add(cq.key)
    calls = [c for c in calls_in(g.node) if (call_name(c) or "").endswith("create_quadrature_points_and_weights")]
    key = f"{g.key}:binding:create_quadrature_points_and_weights"
    res.ob(key)
    if len(calls) != 1:
        raise AnalysisError("call to create_quadrature_points_and_weights not found")
    bound = {}
    for i, a in enumerate(calls[0].args):
        bound[cq.params[i]] = ast.unparse(a)
    for k in calls[0].keywords:
        bound[k.arg] = ast.unparse(k.value)
    want = {"degree": "degree", "rule": "scheme", "integral_type": "integral_type", "cell": "ufl_cell", "elements": "argument_elements"}
    for p, v in want.items():
        if bound.get(p) != v:
            res.fail(key, f"create_quadrature_points_and_weights(... {p}={bound.get(p)} ...): expected `{v}` (degree and scheme swapped or wrong source)", rep.line(calls[0]))
    # inside: create_quadrature(cellname, degree, rule, elements)
    eli = repo.mod("ffcx.element_interface")
    cr = eli.func("create_quadrature")
    res.functions.add(cr.key)
    n = 0
    for c in calls_in(cq.node):
        if (call_name(c) or "") == "create_quadrature":
            n += 1
            key = f"{cq.key}:binding:create_quadrature:{n}"
            res.ob(key)
            b = {cr.params[i]: ast.unparse(a) for i, a in enumerate(c.args)}
            b.update({k.arg: ast.unparse(k.value) for k in c.keywords})
            if b.get("degree") != "degree" or b.get("rule") != "rule" or b.get("elements") != "elements":
                res.fail(key, f"create_quadrature is called with degree={b.get('degree')}, rule={b.get('rule')}", ru.line(c))
    if n < 5:
        raise AnalysisError("fewer than 5 create_quadrature calls found")
    s = ast.unparse(cr.node)
    key = f"{cr.key}:make_quadrature"
    res.ob(key)
    mq = _find(s, r"basix\.make_quadrature\(\s*(?P<ct>\w+), (?P<deg>\w+), rule=basix\.quadrature\.string_to_type\((?P<rule>\w+)\), polyset_type=(?P<ps>\w+)\s*\)", "basix.make_quadrature call")
    if mq.group("deg") != cr.params[1] or mq.group("rule") != cr.params[2] or not re.search(rf"{mq.group('ct')} = _CellType\[{cr.params[0]}\]", s):
        res.fail(key, "basix.make_quadrature does not receive the requested cell, degree and scheme", eli.line(cr.node))
    # vertex scheme
    s = ast.unparse(g.node)
    key = f"{g.key}:vertex-scheme"
    res.ob(key)
    vx = _find(s, r"(?P<p>\w+) = basix\.cell\.geometry\((?P<c>\w+)\)\n\s+(?P<v>\w+) = basix\.cell\.volume\((?P<c2>\w+)\)\n\s+(?P<w>\w+) = np\.full\((?P<p2>\w+)\.shape\[0\], (?P<val>[^,]+),", "vertex scheme")
    if vx.group("val").replace(" ", "") != f"{vx.group('v')}/{vx.group('p')}.shape[0]":
        res.fail(key, f"vertex-scheme weights are `{vx.group('val')}` each; they must be volume / number of vertices (the rule would not integrate constants exactly)", rep.line(g.node))
    if not (vx.group("c") == vx.group("c2") and vx.group("p") == vx.group("p2")):
        res.fail(key, "vertex scheme does not use the vertices of the integration entity with weights volume/n", rep.line(g.node))
    if not re.search(rf"rules\[{vx.group('c')}\] = \({vx.group('p')}, {vx.group('w')}, None\)", s):
        res.fail(key, "vertex rule is not registered under its own cell type with its points and weights", rep.line(g.node))
    key = f"{g.key}:custom-scheme"
    res.ob(key)
    if not re.search(r"points = md\['quadrature_points'\]\n\s+weights = md\['quadrature_weights'\]\n\s+rules\[cell_type\] = \(points, weights, None\)", s):
        res.fail(key, "custom rule does not use exactly the points and weights of the metadata", rep.line(g.node))
    key = f"{g.key}:grouping"
    res.ob(key)
    gr = _find(s, r"(?P<rule>\w+) = QuadratureRule\((?P<p>\w+), (?P<w>\w+), (?P<tf>\w+)\)", "rule construction")
    if not re.search(rf"grouped_integrands\[(\w+)\]\[{gr.group('rule')}\]\.append\(integral\.integrand\(\)\)", s):
        res.fail(key, "an integrand is not filed under the rule computed for its own integral", rep.line(g.node))
    # QuadratureRule identity: equality on points and weights
    qr = ru.func("QuadratureRule.__eq__")
    key = f"{qr.key}:points-and-weights"
    res.ob(key)
    if "np.allclose(self.points, other.points) and np.allclose(self.weights, other.weights)" not in ast.unparse(qr.node):
        res.fail(key, "two quadrature rules compare equal without comparing both points and weights: different rules are merged", ru.line(qr.node))
    # sum of integrands per rule
    ci = rep.func("_compute_integral_ir")
    key = f"{ci.key}:sum-per-rule"
    res.ob(key)
    s = ast.unparse(ci.node)
    if not re.search(r"for (\w+), (\w+) in (\w+)\.items\(\):\n\s+(\w+) = sorted_expr_sum\(\2\)", s):
        res.fail(key, "integrands of one rule are not summed (sorted_expr_sum) per rule", rep.line(ci.node))


@rule(
    "OPT-GATE",
    ["C10"],
    "an option that applies only under a condition (sum_factorization: cell integrals with a tensor-factor "
    "rule; part=diagonal: bilinear forms) must not control a `raise` or an index expression outside a guard "
    "implying that condition; the five places realising part=\"diagonal\" agree; table_rtol / table_atol "
    "reach the clamping of table values",
    min_instances=10,
)
def opt_gate(repo, res):
    et = repo.mod("ffcx.ir.elementtables")
    f = et.func("build_optimized_tables")
    res.functions.add(f.key)
    # sum_factorization: raises controlled by the raw option
    for n in walk_no_nested(f.node):
        if isinstance(n, ast.If) and "use_sum_factorization" in ast.unparse(n.test):
            key = f"{f.key}:sum_factorization:{'raise' if any(isinstance(x, ast.Raise) for x in n.body) else 'use'}"
            res.ob(key)
            t = ast.unparse(n.test)
            if any(isinstance(x, ast.Raise) for x in n.body):
                res.fail(key, f"`if {t}: raise`: with sum_factorization=True every integral without a tensor-product rule (facet integrals, "
                         "simplex cells) fails to compile instead of being generated as without the option (u*v*dx + u*v*ds on a quadrilateral)",
                         et.line(n))
            else:
                for need in ("has_tensor_factors", "has_tensor_product_factorisation"):
                    if need not in t or f"not quadrature_rule.{need}" in t:
                        res.fail(key, f"sum factorisation is applied under `{t}` without requiring {need}", et.line(n))
    # consumer side: the branch of table_access that multiplies per-direction factor tables needs tables that HAVE
    # tensor factors; it must be selected by the table, not by the shape of the loop indices alone
    am = repo.mod("ffcx.codegeneration.access")
    ta = am.func("FFCXBackendAccess.table_access")
    res.functions.add(ta.key)
    key = f"{ta.key}:tensor-branch-selected-by-table"
    res.ob(key)
    for n in walk_no_nested(ta.node):
        if isinstance(n, ast.If) and n.orelse and any("tensor_factors[" in ast.unparse(b) for b in n.orelse):
            t = ast.unparse(n.test)
            if "has_tensor_factorisation" not in t and "tensor_factors" not in t:
                res.fail(key, f"table_access multiplies tabledata.tensor_factors whenever `not ({t})`, i.e. whenever the quadrature rule is a tensor "
                         "rule, although tables get tensor factors only for elements with a tensor-product factorisation: with "
                         "sum_factorization=True an ordinary Q2 Laplacian on a quadrilateral dies with AssertionError instead of giving the "
                         "same tensor as without the option", am.line(n))
    ru = repo.mod("ffcx.ir.representationutils")
    cq = ru.func("create_quadrature_points_and_weights")
    key = f"{cq.key}:tensor-rule-gate"
    res.ob(key)
    s = ast.unparse(cq.node)
    if not re.search(r"if integral_type == 'cell':\n\s+cell_name = cell\.cellname\n\s+if cell_name in \['quadrilateral', 'hexahedron'\] and use_tensor_product:", s):
        res.fail(key, "tensor-product quadrature is not restricted to cell integrals on quadrilaterals / hexahedra", ru.line(cq.node))
    rep = repo.mod("ffcx.ir.representation")
    g = rep.func("_group_integrands_by_quadrature_rule")
    key = f"{g.key}:cell-only"
    res.ob(key)
    if "use_sum_factorization = sum_factorization and integral_type == 'cell'" not in ast.unparse(g.node):
        res.fail(key, "sum factorisation is not restricted to cell integrals when the rule is built", rep.line(g.node))
    # tensor-product rule points/weights are the product rule (same tensor as the plain rule would integrate)
    key = f"{cq.key}:product-rule"
    res.ob(key)
    if not (re.search(r"itertools\.product\(\*\[f\[0\] for f in tensor_factors\[cell_name\]\]\)", s) and re.search(r"np\.prod\(p\) for p in itertools\.product\(\*\[f\[1\] for f in tensor_factors\[cell_name\]\]\)", s)):
        res.fail(key, "tensor-product points/weights are not the Cartesian product of the 1D rule", ru.line(cq.node))
    if not (re.search(r"create_quadrature\('interval', degree, rule, elements\) for _ in range\(2\)", s) and re.search(r"create_quadrature\('interval', degree, rule, elements\) for _ in range\(3\)", s)):
        res.fail(key, "the 1D factors are not one interval rule per direction (2 for quadrilaterals, 3 for hexahedra) of the requested degree", ru.line(cq.node))
    # ---- part = diagonal: every test of the option is conjoined with / dominated by a rank-2 test
    sites = [
        ("ffcx.codegeneration.jit", "compile_forms", r"p\['part'\] == 'diagonal'", r"arity == 2"),
        ("ffcx.ir.representation", "_compute_integral_ir", r"ir\['part'\] == TensorPart\.diagonal", r"form_data\.rank == 2"),
        ("ffcx.ir.representation", "_compute_form_ir", r"tensor_part == TensorPart\.diagonal", r"len\(args\) == 2"),
        (IG, "IntegralGenerator.generate_block_parts", r"self\.ir\.part == TensorPart\.diagonal", r"block_rank == 2"),
    ]
    for modname, q, opt_pat, rank_pat in sites:
        m = repo.mod(modname)
        h = m.func(q)
        res.functions.add(h.key)
        cfg = CFG(h.node)
        tests = [(tid, st) for tid, st in cfg.if_stmt.items() if re.search(opt_pat, ast.unparse(st.test))]
        if not tests:
            raise AnalysisError(f"{q}: test of the `part` option not found")
        rank_tests = [tid for tid, st in cfg.if_stmt.items() if re.search(rank_pat, ast.unparse(st.test))]
        for tid, st in tests:
            key = f"{h.key}:diagonal-gated:{len([k for k in res.instances if k.startswith(h.key + ':diagonal-gated')])}"
            res.ob(key)
            t = ast.unparse(st.test)
            same = re.search(rank_pat, t) is not None and " or " not in t
            # or: every statement of the body that indexes / mutates is under a rank test inside
            inner_ok = False
            if not same:
                body_nodes = set()
                for e in cfg.if_true[tid]:
                    body_nodes |= cfg.reachable(e, kinds=("n",))
                effect = [n for n in st.body if not isinstance(n, (ast.For, ast.If))]
                inner_ok = not effect and all(any(re.search(rank_pat, ast.unparse(x.test)) for x in ast.walk(b) if isinstance(x, ast.If)) for b in st.body)
            if not (same or inner_ok):
                bad = [ast.unparse(b)[:50] for b in st.body][:2]
                res.fail(key, f"{q}: `if {t}` acts ({'; '.join(bad)}) without requiring a bilinear form ({rank_pat}): with part=\"diagonal\" a functional or "
                         "linear form takes this branch (IndexError on B_indices[0] for rank 0) although the option does not apply to it", m.line(st))
    # DIAG-SITES: agreement of the effects
    ci = rep.func("_compute_integral_ir")
    s = ast.unparse(ci.node)
    key = f"{ci.key}:diagonal-effects"
    res.ob(key)
    if not (re.search(r"diagonalise = True\n\s+ir\['rank'\] = 1\n\s+assert form_data\.argument_elements\[0\] == form_data\.argument_elements\[1\]", s)
            and "'part': TensorPart.from_str(options['part'])" in s):
        res.fail(key, "diagonal assembly: rank 1 and identical argument elements are not established together", rep.line(ci.node))
    gb = repo.mod(IG).func("IntegralGenerator.generate_block_parts")
    s = ast.unparse(gb.node)
    key = f"{gb.key}:diagonal-shared-index"
    res.ob(key)
    if not re.search(r"assert len\(A_shape\) == 1\n\s+B_indices = \[B_indices\[0\], B_indices\[0\]\]", s) or not re.search(r"insert_rank = 1\n\s+B_indices = \[B_indices\[0\]\]", s):
        res.fail(key, "diagonal assembly: both argument tables must share the first loop index and A must be indexed by it alone", repo.mod(IG).line(gb.node))
    cf = repo.mod("ffcx.ir.representation").func("compute_ir")
    key = f"{cf.key}:diagonal-to-form"
    res.ob(key)
    if "diagonalise = TensorPart.from_str(str(options['part']))" not in ast.unparse(cf.node):
        res.fail(key, "the form IR is not told about part=diagonal", rep.line(cf.node))
    jf = repo.mod("ffcx.codegeneration.jit").func("compile_forms")
    s = ast.unparse(jf.node)
    key = f"{jf.key}:diagonal-blocks"
    res.ob(key)
    if not (re.search(r"blocked_form = ufl\.extract_blocks\(form, replace_argument=False\)", s) and re.search(r"if blocked_form\[j\]\[j\] is not None:\n\s+diagonal_form \+= blocked_form\[j\]\[j\]", s)
            and "forms[i] = diagonal_form" in s):
        res.fail(key, "mixed spaces: the diagonal form is not the sum of the diagonal blocks (j, j)", "ffcx/codegeneration/jit.py")
    # TOL-FLOW
    ii = repo.mod("ffcx.ir.integral").func("_compute_integral_ir")
    key = f"{ii.key}:tolerances"
    res.ob(key)
    s = ast.unparse(ii.node)
    if "rtol=p['table_rtol']" not in s or "atol=p['table_atol']" not in s:
        res.fail(key, "table_rtol / table_atol are not forwarded to the table builder", "ffcx/ir/integral.py")
    key = f"{f.key}:clamp"
    res.ob(key)
    if "clamp_table_small_numbers(t['array'], rtol=rtol, atol=atol)" not in ast.unparse(f.node):
        res.fail(key, "table values are not clamped with the configured tolerances", et.line(f.node))
    cl = et.func("clamp_table_small_numbers")
    key = f"{cl.key}:targets"
    res.ob(key)
    s = ast.unparse(cl.node)
    if "numbers=(-1.0, 0.0, 1.0)" not in s or "np.isclose(table, n, rtol=rtol, atol=atol)" not in s:
        res.fail(key, "clamping does not move values to -1, 0, 1 within (rtol, atol) only", et.line(cl.node))
    # options table: every option consumed or inert
    om = repo.mod("ffcx.options")
    declared = set(const_value(k) for k in om.assign("FFCX_DEFAULT_OPTIONS").keys)
    used = set()
    for m in repo.modules.values():
        for n in ast.walk(m.tree):
            if isinstance(n, ast.Subscript) and isinstance(n.slice, ast.Constant) and isinstance(n.slice.value, str) \
                    and isinstance(n.value, ast.Name) and n.value.id in ("options", "p") and n.slice.value in declared:
                used.add(n.slice.value)
            if isinstance(n, ast.Call) and isinstance(n.func, ast.Attribute) and n.func.attr == "get" and n.args and isinstance(n.args[0], ast.Constant) \
                    and n.args[0].value in declared:
                used.add(n.args[0].value)
    key = "ffcx.options:declared-vs-consumed"
    res.ob(key)
    res.notes.append(f"options never read by the pipeline (inert): {sorted(declared - used)}")


EG = "ffcx.codegeneration.expression_generator"


@rule(
    "EXPR-LAYOUT",
    ["C04"],
    "in both branches of ExpressionGenerator.generate_block_parts the flattened index of A has the roles "
    "[point index, expression component, argument dofs...] over the sizes [num_points, prod(value shape)] "
    "+ tensor_shape (ufcx.h: A[num_points][num_components][num_argument_dofs]); the entity type follows "
    "from the dimension of the points",
    min_instances=5,
)
def expr_layout(repo, res):
    m = repo.mod(EG)
    f = m.func("ExpressionGenerator.generate_block_parts")
    res.functions.add(f.key)
    s = ast.unparse(f.node)
    sh = _find(s, r"(?P<sh>\w+) = \[(?P<np>\w+), (?P<nc>\w+)\] \+ self\.ir\.expression\.tensor_shape", "A shape")
    iq = _find(s, r"(?P<iq>\w+) = self\.backend\.symbols\.quadrature_loop_index\b", "point index symbol")
    mis = list(re.finditer(r"L\.MultiIndex\((?P<idx>[^\n]+), (?P<sh>\w+)\)", s))
    key = f"{f.key}:multi-index-count"
    res.ob(key)
    if len(mis) != 2:
        res.fail(key, f"{len(mis)} MultiIndex constructions for A (one per branch expected)", m.line(f.node))
    for i, mi in enumerate(mis):
        key = f"{f.key}:index-roles:{i}"
        res.ob(key)
        idx = mi.group("idx")
        # direct list or a local name
        if re.fullmatch(r"\w+", idx):
            d = re.search(rf"\b{idx} = ([^\n]+)\n", s)
            idx = d.group(1) if d else idx
        mm = re.fullmatch(r"\[(?P<A>\w+)\[0\], (?P<fc>\w+)\[1\]\] \+ (list\()?(?P<A2>\w+)\[1:\]\)?", idx)
        if not mm or mm.group("A") != mm.group("A2"):
            res.fail(key, f"A is indexed with `{idx}`; expected [point, component (fi_ci[1])] + argument indices", m.line(f.node))
            continue
        if mi.group("sh") != sh.group("sh"):
            res.fail(key, "A index is flattened with another shape than [num_points, components] + tensor_shape", m.line(f.node))
        A = mm.group("A")
        defs = re.findall(rf"\b{A} = tuple\(\[(\w+)\] \+ (?:list\()?(\w+)\)?\)", s)
        if not defs or any(d[0] != iq.group("iq") for d in defs):
            res.fail(key, f"the first entry of `{A}` is not the point index", m.line(f.node))
        if not re.search(rf"for {mm.group('fc')} in blockdata\.factor_indices_comp_indices", s):
            res.fail(key, "the component index is not the component of the factor being added", m.line(f.node))
    key = f"{f.key}:factor-of-component"
    res.ob(key)
    if len(re.findall(r"(\w+) = self\.get_var\(F\.nodes\[(\w+)\[0\]\]\['expression'\]\)", s)) != 2:
        res.fail(key, "the value added for a component is not the factor registered for that component", m.line(f.node))
    rep = repo.mod("ffcx.ir.representation")
    g = rep.func("_compute_expression_ir")
    res.functions.add(g.key)
    s = ast.unparse(g.node)
    key = f"{g.key}:entity-type"
    res.ob(key)
    et = re.search(r"if \(tdim := cell\.topological_dimension\) == \(pdim := points\.shape\[1\]\):\n\s+base_ir\['entity_type'\] = 'cell'\n\s+elif tdim - 1 == pdim:\n\s+base_ir\['entity_type'\] = 'facet'\n\s+else:\n\s+raise", s)
    if not et:
        res.fail(key, "entity type is not cell for tdim-dimensional points, facet for (tdim-1)-dimensional ones, and an error otherwise", rep.line(g.node))
    key = f"{g.key}:rule-from-points"
    res.ob(key)
    if not re.search(r"weights = np\.array\(\[1\.0\] \* points\.shape\[0\]\)\n\s+rule = QuadratureRule\(points, weights\)", s):
        res.fail(key, "the evaluation points do not enter the IR as a rule with unit weights (values would be scaled)", rep.line(g.node))
    key = f"{g.key}:shapes"
    res.ob(key)
    if "base_ir['shape'] = list(expr.ufl_shape)" not in s or "base_ir['tensor_shape'] = tensor_shape" not in s:
        res.fail(key, "value shape / argument shape of the expression are not recorded from the expression itself", rep.line(g.node))
