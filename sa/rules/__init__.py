"""Importing this package registers every rule."""

from . import algebra, formatter, jit  # noqa: F401
