"""Importing this package registers every rule."""

from . import algebra, determinism, formatter, jit, naming  # noqa: F401
