"""Importing this package registers every rule."""

from . import algebra, backend, cli, descriptor, determinism, formatter, genblocks, genintegral, gentables, jit, kernel, naming, passes, perm, pipeline, robust, smallfuncs  # noqa: F401
