"""Importing this package registers every rule."""

from . import algebra, determinism, formatter, jit  # noqa: F401
