"""Importing this package registers every rule."""

from . import jit  # noqa: F401
