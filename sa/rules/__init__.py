"""Importing this package registers every rule."""

from . import algebra, backend, cli, descriptor, determinism, formatter, genblocks, genintegral, genir, gentables, jit, kernel, mtanalyse, naming, passes, perm, pipeline, robust, smallfuncs, tabvalues, factdriver, aliasing, analysisinterp, exprpartition, jitflow, scalarize, genkernel, geomaccess, sumfact  # noqa: F401
