"""Importing this package registers every rule."""

from . import algebra, cli, determinism, formatter, jit, naming, robust  # noqa: F401
