"""Per-iteration records must not share a mutable container that the loop keeps filling (C05, C06, C01, C04, C12).

LOOP-ALIAS  For every `for` / `while` loop of every function of the package: a local name N bound, *before* the loop and not inside
            it, to a fresh mutable container (`{}`, `[]`, `dict()`, `list()`, `set()`, `defaultdict(..)`, a comprehension), which
            inside the loop body is both
              (a) updated in place (`N[k] = v`, `N.append/extend/update/add/setdefault(..)`, `N += ..`), and
              (b) stored by reference into something that outlives the iteration - a dict entry or attribute (`rec["x"] = N`,
                  `obj.x = N`), an element appended to a list, a field of a record / class constructed in the loop, a value of a
                  dict literal, or yielded -
            is the same object in every record: after the loop each record shows the content written by the *last* iteration
            (e.g. all integrals of a form carrying the coefficient offsets of the last integral).  A copy at the store
            (`dict(N)`, `N.copy()`, `list(N)`, `tuple(N)`, slicing, `sorted(N)`) or a re-binding of N inside the loop body
            before the store discharges the obligation.  Accumulators that are only read after the loop, or only passed as call
            arguments, are not reported.
"""

from __future__ import annotations

import ast

from ..model import call_name, walk_no_nested
from ..registry import anchor_props, rule

FRESH_CALLS = {"dict", "list", "set", "defaultdict", "collections.defaultdict", "OrderedDict", "collections.OrderedDict"}
MUTATORS = {"append", "extend", "update", "add", "setdefault", "insert", "pop", "remove", "clear", "discard"}
COPIES = {"dict", "list", "tuple", "set", "frozenset", "sorted", "copy.copy", "copy.deepcopy", "np.array", "np.asarray", "numpy.array", "len", "str", "repr", "sum", "max", "min",
          "any", "all", "enumerate", "zip", "iter", "reversed"}


def _fresh(v) -> bool:
    if isinstance(v, (ast.Dict, ast.List, ast.Set, ast.ListComp, ast.DictComp, ast.SetComp)):
        return True
    if isinstance(v, ast.Call) and (call_name(v) or "") in FRESH_CALLS:
        return True
    return False


def _names_stored(t):
    for x in ast.walk(t):
        if isinstance(x, ast.Name) and isinstance(x.ctx, ast.Store):
            yield x.id


def _rebinds(st, name) -> bool:
    """does this statement (anywhere inside, excluding nested functions) bind `name` anew?"""
    for n in [st, *walk_no_nested(st)]:
        if isinstance(n, (ast.Assign, ast.AnnAssign)):
            tg = n.targets if isinstance(n, ast.Assign) else [n.target]
            for t in tg:
                if isinstance(t, ast.Name) and t.id == name:
                    return True
                if isinstance(t, (ast.Tuple, ast.List)) and any(isinstance(e, ast.Name) and e.id == name for e in t.elts):
                    return True
        if isinstance(n, (ast.For, ast.comprehension)) and name in set(_names_stored(n.target)):
            return True
        if isinstance(n, ast.With):
            for i in n.items:
                if i.optional_vars is not None and name in set(_names_stored(i.optional_vars)):
                    return True
        if isinstance(n, ast.NamedExpr) and n.target.id == name:
            return True
    return False


def _is_name(e, name):
    return isinstance(e, ast.Name) and e.id == name


def _mutations(body_nodes, name):
    out = []
    for n in body_nodes:
        if isinstance(n, (ast.Assign, ast.AugAssign, ast.AnnAssign)):
            tg = n.targets if isinstance(n, ast.Assign) else [n.target]
            for t in tg:
                if isinstance(t, ast.Subscript) and _is_name(t.value, name):
                    out.append(n)
                if isinstance(n, ast.AugAssign) and _is_name(t, name):
                    out.append(n)
        if isinstance(n, ast.Call) and isinstance(n.func, ast.Attribute) and n.func.attr in MUTATORS and _is_name(n.func.value, name):
            out.append(n)
        if isinstance(n, ast.Delete):
            for t in n.targets:
                if isinstance(t, ast.Subscript) and _is_name(t.value, name):
                    out.append(n)
    return out


def _escapes(body_nodes, name, record_ctors):
    """stores of the object itself (not a copy) into something that outlives the iteration"""
    out = []
    for n in body_nodes:
        if isinstance(n, (ast.Assign, ast.AnnAssign)) and n.value is not None:
            tg = n.targets if isinstance(n, ast.Assign) else [n.target]
            if _is_name(n.value, name):
                for t in tg:
                    if isinstance(t, (ast.Subscript, ast.Attribute)) and not _is_name(getattr(t, "value", None), name):
                        out.append((n, f"`{ast.unparse(t)} = {name}`"))
            # a value of a dict / list / tuple literal that is itself stored or used as a record
            if isinstance(n.value, (ast.Dict, ast.List, ast.Tuple)):
                vals = n.value.values if isinstance(n.value, ast.Dict) else n.value.elts
                if any(_is_name(v, name) for v in vals):
                    out.append((n, f"`{name}` as an element of the literal bound to `{ast.unparse(tg[0])}`"))
        if isinstance(n, ast.Call):
            fn = call_name(n) or ""
            if isinstance(n.func, ast.Attribute) and n.func.attr in ("append", "add", "insert") and not _is_name(n.func.value, name):
                if any(_is_name(a, name) for a in n.args):
                    out.append((n, f"`{ast.unparse(n.func)}({name})`"))
                for a in n.args:
                    if isinstance(a, (ast.Tuple, ast.List, ast.Dict)):
                        vals = a.values if isinstance(a, ast.Dict) else a.elts
                        if any(_is_name(v, name) for v in vals):
                            out.append((n, f"`{name}` inside the element appended by `{ast.unparse(n.func)}`"))
            if isinstance(n.func, ast.Attribute) and n.func.attr in ("setdefault",) and not _is_name(n.func.value, name) and len(n.args) == 2 and _is_name(n.args[1], name):
                out.append((n, f"`{ast.unparse(n.func)}(.., {name})`"))
            last = fn.split(".")[-1]
            if last in record_ctors:
                if any(_is_name(a, name) for a in n.args) or any(_is_name(k.value, name) for k in n.keywords):
                    out.append((n, f"field of the `{last}` record constructed in the loop"))
        if isinstance(n, (ast.Yield,)) and n.value is not None and _is_name(n.value, name):
            out.append((n, f"`yield {name}`"))
    return out


@rule(
    "LOOP-ALIAS",
    [f"C{i:02d}" for i in range(1, 21)],
    "a mutable container created before a loop, updated in place inside the loop and stored by reference into a per-iteration record "
    "(dict entry, attribute, appended element, record field) is one object shared by all records: every record ends up with the "
    "content of the last iteration; a copy at the store or a fresh container per iteration is required",
    min_instances=40,
)
def loop_alias(repo, res):
    # record constructors: NamedTuple / dataclass-like classes of the package (by name) - fields keep references
    record_ctors = set()
    for m in repo.modules.values():
        for cname, c in m.classes.items():
            bases = {(ast.unparse(b)).split(".")[-1] for b in c.bases}
            if bases & {"NamedTuple", "TypedDict"} or any("dataclass" in ast.unparse(d) for d in c.decorator_list):
                record_ctors.add(cname.split(".")[-1])
    for f in repo.all_funcs():
        res.functions.add(f.key)
        m = f.module
        body = f.node.body
        loops = [n for n in walk_no_nested(f.node) if isinstance(n, (ast.For, ast.While))]
        if not loops:
            continue
        # fresh containers bound at any statement of the function outside the loop in question
        assigns = []
        for n in walk_no_nested(f.node):
            if isinstance(n, (ast.Assign, ast.AnnAssign)) and n.value is not None and _fresh(n.value):
                tg = n.targets if isinstance(n, ast.Assign) else [n.target]
                for t in tg:
                    if isinstance(t, ast.Name):
                        assigns.append((t.id, n))
        for k, loop in enumerate(loops):
            inside = set(id(x) for st in loop.body + loop.orelse for x in [st, *walk_no_nested(st)])
            body_nodes = [x for st in loop.body for x in [st, *walk_no_nested(st)]]
            for name, a in assigns:
                if id(a) in inside:
                    continue
                if a.lineno > loop.lineno:
                    continue
                key = f"{f.key}:loop{k}:{name}"
                muts = _mutations(body_nodes, name)
                if not muts:
                    continue
                res.ob(key)
                if any(_rebinds(st, name) for st in loop.body):
                    continue  # a fresh binding per iteration (path-insensitive: any re-binding in the body discharges)
                esc = _escapes(body_nodes, name, record_ctors)
                if not esc:
                    continue
                n0, how = esc[0]
                res.fail(key, f"`{name}` is created once at line {a.lineno}, before the loop at line {loop.lineno}, filled in place inside the loop "
                         f"(`{ast.unparse(muts[0]).splitlines()[0][:60]}`) and stored by reference per iteration ({how}, line {n0.lineno}): every record of this loop "
                         "shares one object and shows what the last iteration wrote", m.line(n0), props=tuple(sorted(anchor_props(m.name) or {"C12"})))
