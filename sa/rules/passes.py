"""Translation validation of the LNodes optimiser passes on symbolic sample sections (C17).

PASS-EQUIV  licm / fuse_loops / fuse_sections / optimize are interpreted from source (absint) on sample
            sections built through the repository's own constructors; the meaning of the input and of the
            output (lnexec: polynomials over the input symbols, arbitrary initial A) must coincide, and the
            output must be well formed (no read of an undefined temporary, accesses inside declared extents)
"""

from __future__ import annotations

import ast
import copy

from ..absint import Interp, Raised
from ..lnexec import ExecError, diff, meaning
from ..lnodes_model import load_classes
from ..model import AnalysisError
from ..registry import rule

OPT = "ffcx.codegeneration.optimizer"
CONCRETE = {"entity_local_index": {(0,): 1, (1,): 2}, "quadrature_permutation": {(0,): 0, (1,): 1}}


class _B:
    """Sample builder: every node is created by interpreting the real constructor."""

    def __init__(self, repo):
        self.I = Interp(repo, load_classes(repo), primary=OPT)
        self.i, self.j, self.iq, self.ic = (self.sym(n, "DataType.INT") for n in ("i", "j", "iq", "ic"))
        self.A = self.sym("A")

    def N(self, cls, *a, **k):
        return self.I.construct(cls, list(a), k)

    def F(self, name, *a):
        f = self.I.mod.funcs.get(name)
        if f is None:
            raise AnalysisError(f"anchor vanished: lnodes.{name}")
        return self.I.call_f(f, list(a))

    def sym(self, n, t="DataType.SCALAR"):
        return self.N("Symbol", n, t)

    def add(self, a, b):
        return self.I.binop(ast.Add(), a, b)

    def mul(self, a, b):
        return self.I.binop(ast.Mult(), a, b)

    def table(self, name, r, q, ic):
        qp = 0 if r is None else self.N("ArrayAccess", self.sym("quadrature_permutation", "DataType.INT"), [r])
        en = 0 if r is None else self.N("ArrayAccess", self.sym("entity_local_index", "DataType.INT"), [r])
        return self.N("ArrayAccess", self.sym(name, "DataType.REAL"), [qp, en, q.f["global_index"], ic.f["global_index"]])

    def tensor_section(self, terms, ni, nj, ashape, nq=2):
        """terms: [((offset_i, block_i), (offset_j, block_j), [factor spec])]; factor spec: ('fw', name) | ('ti'|'tj', table, restriction) | ('lit', value)."""
        mi, mj = self.N("MultiIndex", [self.i], [ni]), self.N("MultiIndex", [self.j], [nj])
        q = self.N("MultiIndex", [self.iq], [nq])
        body = []
        for (oi, bi), (oj, bj), factors in terms:
            ai = mi.f["global_index"] if (oi, bi) == (0, 1) else self.add(self.mul(bi, mi.f["global_index"]), oi)
            aj = mj.f["global_index"] if (oj, bj) == (0, 1) else self.add(self.mul(bj, mj.f["global_index"]), oj)
            m = self.N("MultiIndex", [ai, aj], list(ashape))
            fs = []
            for spec in factors:
                if spec[0] == "fw":
                    fs.append(self.sym(spec[1]))
                elif spec[0] == "lit":
                    fs.append(self.N("LiteralFloat", spec[1]))
                else:
                    fs.append(self.table(spec[1], spec[2], q, mi if spec[0] == "ti" else mj))
            body.append(self.N("AssignAdd", self.N("ArrayAccess", self.A, [m]), self.F("float_product", fs)))
        loops = self.F("create_nested_for_loops", [mi, mj], body)
        return self.N("Section", "Tensor Computation", [loops], [], [], [self.A], ["Annotation.licm"])

    def definition(self, name, out, src, tab, n, offset=0, stride=1, r=None):
        """Section `name`: out = sum_ic src[stride*ic + offset] * tab[..][iq][ic] (what definitions.py builds)."""
        mic = self.N("MultiIndex", [self.ic], [n])
        q = self.N("MultiIndex", [self.iq], [2])
        o = self.sym(out)
        gi = mic.f["global_index"]
        idx = gi if (offset, stride) == (0, 1) else self.add(self.mul(gi, stride), offset)
        rhs = self.mul(self.N("ArrayAccess", self.sym(src), [idx]), self.table(tab, r, q, mic))
        body = [self.N("AssignAdd", o, rhs)]
        loops = self.F("create_nested_for_loops", [mic], body)
        return self.N("Section", name, [loops], [self.N("VariableDecl", o, 0.0)], [self.sym(src), self.sym(tab, "DataType.REAL")], [o], ["Annotation.fuse"])

    def quadloop(self, code, nq=2):
        return self.N("ForRange", self.iq, 0, nq, code if isinstance(code, list) else [code])


def _tensor_samples(b: _B):
    fw, ti, tj, lit = (lambda n: ("fw", n)), (lambda t, r=None: ("ti", t, r)), (lambda t, r=None: ("tj", t, r)), (lambda v: ("lit", v))
    return {
        "P2-like mass (one term)": b.tensor_section([((0, 1), (0, 1), [fw("fw0"), ti("FE0"), tj("FE0")])], 3, 3, (3, 3)),
        "interior facet (four restriction blocks, shared table, per-side entity/permutation)": b.tensor_section(
            [((0, 1), (0, 1), [fw("fw0"), ti("FE0", 0), tj("FE0", 0)]), ((0, 1), (3, 1), [fw("fw1"), ti("FE0", 0), tj("FE0", 1)]),
             ((3, 1), (0, 1), [fw("fw2"), ti("FE0", 1), tj("FE0", 0)]), ((3, 1), (3, 1), [fw("fw0"), ti("FE0", 1), tj("FE0", 1)])], 3, 3, (6, 6)),
        "blocked element (components share fw and tables)": b.tensor_section(
            [((0, 2), (0, 2), [fw("fw0"), ti("FE0"), tj("FE0")]), ((1, 2), (1, 2), [fw("fw0"), ti("FE0"), tj("FE0")]),
             ((0, 2), (1, 2), [fw("fw1"), ti("FE1"), tj("FE0")])], 3, 3, (6, 6)),
        "two terms into one entry, rectangular block": b.tensor_section(
            [((0, 1), (0, 1), [fw("fw0"), ti("FE0"), tj("FE0")]), ((0, 1), (0, 1), [fw("fw1"), ti("FE1"), tj("FE1")])], 3, 2, (3, 2)),
        "row table is `ones` (single hoist candidate)": b.tensor_section([((0, 1), (0, 1), [fw("fw0"), tj("FE0")])], 3, 3, (3, 3)),
        "literal factor": b.tensor_section([((0, 1), (0, 1), [lit(2.0), fw("fw0"), ti("FE0"), tj("FE1")])], 2, 3, (2, 3)),
        "same factors, different derivative table on the row side": b.tensor_section(
            [((0, 1), (0, 1), [fw("fw0"), ti("FE0"), tj("FE0")]), ((0, 1), (0, 1), [fw("fw0"), ti("FE1"), tj("FE0")])], 3, 3, (3, 3)),
    }


@rule(
    "PASS-EQUIV",
    ["C17", "C08"],
    "optimizer.licm, fuse_loops, fuse_sections and optimize, interpreted from source on sample sections built with "
    "the repository's constructors (tensor computations as generate_block_parts builds them: single term, interior-"
    "facet restriction blocks, blocked components, shared lhs, literal factors; coefficient/Jacobian definitions "
    "with equal and different ranges), return code whose symbolic meaning - final A / defined scalars as polynomials "
    "in the input symbols, for arbitrary initial A - equals that of the input, and which is well formed",
    min_instances=14,
)
def pass_equiv(repo, res):
    b = _B(repo)
    opt = repo.mod(OPT)
    for fn in ("licm", "fuse_loops", "fuse_sections", "optimize"):
        if fn not in opt.funcs:
            raise AnalysisError(f"anchor vanished: optimizer.{fn}")
        res.functions.add(opt.funcs[fn].key)

    DEF_EXTENTS = {"FE0": (2, 3, 2, 3), "FE1": (1, 3, 2, 3), "FE2": (1, 3, 2, 6), "FE3": (1, 3, 2, 3), "FE4": (1, 3, 2, 3), "w": (15,), "coordinate_dofs": (9,),
                   "entity_local_index": (2,), "quadrature_permutation": (2,)}

    def compare(key, label, before, after, outputs, loc, extents=None):
        try:
            m0, _ = meaning(before, outputs=outputs, concrete=CONCRETE, extents=extents)
        except ExecError as e:
            raise AnalysisError(f"PASS-EQUIV: sample `{label}` is itself ill-formed: {e}")
        try:
            m1, _ = meaning(after, outputs=outputs, concrete=CONCRETE, extents=extents)
        except ExecError as e:
            res.fail(key, f"{label}: the transformed code is ill-formed: {e}", loc)
            return
        d = diff(m0, m1)
        if d is not None:
            (arr, idx), va, vb = d
            res.fail(key, f"{label}: after the pass {arr}{list(idx)} = {_show(vb)} but the section computes {_show(va)}", loc)

    # ---- licm on tensor computations
    f = opt.funcs["licm"]
    for label, sec in _tensor_samples(b).items():
        key = f"{f.key}:equiv:{label}"
        res.ob(key)
        orig = copy.deepcopy(sec)
        try:
            out = b.I.call_f(f, [sec, None])
        except Raised as e:
            res.fail(key, f"licm raises ({e.what}) on `{label}`", opt.line(f.node))
            continue
        compare(key, f"licm on `{label}`", b.quadloop(orig), b.quadloop(out), ("A",), opt.line(f.node))
    # ---- definitions: fuse_sections + fuse_loops via optimize
    defs = lambda: [  # noqa: E731
        b.definition("Coefficient", "w0", "w", "FE0", 3),
        b.definition("Coefficient", "w1", "w", "FE1", 3, offset=3),
        b.definition("Coefficient", "w2", "w", "FE2", 6, offset=6),
        b.definition("Jacobian", "J_c0", "coordinate_dofs", "FE3", 3, offset=0, stride=3),
        b.definition("Jacobian", "J_c1", "coordinate_dofs", "FE4", 3, offset=1, stride=3),
        b.definition("Coefficient", "w3", "w", "FE0", 3, offset=12, r=1),
    ]
    outs = ("w0", "w1", "w2", "w3", "J_c0", "J_c1")
    g = opt.funcs["optimize"]
    key = f"{g.key}:equiv:definitions"
    res.ob(key)
    code = defs()
    orig = copy.deepcopy(code)
    try:
        out = b.I.call_f(g, [code, None])
    except Raised as e:
        res.fail(key, f"optimize raises ({e.what}) on coefficient/Jacobian definition sections", opt.line(g.node))
        out = None
    if out is not None:
        compare(key, "optimize on six coefficient/Jacobian definition sections", b.quadloop(orig), b.quadloop(out), outs, opt.line(g.node), DEF_EXTENTS)
        # every output symbol is still declared exactly once
        names = []
        for s_ in out:
            for d_ in (s_.f.get("declarations") or []):
                names.append(d_.f["symbol"].f["name"])
        key2 = f"{g.key}:declarations-kept"
        res.ob(key2)
        if sorted(names) != sorted(outs):
            res.fail(key2, f"after fusing, the declared symbols are {sorted(names)}, expected {sorted(outs)}", opt.line(g.node))
    # the same definitions with the longest sum last (a wrongly shared range would overrun the shorter tables)
    key = f"{g.key}:equiv:definitions, longest loop last"
    res.ob(key)
    code = defs()
    code = [code[0], code[1], code[5], code[3], code[4], code[2]]
    orig = copy.deepcopy(code)
    try:
        out = b.I.call_f(g, [code, None])
        compare(key, "optimize on the definition sections with the longest sum last", b.quadloop(orig), b.quadloop(out), outs, opt.line(g.node), DEF_EXTENTS)
    except Raised as e:
        res.fail(key, f"optimize raises ({e.what}) on definition sections", opt.line(g.node))
    # ---- fuse_sections alone keeps the other sections in place
    h = opt.funcs["fuse_sections"]
    key = f"{h.key}:equiv"
    res.ob(key)
    code = defs()
    orig = copy.deepcopy(code)
    try:
        out = b.I.call_f(h, [code, "Coefficient"])
        compare(key, "fuse_sections(Coefficient)", b.quadloop(orig), b.quadloop(out), outs, opt.line(h.node), DEF_EXTENTS)
        key3 = f"{h.key}:count"
        res.ob(key3)
        kinds = [s_.f["name"] for s_ in out]
        if kinds.count("Coefficient") != 1 or kinds.count("Jacobian") != 2:
            res.fail(key3, f"fuse_sections(Coefficient) leaves sections {kinds}", opt.line(h.node))
    except Raised as e:
        res.fail(key, f"fuse_sections raises ({e.what})", opt.line(h.node))
    # ---- fuse_loops alone
    h = opt.funcs["fuse_loops"]
    key = f"{h.key}:equiv"
    res.ob(key)
    fused = b.I.call_f(opt.funcs["fuse_sections"], [defs(), "Coefficient"])[0]
    orig = copy.deepcopy(fused)
    try:
        out = b.I.call_f(h, [fused])
        compare(key, "fuse_loops on the fused Coefficient section", b.quadloop(orig), b.quadloop(out), outs, opt.line(h.node), DEF_EXTENTS)
    except Raised as e:
        res.fail(key, f"fuse_loops raises ({e.what})", opt.line(h.node))
    # ---- whole quadrature-loop body: definitions + intermediates + tensor computation
    key = f"{g.key}:equiv:quadrature-loop-body"
    res.ob(key)
    fw0 = b.sym("fw0")
    inter = b.N("Section", "Intermediates", [b.N("Assign", fw0, b.mul(b.mul(b.sym("w0"), b.sym("J_c0")), b.N("ArrayAccess", b.sym("weights", "DataType.REAL"), [b.iq])))],
                [b.N("VariableDecl", fw0, 0)], [b.sym("w0"), b.sym("J_c0")], [fw0])
    tc = _tensor_samples(b)["P2-like mass (one term)"]
    code = [b.definition("Coefficient", "w0", "w", "FE0", 3), b.definition("Jacobian", "J_c0", "coordinate_dofs", "FE3", 3, stride=3), inter, tc]
    orig = copy.deepcopy(code)
    try:
        out = b.I.call_f(g, [code, None])
        compare(key, "optimize on definitions + intermediates + tensor computation", b.quadloop(orig), b.quadloop(out), ("A",), opt.line(g.node))
    except Raised as e:
        res.fail(key, f"optimize raises ({e.what}) on a whole quadrature-loop body", opt.line(g.node))


def _show(r):
    def poly(p):
        terms = []
        for mono, c in sorted(p.items()):
            t = "*".join(v if k == 1 else f"{v}^{k}" for v, k in mono) or "1"
            terms.append(t if c == 1 else f"{c}*{t}")
        return " + ".join(terms) or "0"

    s = poly(r.num) if r.den == {(): 1} else f"({poly(r.num)})/({poly(r.den)})"
    return s if len(s) < 260 else s[:260] + "..."
