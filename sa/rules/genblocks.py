"""The dof-block generator interpreted on sample block data (C01, C02, C07, C08).

GEN-BLOCKS  IntegralGenerator.generate_block_parts (with get_arg_factors, create_dof_index,
            create_quadrature_index, FFCXBackendAccess.table_access, FFCXBackendSymbols.entity / weights_table /
            argument_loop_index, lnodes constructors and - afterwards - optimizer.optimize) is interpreted from
            source on sample IR records; the emitted section is given its symbolic meaning (lnexec) with the
            extents of A, the tables, entity_local_index and quadrature_permutation enforced, and compared with
            the specification of a block contribution:
              A[(off_0 + bs_0*i) * ncols + (off_1 + bs_1*j)] += sum_q f*w_q * T_0[perm][entity][q][i] * T_1[..][q][j]
"""

from __future__ import annotations

import collections
import copy

from ..absint import Interp, Node, Raised, Rat, _PyCall
from ..lnexec import Exec, ExecError, diff
from ..lnodes_model import load_classes
from ..model import AnalysisError
from ..registry import rule

IG = "ffcx.codegeneration.integral_generator"
NQ = 2
CONCRETE = {"entity_local_index": {(0,): 1, (1,): 2}, "quadrature_permutation": {(0,): 1, (1,): 0}}


def _nd(shape):
    size = 1
    for s in shape:
        size *= s
    return Node("ndarray", shape=tuple(shape), size=size)


class _World:
    """Sample object graph around one IntegralGenerator (fields are exactly those the interpreted code reads;
    an unknown field read is an AnalysisError, i.e. the model must be extended, never a verdict)."""

    def __init__(self, repo):
        self.repo = repo
        self.I = Interp(repo, load_classes(repo), primary=IG)
        self.I.obj_classes = {
            "IntegralGenerator": IG,
            "FFCXBackendSymbols": "ffcx.codegeneration.symbols",
            "FFCXBackendAccess": "ffcx.codegeneration.access",
        }
        self.I.overrides["ufl.custom_integral_types"] = ("cutcell", "interface", "overlap", "custom")
        self.rule = Node("QuadratureRule", weights=_nd((NQ,)), points=_nd((NQ, 2)), has_tensor_factors=False, tensor_factors=None,
                         id=_PyCall(lambda: "r0"))

    def sym(self, n, t="DataType.SCALAR"):
        return self.I.construct("Symbol", [n, t], {})

    def table(self, name, shape, offset=0, bs=1, ttype="varying", permuted=False):
        uniform = ttype in ("fixed", "ones", "zeros", "uniform")
        piecewise = ttype in ("fixed", "ones", "zeros", "piecewise")
        return Node("UniqueTableReferenceT", name=name, values=_nd(shape), offset=offset, block_size=bs, ttype=ttype, is_permuted=permuted,
                    is_uniform=uniform, is_piecewise=piecewise, has_tensor_factorisation=False, tensor_factors=None, tensor_permutation=None)

    def setup(self, entity_type, integral_type, tensor_shape, terms, part="TensorPart.full"):
        symbols = Node("FFCXBackendSymbols", element_tensor=self.sym("A"), entity_local_index=self.sym("entity_local_index", "DataType.INT"),
                       quadrature_permutation=self.sym("quadrature_permutation", "DataType.INT"), quadrature_loop_index=self.sym("iq", "DataType.INT"),
                       quadrature_weight_tables={}, element_tables={}, custom_weights_table=self.sym("weights_chunk", "DataType.REAL"))
        access = Node("FFCXBackendAccess", symbols=symbols, entity_type=entity_type, integral_type=integral_type)
        backend = Node("FFCXBackend", symbols=symbols, access=access)
        fnodes, margs, scope, blocklist = {}, {}, {}, []
        stale = {}
        for k, (fname, args) in enumerate(terms):
            v = Node("UflExpr", name=fname, _ufl_is_literal_=False)
            fnodes[k] = {"expression": v}
            scope[v] = self.sym(fname)
            # the shared piecewise scope holds a value of the same expression cached by ANOTHER rule: it must not be preferred
            stale[v] = self.sym("STALE_other_rule_" + fname)
            mads = []
            for j, (td, restr) in enumerate(args):
                ma = 100 * k + j
                margs[ma] = Node("ModifiedTerminal", restriction=restr)
                mads.append(Node("ModifiedArgumentDataT", ma_index=ma, tabledata=td))
                symbols.f["element_tables"][td.f["name"]] = self.sym(td.f["name"], "DataType.REAL")
            blocklist.append(Node("BlockDataT", ttypes=tuple(td.f["ttype"] for td, _ in args), factor_indices_comp_indices=[(k, 0)],
                                  all_factors_piecewise=False, unames=tuple(td.f["name"] for td, _ in args), restrictions=tuple(r for _, r in args),
                                  transposed=False, is_uniform=False, ma_data=tuple(mads), is_permuted=False))
        key = ("triangle", self.rule)
        expr_ir = Node("ExpressionIR", integrand={key: {"factorization": Node("ExpressionGraph", nodes=fnodes), "modified_arguments": margs, "block_contributions": {}}},
                       tensor_shape=list(tensor_shape), entity_type=entity_type, integral_type=integral_type)
        ir = Node("IntegralIR", expression=expr_ir, part=part)
        gen = Node("IntegralGenerator", ir=ir, backend=backend, temp_symbols={}, symbol_counters=collections.defaultdict(int),
                   scopes={key: scope, (None, None): stale}, _ufl_names=set())
        return gen, blocklist


def _spec(terms, tensor_shape, entity_type, diagonal=False):
    """Expected final A (dict index -> Rat) for the sample; independent of the generator's code."""
    out = {}
    ncols = tensor_shape[1] if len(tensor_shape) == 2 else 1

    def tval(td, restr, q, d):
        f = td.f
        if f["ttype"] == "ones":
            return Rat.const(1)
        perm = 0
        if f["is_permuted"]:
            perm = CONCRETE["quadrature_permutation"][(1 if restr == "-" else 0,)]
        ent = 0
        if not f["is_uniform"] and entity_type != "cell":
            ent = CONCRETE["entity_local_index"][(1 if (restr == "-" and entity_type == "facet") else 0,)]
        qq = 0 if f["is_piecewise"] else q
        return Rat.var(f"{f['name']}[{perm}, {ent}, {qq}, {d}]")

    for fname, args in terms:
        nd_ = [td.f["values"].f["shape"][3] for td, _ in args]
        for q in range(NQ):
            fw = Rat.var(fname) * Rat.var(f"weights_r0[{q}]")
            if len(args) == 0:
                out[0] = out.get(0, Rat.const(0)) + fw
            elif len(args) == 1:
                (t0, r0), = args
                for i in range(nd_[0]):
                    idx = t0.f["offset"] + t0.f["block_size"] * i
                    out[idx] = out.get(idx, Rat.const(0)) + fw * tval(t0, r0, q, i)
            elif diagonal:
                (t0, r0), (t1, r1) = args
                for i in range(nd_[0]):
                    idx = t0.f["offset"] + t0.f["block_size"] * i
                    out[idx] = out.get(idx, Rat.const(0)) + fw * tval(t0, r0, q, i) * tval(t1, r1, q, i)
            else:
                (t0, r0), (t1, r1) = args
                for i in range(nd_[0]):
                    for j in range(nd_[1]):
                        idx = (t0.f["offset"] + t0.f["block_size"] * i) * ncols + (t1.f["offset"] + t1.f["block_size"] * j)
                        out[idx] = out.get(idx, Rat.const(0)) + fw * tval(t0, r0, q, i) * tval(t1, r1, q, j)
    return out


def _samples(w: _World):
    T = w.table
    P1 = T("FE0", (1, 1, NQ, 3))
    out = []
    out.append(("cell, P1 x P1", "cell", "cell", (3, 3), [("f0", [(P1, None), (P1, None)])], ((0, 1, 2), (0, 1, 2)), False))
    D0 = T("FE1", (1, 1, 1, 3), ttype="piecewise")
    out.append(("cell, piecewise derivative tables, two terms", "cell", "cell", (3, 3),
                [("f0", [(D0, None), (D0, None)]), ("f1", [(P1, None), (D0, None)])], ((0, 1, 2), (0, 1, 2)), False))
    Bx, By = T("FE2", (1, 1, NQ, 3), offset=0, bs=2), T("FE2", (1, 1, NQ, 3), offset=1, bs=2)
    out.append(("cell, blocked vector element (components x, y and a coupling term)", "cell", "cell", (6, 6),
                [("f0", [(Bx, None), (Bx, None)]), ("f0", [(By, None), (By, None)]), ("f1", [(Bx, None), (By, None)])], ((0, 1, 2), (0, 1, 2)), False))
    Fp, Fm = T("FE3", (2, 3, NQ, 3), offset=0, permuted=True), T("FE3", (2, 3, NQ, 3), offset=3, permuted=True)
    out.append(("interior facet, permuted non-uniform table, all four restriction blocks", "facet", "interior_facet", (6, 6),
                [("f0", [(Fp, "+"), (Fp, "+")]), ("f1", [(Fp, "+"), (Fm, "-")]), ("f2", [(Fm, "-"), (Fp, "+")]), ("f3", [(Fm, "-"), (Fm, "-")])],
                ((0, 1, 2), (0, 1, 2)), False))
    E = T("FE4", (1, 3, NQ, 3))
    U = T("FE5", (1, 1, NQ, 3), ttype="uniform")
    out.append(("exterior facet, entity-dependent and uniform tables", "facet", "exterior_facet", (3, 3), [("f0", [(E, None), (U, None)])], ((0, 1, 2), (0, 1, 2)), False))
    P2, Q = T("FE6", (1, 1, NQ, 6)), T("FE7", (1, 1, NQ, 3), offset=6)
    out.append(("cell, mixed P2 x P1 rectangular blocks", "cell", "cell", (9, 9), [("f0", [(P2, None), (Q, None)]), ("f1", [(Q, None), (P2, None)])],
                None, False))
    Q0 = T("FE7", (1, 1, NQ, 3))
    out.append(("cell, different test and trial spaces (6 x 3 tensor)", "cell", "cell", (6, 3), [("f0", [(P2, None), (Q0, None)])], ((0, 1, 2, 3, 4, 5), (0, 1, 2)), False))
    R = T("FE8", (1, 1, 1, 1), offset=3, ttype="ones")
    out.append(("cell, real (single dof, ones table) x P1", "cell", "cell", (4, 4), [("f0", [(R, None), (P1, None)])], ((0,), (0, 1, 2)), False))
    out.append(("cell, linear form", "cell", "cell", (3,), [("f0", [(P1, None)]), ("f1", [(D0, None)])], ((0, 1, 2),), False))
    out.append(("vertex integral, linear form", "vertex", "vertex", (3,), [("f0", [(E, None)])], ((0, 1, 2),), False))
    out.append(("cell, functional", "cell", "cell", (), [("f0", [])], (), False))
    out.append(("cell, diagonal of P1 x P1", "cell", "cell", (3,), [("f0", [(P1, None), (P1, None)]), ("f1", [(D0, None), (D0, None)])], ((0, 1, 2), (0, 1, 2)), True))
    # part="diagonal" applies to bilinear forms only: other ranks compiled with it must come out as without it
    out.append(("cell, linear form compiled with part=diagonal", "cell", "cell", (3,), [("f0", [(P1, None)]), ("f1", [(D0, None)])], ((0, 1, 2),), True))
    out.append(("cell, functional compiled with part=diagonal", "cell", "cell", (), [("f0", [])], (), True))
    return out


@rule(
    "GEN-BLOCKS",
    ["C01", "C02", "C07", "C08", "C10", "C11"],
    "generate_block_parts and everything it calls are interpreted from source on twelve sample block sets (cell / "
    "exterior facet / interior facet with all four restriction blocks and a permuted table / vertex; scalar, blocked, "
    "mixed, real; piecewise, uniform, ones tables; rank 0, 1, 2 and part=diagonal). The emitted code - intermediates "
    "followed by the tensor-computation section inside the quadrature loop, before and after optimizer.optimize - must "
    "stay inside the extents of A (prod of the tensor shape), of every table (its values.shape), of the two-slot entity "
    "and permutation arguments, must only accumulate into A, and its meaning must equal the block specification",
    min_instances=24,
)
def gen_blocks(repo, res):
    _run_block_samples(repo, res, _samples)


def _sweep_samples(w: "_World"):
    """Combinatorial block sets for the thorough tier: every pair of table kinds for test and trial function on every
    integration entity, with and without blocking / offsets / permutation, plus rank-1 and diagonal versions."""
    import itertools

    T = w.table
    out = []
    kinds = [("varying", {}), ("piecewise", {}), ("uniform", {}), ("fixed", {}), ("ones", {})]
    n = 0
    for (etype, itype, restrs) in (("cell", "cell", [(None, None)]), ("facet", "exterior_facet", [(None, None)]),
                                   ("facet", "interior_facet", [("+", "+"), ("+", "-"), ("-", "+"), ("-", "-")]), ("vertex", "vertex", [(None, None)])):
        nent = 1 if etype == "cell" else 3
        for (k0, _a), (k1, _b) in itertools.product(kinds, kinds):
            for bs, permuted in ((1, False), (2, False), (1, True)):
                if permuted and itype != "interior_facet":
                    continue
                for r0, r1 in restrs:
                    def mk(kind, name, restr, comp):
                        nq = 1 if kind in ("piecewise", "fixed", "ones") else NQ
                        ne = 1 if kind in ("uniform", "fixed", "ones") or etype == "cell" else nent
                        ndof = 1 if kind == "ones" else 3
                        off = (3 * bs if restr == "-" else 0) + (comp if bs > 1 else 0)
                        return T(name, (2 if (permuted and kind not in ("ones",)) else 1, ne, nq, ndof), offset=off, bs=bs, ttype=kind,
                                 permuted=permuted and kind != "ones")
                    t0, t1 = mk(k0, f"FA{n}", r0, 0), mk(k1, f"FB{n}", r1, 1 if bs > 1 else 0)
                    n += 1
                    size = 3 * bs * (2 if itype == "interior_facet" else 1)
                    bm = (tuple(range(t0.f["values"].f["shape"][3])), tuple(range(t1.f["values"].f["shape"][3])))
                    out.append((f"sweep {itype} {k0}x{k1} bs={bs} perm={permuted} {r0}{r1}", etype, itype, (size, size), [("f0", [(t0, r0), (t1, r1)])], bm, False))
        for (k0, _a) in kinds:
            t0 = T(f"FC{n}", (1, 1 if (k0 in ("uniform", "fixed", "ones") or etype == "cell") else nent, 1 if k0 in ("piecewise", "fixed", "ones") else NQ, 1 if k0 == "ones" else 3),
                   ttype=k0)
            n += 1
            out.append((f"sweep {itype} rank 1 {k0}", etype, itype, (3,), [("f0", [(t0, None)]), ("f1", [(t0, None)])], (tuple(range(t0.f["values"].f["shape"][3])),), False))
            if k0 != "ones":
                out.append((f"sweep {itype} diagonal {k0}", etype, itype, (3,), [("f0", [(t0, None), (t0, None)])], (tuple(range(3)), tuple(range(3))), True))
    return out


@rule(
    "GEN-BLOCKS-SWEEP",
    ["C01", "C02", "C07", "C08", "C10"],
    "thorough tier of GEN-BLOCKS: the same interpretation and comparison on a combinatorial family of block sets - every "
    "pair of table kinds (varying, piecewise, uniform, fixed, ones) for test and trial function on cells, exterior facets, "
    "interior facets (all four restriction pairs, with and without permuted tables), vertices; unit and blocked strides; rank "
    "1 and diagonal variants - each before and after optimizer.optimize",
    min_instances=400,
    tier="thorough",
)
def gen_blocks_sweep(repo, res):
    _run_block_samples(repo, res, _sweep_samples)


def _run_block_samples(repo, res, sample_fn):
    w = _World(repo)
    m = repo.mod(IG)
    g = m.func("IntegralGenerator.generate_block_parts")
    opt = repo.mod("ffcx.codegeneration.optimizer").func("optimize")
    res.functions.update({g.key, opt.key, m.func("IntegralGenerator.get_arg_factors").key,
                          repo.mod("ffcx.codegeneration.access").func("FFCXBackendAccess.table_access").key,
                          repo.mod("ffcx.codegeneration.symbols").func("FFCXBackendSymbols.entity").key})
    for label, etype, itype, shape, terms, blockmap, diag in sample_fn(w):
        key = f"{g.key}:{label}"
        res.ob(key)
        gen, bl_all = w.setup(etype, itype, shape, terms, "TensorPart.diagonal" if diag else "TensorPart.full")
        if blockmap is None:
            # one group per term (different scalar block maps), one generator for the whole integral as in generate_dofblock_partition
            groups = [(tuple(tuple(range(td.f["values"].f["shape"][3])) for td, _ in args), [bl_all[k]]) for k, (_f, args) in enumerate(terms)]
        else:
            groups = [(blockmap, bl_all)]
        sections, inter = [], []
        failed = False
        for bm, bl in groups:
            try:
                qp, im = w.I.call_f(g, [gen, w.rule, "triangle", bm, bl])
            except Raised as e:
                res.fail(key, f"generate_block_parts raises ({e.what}) on `{label}`", m.line(g.node))
                failed = True
                break
            sections += qp
            inter += im
        if failed:
            continue
        # fw names differ per group: make the per-term factor symbols distinct inputs
        extents = {"A": (max(1, _prod(shape)),), "entity_local_index": (2,), "quadrature_permutation": (2,), "weights_r0": (NQ,)}
        for _f, args in terms:
            for td, _r in args:
                extents[td.f["name"]] = td.f["values"].f["shape"]
        iq = w.sym("iq", "DataType.INT")

        def run(code, what):
            prog = w.I.construct("ForRange", [iq, 0, NQ, code], {})
            ex = Exec(("A",), concrete=CONCRETE, extents=extents)
            try:
                ex.run(prog)
            except ExecError as e:
                res.fail(key, f"`{label}` ({what}): {e}", m.line(g.node))
                return None
            return ex.result()

        got = run(list(inter) + list(sections), "as generated")
        if got is None:
            continue
        spec = _spec(terms, shape, etype, diag)
        want = {("A", (i,)): Rat.var(f"A[{i}]") + v for i, v in spec.items()}
        d = diff(want, got)
        if d is not None:
            (arr, idx), va, vb = d
            res.fail(key, f"`{label}`: generated code leaves {arr}{list(idx)} = {_show(vb)}; the block contribution is {_show(va)}", m.line(g.node))
            continue
        # after the optimiser
        key2 = f"{opt.key}:after:{label}"
        res.ob(key2)
        code = [copy.deepcopy(s) for s in sections]
        try:
            code = w.I.call_f(opt, [code, w.rule])
        except Raised as e:
            res.fail(key2, f"optimize raises ({e.what}) on the section generated for `{label}`", m.line(g.node))
            continue
        got2 = run(list(inter) + list(code), "after optimize")
        if got2 is None:
            continue
        d = diff(want, got2)
        if d is not None:
            (arr, idx), va, vb = d
            res.fail(key2, f"`{label}`: after optimize {arr}{list(idx)} = {_show(vb)}; the block contribution is {_show(va)}", m.line(g.node))


def _prod(shape):
    out = 1
    for s in shape:
        out *= s
    return out


def _show(r):
    def poly(p):
        terms = []
        for mono, c in sorted(p.items()):
            t = "*".join(v if k == 1 else f"{v}^{k}" for v, k in mono) or "1"
            terms.append(t if c == 1 else f"{c}*{t}")
        return " + ".join(terms) or "0"

    s = poly(r.num) if r.den == {(): 1} else f"({poly(r.num)})/({poly(r.den)})"
    return s if len(s) < 300 else s[:300] + "..."


# ---- GEN-DEFS: coefficient / geometry definitions interpreted on sample table data -------------------------------

DEFS = "ffcx.codegeneration.definitions"


def _defs_world(w: _World, entity_type, integral_type, coef_offsets, num_coord_dofs):
    symbols = Node("FFCXBackendSymbols", coefficients=w.sym("w"), coordinate_dofs=w.sym("coordinate_dofs", "DataType.REAL"),
                   entity_local_index=w.sym("entity_local_index", "DataType.INT"), quadrature_permutation=w.sym("quadrature_permutation", "DataType.INT"),
                   quadrature_loop_index=w.sym("iq", "DataType.INT"), coefficient_dof_sum_index=w.sym("ic", "DataType.INT"),
                   coefficient_offsets=dict(coef_offsets), coefficient_numbering={c: i for i, c in enumerate(coef_offsets)}, element_tables={})
    access = Node("FFCXBackendAccess", symbols=symbols, entity_type=entity_type, integral_type=integral_type)
    defs = Node("FFCXBackendDefinitions", symbols=symbols, access=access, entity_type=entity_type, integral_type=integral_type, options={})
    mesh = Node("Mesh", geometric_dimension=2, topological_dimension=2,
                ufl_coordinate_element=_PyCall(lambda: Node("CoordinateElement", _sub_element=Node("Element", dim=num_coord_dofs))))
    w.I.overrides["ufl.domain.extract_unique_domain"] = _PyCall(lambda t: mesh)
    return defs, symbols


@rule(
    "GEN-DEFS",
    ["C05", "C02", "C08", "C03", "C01", "C11"],
    "FFCXBackendDefinitions.coefficient / jacobian / spatial_coordinate (with coefficient_dof_access, table_access, "
    "symbols.entity) are interpreted from source on sample table data: the defined value must be "
    "sum_ic w[offset_of_coefficient + block_size*ic + begin] * T[perm][entity][q][ic], resp. "
    "sum_ic coordinate_dofs[3*ic + component (+ 3*num_nodes for '-')] * T[...], with every read inside the extents the "
    "UFCx contract gives w (sum of element dimensions, doubled on interior facets), coordinate_dofs (3 x nodes, doubled) "
    "and the tables",
    min_instances=11,
)
def gen_defs(repo, res):
    w = _World(repo)
    w.I.obj_classes["FFCXBackendDefinitions"] = DEFS
    dm = repo.mod(DEFS)
    fco = dm.func("FFCXBackendDefinitions.coefficient")
    fja = dm.func("FFCXBackendDefinitions.jacobian")
    fsx = dm.func("FFCXBackendDefinitions.spatial_coordinate")
    res.functions.update({fco.key, fja.key, fsx.key, dm.func("FFCXBackendDefinitions._define_coordinate_dofs_lincomb").key,
                          repo.mod("ffcx.codegeneration.symbols").func("FFCXBackendSymbols.coefficient_dof_access").key})
    f0, f1 = Node("Coefficient", name="f"), Node("Coefficient", name="g")
    qel = Node("Element", is_quadrature=True, block_size=2, has_custom_quadrature=True)
    fq = Node("Coefficient", name="g", ufl_element=_PyCall(lambda: qel))
    T = w.table
    from ..npmodel import NDArr as _NDArr, install_arrays as _install_arrays
    CONCRETE_TABLES = {"FEq": lambda q_, d_: 1 if q_ == d_ else 0, "FEp": lambda q_, d_: 1 if d_ == (q_ + 1) % NQ else 0}
    try:
        perm_ttype = _install_arrays(Interp(repo, load_classes(repo), primary="ffcx.ir.elementtables")).call_f(
            repo.mod("ffcx.ir.elementtables").func("analyse_table_type"),
            [_NDArr([[[[CONCRETE_TABLES["FEp"](q_, d_) for d_ in range(NQ)] for q_ in range(NQ)]]], (1, 1, NQ, NQ))])
    except (Raised, AnalysisError):
        perm_ttype = "varying"   # (the classification itself is decided by TABLE-INDEX)
    if not isinstance(perm_ttype, str):
        perm_ttype = "varying"
    # (label, entity, integral type, function, table, restriction, coefficient, dims of (f, g), expected source indices)
    cases = [
        ("coefficient, cell, P1", "cell", "cell", fco, T("FE0", (1, 1, NQ, 3)), None, f0, (3, 6)),
        ("coefficient, cell, second coefficient, blocked component 1", "cell", "cell", fco, T("FE1", (1, 1, NQ, 3), offset=1, bs=2), None, f1, (3, 6)),
        ("coefficient, interior facet, '-' side, permuted table", "facet", "interior_facet", fco, T("FE2", (2, 3, NQ, 3), offset=3, permuted=True), "-", f1, (3, 3)),
        ("coefficient, interior facet, '+' side", "facet", "interior_facet", fco, T("FE2", (2, 3, NQ, 3), offset=0, permuted=True), "+", f0, (3, 3)),
        ("coefficient, exterior facet, piecewise table", "facet", "exterior_facet", fco, T("FE3", (1, 3, 1, 3), ttype="piecewise"), None, f0, (3, 3)),
        # a blocked quadrature element tabulated at its own points: the table is the identity (concretely so here), the dofs are interleaved
        ("coefficient on a blocked quadrature element, component 1 of 2", "cell", "cell", fco, T("FEq", (1, 1, NQ, NQ), offset=1, bs=2, ttype="quadrature"), None, fq, (3, 2 * NQ)),
        # a collocated element whose points and dofs are numbered differently (GLL points in lexicographic order, dofs by sub-entity): the table is a permutation
        # matrix, not the identity.  Its type is whatever the IR's own classification says it is
        ("coefficient whose table is a permutation of the identity, classified by analyse_table_type", "cell", "cell", fco,
         T("FEp", (1, 1, NQ, NQ), ttype=perm_ttype), None, f1, (3, NQ)),
        ("jacobian component, cell", "cell", "cell", fja, T("FE4", (1, 1, 1, 3), offset=1, ttype="piecewise"), None, None, (3, 3)),
        ("jacobian component, interior facet '-'", "facet", "interior_facet", fja, T("FE5", (1, 3, NQ, 3), offset=0), "-", None, (3, 3)),
        ("jacobian component, interior facet '+'", "facet", "interior_facet", fja, T("FE5", (1, 3, NQ, 3), offset=2), "+", None, (3, 3)),
        ("jacobian component, interior facet '+', permuted table (non-affine geometry)", "facet", "interior_facet", fja, T("FE7", (2, 3, NQ, 3), offset=1, permuted=True), "+", None, (3, 3)),
        ("spatial coordinate, interior facet '+', permuted table", "facet", "interior_facet", fsx, T("FE7", (2, 3, NQ, 3), offset=0, permuted=True), "+", None, (3, 3)),
        ("spatial coordinate, exterior facet", "facet", "exterior_facet", fsx, T("FE6", (1, 3, NQ, 3), offset=1), None, None, (3, 3)),
    ]
    for label, etype, itype, fn, td, restr, coef, dims in cases:
        key = f"{fn.key}:{label}"
        res.ob(key)
        width = 2 if itype == "interior_facet" else 1
        offsets = {f0: 0, f1: width * dims[0], fq: width * dims[0]}
        nnodes = 3
        values01 = CONCRETE_TABLES.get(td.f["name"])
        identity = values01 is not None
        concrete = dict(CONCRETE)
        if identity:
            concrete[td.f["name"]] = {(0, 0, q_, d_): values01(q_, d_) for q_ in range(NQ) for d_ in range(NQ)}
        defs, symbols = _defs_world(w, etype, itype, offsets, nnodes)
        symbols.f["element_tables"][td.f["name"]] = w.sym(td.f["name"], "DataType.REAL")
        mt = Node("ModifiedTerminal", terminal=coef if coef is not None else Node("SpatialCoordinate"), restriction=restr, expr=None)
        outsym = w.sym("val")
        try:
            sec = w.I.call_f(fn, [defs, mt, td, w.rule, outsym])
        except Raised as e:
            res.fail(key, f"{fn.qualname} raises ({e.what}) on `{label}`", dm.line(fn.node))
            continue
        if isinstance(sec, list) and not sec:
            res.fail(key, f"{fn.qualname} emits no definition for `{label}`", dm.line(fn.node))
            continue
        extents = {"w": (width * (dims[0] + dims[1]),), "coordinate_dofs": (width * 3 * nnodes,), "entity_local_index": (2,), "quadrature_permutation": (2,),
                   td.f["name"]: td.f["values"].f["shape"]}
        iq = w.sym("iq", "DataType.INT")
        fv = td.f
        nd_ = fv["values"].f["shape"][3]
        for q in range(NQ):
            ex = Exec(("val",), concrete=concrete, extents=extents)
            try:
                ex.run(w.I.construct("ForRange", [iq, q, q + 1, [sec]], {}))
            except ExecError as e:
                res.fail(key, f"`{label}`: {e}", dm.line(fn.node))
                break
            got = ex.result().get(("val", ()))
            perm = CONCRETE["quadrature_permutation"][(1 if restr == "-" else 0,)] if fv["is_permuted"] else 0
            ent = 0 if (fv["is_uniform"] or etype == "cell") else CONCRETE["entity_local_index"][(1 if restr == "-" else 0,)]
            qq = 0 if fv["is_piecewise"] else q
            want = Rat.const(0)
            for ic in range(nd_):
                tv = Rat.var(f"{fv['name']}[{perm}, {ent}, {qq}, {ic}]") if not identity else Rat.const(values01(qq, ic))
                if coef is not None:
                    src = Rat.var(f"w[{offsets[coef] + fv['block_size'] * ic + fv['offset']}]")
                else:
                    src = Rat.var(f"coordinate_dofs[{3 * ic + fv['offset'] + (3 * nnodes if restr == '-' else 0)}]")
                want = want + src * tv
            if got is None or not (got == want):
                res.fail(key, f"`{label}` at point {q}: defined value is {_show(got) if got is not None else 'undefined'}, expected {_show(want)}", dm.line(fn.node))
                break


# ---- GEN-EXPR: the expression block generator interpreted on sample IR ------------------------------------------

EG = "ffcx.codegeneration.expression_generator"


@rule(
    "GEN-EXPR",
    ["C04", "C08"],
    "ExpressionGenerator.generate_block_parts (with get_arg_factors and symbols.element_table) is interpreted from source "
    "on sample block data; inside the point loop the emitted statements must write, within prod([points, components] + "
    "argument dimensions), exactly A[(point*ncomp + component)*ndofs + dof] += factor_component * T[perm][entity][point][dof] "
    "(rank 0: A[point*ncomp + component] += factor_component), for contiguous, blocked and single-dof maps, on cells and "
    "on facets with a permuted table. (The `expand_loop` branch for irregular dof maps is unreachable - block maps are "
    "arithmetic progressions by construction in ir/integral.py - and is not sampled; as written it would raise TypeError.)",
    min_instances=5,
)
def gen_expr(repo, res):
    import itertools

    w = _World(repo)
    w.I.obj_classes["ExpressionGenerator"] = EG
    w.I.overrides["pairwise"] = _PyCall(lambda it: list(itertools.pairwise(list(it))))
    w.I.overrides["product"] = _PyCall(lambda *its: [tuple(x) for x in itertools.product(*[list(i) for i in its])])
    m = repo.mod(EG)
    g = m.func("ExpressionGenerator.generate_block_parts")
    res.functions.update({g.key, m.func("ExpressionGenerator.get_arg_factors").key,
                          repo.mod("ffcx.codegeneration.symbols").func("FFCXBackendSymbols.element_table").key})
    T = w.table
    npts = NQ
    cases = [
        # label, entity type, value shape, argument dims, blockmap, table, restriction
        ("rank 0, two components", "cell", (2,), [], (), None),
        ("rank 1, P1 argument, two components", "cell", (2,), [3], ((0, 1, 2),), T("FE0", (1, 1, npts, 3))),
        ("rank 1, blocked argument component 1", "cell", (1,), [6], ((1, 3, 5),), T("FE1", (1, 1, npts, 3), offset=1, bs=2)),
        ("rank 1, facet expression with a permuted, entity-dependent table", "facet", (2,), [3], ((0, 1, 2),), T("FE3", (2, 3, npts, 3), permuted=True)),
        ("rank 1, single dof", "cell", (1,), [4], ((3,),), T("FE4", (1, 1, npts, 1), offset=3)),
    ]
    for label, etype, vshape, argdims, blockmap, td in cases:
        key = f"{g.key}:{label}"
        res.ob(key)
        ncomp = _prod(vshape)
        symbols = Node("FFCXBackendSymbols", element_tensor=w.sym("A"), entity_local_index=w.sym("entity_local_index", "DataType.INT"),
                       quadrature_permutation=w.sym("quadrature_permutation", "DataType.INT"), quadrature_loop_index=w.sym("iq", "DataType.INT"),
                       element_tables={})
        backend = Node("FFCXBackend", symbols=symbols)
        fnodes, scope = {}, {}
        fici = []
        for c in range(ncomp):
            v = Node("UflExpr", name=f"f{c}", _ufl_is_literal_=False)
            fnodes[c] = {"expression": v}
            scope[v] = w.sym(f"f{c}")
            fici.append((c, c))
        margs = {0: Node("ModifiedTerminal", restriction=None)}
        mads = (Node("ModifiedArgumentDataT", ma_index=0, tabledata=td),) if td is not None else ()
        bd = Node("BlockDataT", ttypes=tuple([td.f["ttype"]] if td is not None else []), factor_indices_comp_indices=fici, all_factors_piecewise=False,
                  unames=(), restrictions=(), transposed=False, is_uniform=False, ma_data=mads, is_permuted=False)
        rule_key = ("triangle", w.rule)
        expr_ir = Node("CommonExpressionIR", integrand={rule_key: {"factorization": Node("ExpressionGraph", nodes=fnodes), "modified_arguments": margs}},
                       tensor_shape=list(argdims), shape=list(vshape), entity_type=etype, integral_type="expression")
        gen = Node("ExpressionGenerator", ir=Node("ExpressionIR", expression=expr_ir), backend=backend, scope=scope, symbol_counters=collections.defaultdict(int),
                   quadrature_rule=rule_key, shared_symbols={}, _ufl_names=set())
        try:
            pre, quad = w.I.call_f(g, [gen, blockmap, bd])
        except Raised as e:
            res.fail(key, f"generate_block_parts raises ({e.what}) on `{label}`", m.line(g.node))
            continue
        total = npts * ncomp * _prod(argdims)
        extents = {"A": (total,), "entity_local_index": (2,), "quadrature_permutation": (2,)}
        if td is not None:
            extents[td.f["name"]] = td.f["values"].f["shape"]
        iq = w.sym("iq", "DataType.INT")
        ex = Exec(("A",), concrete=CONCRETE, extents=extents)
        try:
            ex.run(list(pre))
            ex.run(w.I.construct("ForRange", [iq, 0, npts, list(quad)], {}))
        except ExecError as e:
            res.fail(key, f"`{label}`: {e}", m.line(g.node))
            continue
        want = {}
        for q in range(npts):
            for c in range(ncomp):
                if td is None:
                    idx = q * ncomp + c
                    want[("A", (idx,))] = Rat.var(f"A[{idx}]") + Rat.var(f"f{c}")
                    continue
                fv = td.f
                perm = CONCRETE["quadrature_permutation"][(0,)] if fv["is_permuted"] else 0
                ent = 0 if (fv["is_uniform"] or etype == "cell") else CONCRETE["entity_local_index"][(0,)]
                for d, dof in enumerate(blockmap[0]):
                    idx = (q * ncomp + c) * argdims[0] + dof
                    want[("A", (idx,))] = Rat.var(f"A[{idx}]") + Rat.var(f"f{c}") * Rat.var(f"{fv['name']}[{perm}, {ent}, {q}, {d}]")
        d = diff(want, ex.result())
        if d is not None:
            (arr, idx), va, vb = d
            res.fail(key, f"`{label}`: generated code leaves {arr}{list(idx)} = {_show(vb)}; expected {_show(va)} "
                     "(layout A[point][component][argument dof])", m.line(g.node))


# ---- GEN-FORM: both form-descriptor generators interpreted on sample FormIR -----------------------------------

@rule(
    "GEN-FORM",
    ["C06", "C18", "C19", "C20"],
    "C/form.py and numba/form.py `generator` (with common.integral_data) are interpreted from source on sample FormIR "
    "records (unsorted subdomain ids, the default integral, groups with two cell types, empty types, coefficients that "
    "dropped out, scalar and tensor constants, a missing element hash). The emitted text is read back: offsets must be "
    "the exclusive prefix sums of kernels per type in ufcx.h enum order, form_integrals / form_integral_ids one entry per "
    "(group, cell type) in ascending id order with each kernel named <integral>_<cell type> next to its own id, declared "
    "array sizes equal the entry counts, the remaining descriptor arrays pass the IR through, and both backends agree",
    min_instances=9,
)
def gen_form(repo, res):
    import re
    import string

    def argsort(ids):
        return sorted(range(len(ids)), key=lambda i: ids[i])

    dom = lambda n: Node("CellType", name=n)  # noqa: E731
    types = ["cell", "exterior_facet", "interior_facet", "vertex", "ridge"]
    samples = {
        "prism form: unsorted ids, default integrals, two facet types per group": Node(
            "FormIR", id=0, name="form_abc", signature="sig", rank=2, num_coefficients=3, name_from_uflfile="a", original_coefficient_positions=[0, 2, 3],
            coefficient_names=["f", "g", "h"], num_constants=2, constant_ranks=[0, 2], constant_shapes=[[], [2, 3]], constant_names=["c0", "c1"],
            finite_element_hashes=[11, None, 13, 14, 15],
            integral_names={"cell": ["ic_b", "ic_a"], "exterior_facet": ["ie_7", "ie_3", "ie_o"], "interior_facet": [], "vertex": ["iv"], "ridge": []},
            integral_domains={"cell": [[dom("prism")], [dom("prism")]], "exterior_facet": [[dom("triangle"), dom("quadrilateral")]] * 3, "interior_facet": [],
                              "vertex": [[dom("point")]], "ridge": []},
            subdomain_ids={"cell": [5, -1], "exterior_facet": [7, 3, -1], "interior_facet": [], "vertex": [-1], "ridge": []}),
        "functional without coefficients and constants, interior facets only": Node(
            "FormIR", id=1, name="form_q", signature="s2", rank=0, num_coefficients=0, name_from_uflfile="M", original_coefficient_positions=[],
            coefficient_names=[], num_constants=0, constant_ranks=[], constant_shapes=[], constant_names=[], finite_element_hashes=[],
            integral_names={"cell": [], "exterior_facet": [], "interior_facet": ["ii_2", "ii_1", "ii_9"], "vertex": [], "ridge": ["ir"]},
            integral_domains={"cell": [], "exterior_facet": [], "interior_facet": [[dom("interval")]] * 3, "vertex": [], "ridge": [[dom("point")]]},
            subdomain_ids={"cell": [], "exterior_facet": [], "interior_facet": [2, 1, 9], "vertex": [], "ridge": [4]}),
    }
    samples["two meshes: one subdomain id used by two integral groups of a type"] = Node(
        "FormIR", id=2, name="form_r", signature="s3", rank=1, num_coefficients=2, name_from_uflfile="L", original_coefficient_positions=[1, 4],
        coefficient_names=["f", "k"], num_constants=0, constant_ranks=[], constant_shapes=[], constant_names=[], finite_element_hashes=[7, 8, 9],
        integral_names={"cell": ["ic_m2_1", "ic_m1_o", "ic_m1_1"], "exterior_facet": [], "interior_facet": [], "vertex": [], "ridge": []},
        integral_domains={"cell": [[dom("triangle")], [dom("triangle")], [dom("triangle")]], "exterior_facet": [], "interior_facet": [], "vertex": [], "ridge": []},
        subdomain_ids={"cell": [1, -1, 1], "exterior_facet": [], "interior_facet": [], "vertex": [], "ridge": []})

    # the form IR as _compute_form_ir builds it (interpreted), with every integral type present: the generators must lay the types out in the enum
    # order of ufcx.h whatever the order in which the IR's per-type dictionaries were filled
    from .descriptor import form_ir_sample
    itg = [Node("IntegralData", integral_type="ridge", subdomain_id=(4,)), Node("IntegralData", integral_type="cell", subdomain_id=(3, "otherwise")),
           Node("IntegralData", integral_type="vertex", subdomain_id=(2, 9)), Node("IntegralData", integral_type="exterior_facet", subdomain_id=(7,)),
           Node("IntegralData", integral_type="interior_facet", subdomain_id=("otherwise",))]
    inames = {(5, i): f"integral_{'rcvei'[i]}" for i in range(5)}
    idoms = {"integral_r": [dom("point")], "integral_c": [dom("tetrahedron")], "integral_v": [dom("point")], "integral_e": [dom("triangle")], "integral_i": [dom("triangle")]}
    try:
        it0, args0, _n = form_ir_sample(repo, 2, "full", itg=itg, names=inames, domains=idoms)
        ir0 = it0.call_f(repo.mod("ffcx.ir.representation").func("_compute_form_ir"), args0)
        if isinstance(ir0, Node) and all(isinstance(ir0.f.get(k_), dict) and set(ir0.f[k_]) == set(types) for k_ in ("subdomain_ids", "integral_names", "integral_domains")):
            samples["the IR computed by _compute_form_ir for a form with integrals of all five types"] = ir0
        else:
            res.notes.append("GEN-FORM: the interpreted _compute_form_ir result is not a FormIR with per-type dictionaries over the five integral types; composed sample skipped")
    except (Raised, AnalysisError) as e:
        res.notes.append(f"GEN-FORM: composed sample skipped ({getattr(e, 'what', e)}); FORM-IR-SOURCES decides _compute_form_ir")

    def np_unique(a, return_index=False):
        vals = sorted(set(a))
        if return_index:
            return vals, [list(a).index(v) for v in vals]
        return vals

    results = {}
    for be in ("C", "numba"):
        fm = f"ffcx.codegeneration.{be}.form"
        it = Interp(repo, load_classes(repo), primary=fm)
        it.overrides["logger"] = Node("Logger", info=_PyCall(lambda *a: None), debug=_PyCall(lambda *a: None))
        it.overrides["template_keys"] = _PyCall(lambda t: set(f for _, f, _, _ in string.Formatter().parse(t) if f))
        it.overrides["np.argsort"] = _PyCall(argsort)
        it.overrides["np.lexsort"] = _PyCall(lambda keys: sorted(range(len(keys[-1])), key=lambda i: tuple(k[i] for k in reversed(keys))))
        it.overrides["np.unique"] = _PyCall(np_unique)
        g = repo.mod(fm).func("generator")
        res.functions.update({g.key, repo.mod("ffcx.codegeneration.common").func("integral_data").key})
        for label, ir in samples.items():
            key = f"{g.key}:{label}"
            res.ob(key)
            try:
                out = it.call_f(g, [copy.deepcopy(ir), {}])
            except Raised as e:
                res.fail(key, f"{be} form generator raises ({e.what}) on `{label}`", repo.mod(fm).line(g.node), props=("C06", "C18") if be == "C" else ("C06", "C18", "C20"))
                continue
            text = out[-1] if isinstance(out, tuple) else out
            if not isinstance(text, str):
                raise AnalysisError(f"{be} form generator did not return text")

            def arr(name):
                if be == "C":
                    mm = re.search(rf"\b{name}_{ir.f['name']}\[(\d+)\] = \{{([^}}]*)\}}", text)
                    if not mm:
                        return None, None
                    return int(mm.group(1)), [x.strip() for x in mm.group(2).split(",") if x.strip()]
                mm = re.search(rf"\b{name}_{ir.f['name']} = \[([^\]]*)\]", text)
                if not mm:
                    return None, None
                items = [x.strip() for x in mm.group(1).split(",") if x.strip()]
                return len(items), items

            # specification
            exp_off, exp_names, exp_ids = [0], [], []
            for t in types:
                ids = ir.f["subdomain_ids"][t]
                order = sorted(range(len(ids)), key=lambda i: ids[i])
                n = 0
                for i in order:
                    for d_ in ir.f["integral_domains"][t][i]:
                        exp_names.append(f"{ir.f['integral_names'][t][i]}_{d_.f['name']}")
                        exp_ids.append(ids[i])
                        n += 1
                exp_off.append(exp_off[-1] + n)
            props = ("C06", "C18") if be == "C" else ("C06", "C18", "C20")
            loc = repo.mod(fm).line(g.node)
            n_off, offs = arr("form_integral_offsets")
            if offs is None or [int(x) for x in offs] != exp_off or n_off != len(exp_off):
                res.fail(key, f"{be} `{label}`: form_integral_offsets = {offs} (declared {n_off}), expected {exp_off}", loc, props=props)
            n_k, kern = arr("form_integrals")
            n_i, idl = arr("form_integral_ids")
            if exp_names:
                got_names = [x.lstrip("&") for x in (kern or [])]
                got_ids = [int(x) for x in (idl or [])]
                bad = None
                if n_k != len(exp_names) or len(got_names) != len(exp_names):
                    bad = f"form_integrals has {len(got_names)} entries (declared {n_k}), expected {len(exp_names)}: {got_names}"
                elif n_i != len(exp_ids) or len(got_ids) != len(exp_ids):
                    bad = f"form_integral_ids = {got_ids} (declared {n_i}) has not one entry per kernel ({len(exp_ids)}: {exp_ids})"
                else:
                    for ti in range(len(types)):
                        lo, hi = exp_off[ti], exp_off[ti + 1]
                        gp, ep = list(zip(got_ids[lo:hi], got_names[lo:hi])), list(zip(exp_ids[lo:hi], exp_names[lo:hi]))
                        if sorted(gp) != sorted(ep):
                            bad = f"{types[ti]} kernels are {gp}, expected the (id, kernel) pairs {ep}"
                            break
                        if [g_[0] for g_ in gp] != sorted(g_[0] for g_ in gp):
                            bad = f"{types[ti]} ids {[g_[0] for g_ in gp]} are not ascending"
                            break
                if bad:
                    res.fail(key, f"{be} `{label}`: {bad} - kernel k must sit next to its own id, grouped by type, ascending", loc, props=props)
            # pass-through arrays
            n_p, pos = arr("original_coefficient_position")
            if ir.f["original_coefficient_positions"] and (pos is None or [int(x) for x in pos] != ir.f["original_coefficient_positions"]):
                res.fail(key, f"{be} `{label}`: original_coefficient_positions = {pos}, IR has {ir.f['original_coefficient_positions']}", loc, props=props)
            n_c, cn = arr("coefficient_names")
            if ir.f["coefficient_names"] and (cn is None or [x.strip('"') for x in cn] != ir.f["coefficient_names"]):
                res.fail(key, f"{be} `{label}`: coefficient names = {cn}", loc, props=props)
            n_r, cr = arr("constant_ranks")
            if ir.f["constant_ranks"] and (cr is None or [int(x) for x in cr] != ir.f["constant_ranks"]):
                res.fail(key, f"{be} `{label}`: constant ranks = {cr}, IR has {ir.f['constant_ranks']}", loc, props=props)
            # constant shapes: every shape array the pointer table names is declared, with the shape of that constant
            tbl = re.search(rf"constant_shapes_{ir.f['name']}(?:\[\d+\])? = [\{{\[]([^;]*?)[\}}\]];?\s*$", text, re.M | re.S) if ir.f["num_constants"] else None
            if ir.f["num_constants"]:
                entries = [x.strip() for x in (tbl.group(1) if tbl else "").replace("\n", " ").split(",") if x.strip()]
                if len(entries) != ir.f["num_constants"]:
                    res.fail(key, f"{be} `{label}`: constant_shapes has {len(entries)} entries for {ir.f['num_constants']} constants ({entries})", loc, props=props + ("C19",))
                for ci, (ent, shp) in enumerate(zip(entries, ir.f["constant_shapes"])):
                    if len(shp) == 0:
                        if ent not in ("NULL", "None"):
                            res.fail(key, f"{be} `{label}`: scalar constant {ci} has shape entry `{ent}`", loc, props=props)
                        continue
                    n_s, sv = arr(f"constant_shapes") if False else (None, None)
                    if be == "C":
                        dm = re.search(rf"\b{re.escape(ent)}\[(\d+)\] = \{{([^}}]*)\}}", text)
                    else:
                        dm = re.search(rf"\b{re.escape(ent)} = \[([^\]]*)\]", text)
                    if not dm:
                        res.fail(key, f"{be} `{label}`: constant {ci} (shape {shp}) points to `{ent}`, which is never declared: the generated source references an "
                                 "undeclared identifier when a scalar constant precedes a tensor constant", loc, props=props + ("C19",))
                        continue
                    vals_ = [int(x) for x in dm.group(dm.lastindex).split(",") if x.strip()]
                    if vals_ != list(shp):
                        res.fail(key, f"{be} `{label}`: `{ent}` holds {vals_}, the shape of constant {ci} is {list(shp)}", loc, props=props)
            n_h, hs = arr("finite_element_hashes")
            if ir.f["finite_element_hashes"]:
                want_h = [0 if h is None else h for h in ir.f["finite_element_hashes"]]
                got_h = [int(re.sub(r"UINT64_C\((\d+)\)", r"\1", x)) for x in (hs or [])]
                if got_h != want_h:
                    res.fail(key, f"{be} `{label}`: finite_element_hashes = {hs}, expected {want_h}", loc, props=props)
            for fld, val in (("rank", ir.f["rank"]), ("num_coefficients", ir.f["num_coefficients"]), ("num_constants", ir.f["num_constants"])):
                pat = rf"\.{fld} = {val}\b" if be == "C" else rf"\b{fld} = {val}\b"
                if not re.search(pat, text):
                    res.fail(key, f"{be} `{label}`: descriptor field {fld} is not {val}", loc, props=props)
            results[(be, label)] = (offs, sorted(zip([int(x) for x in (idl or [])], [x.lstrip("&") for x in (kern or [])])) if idl and kern and len(idl) == len(kern) else (idl, kern), pos)
    for label in samples:
        key = f"form-generators:agree:{label}"
        res.ob(key)
        a, b = results.get(("C", label)), results.get(("numba", label))
        if a is not None and b is not None and a != b:
            res.fail(key, f"`{label}`: C emits (offsets, kernels, ids, positions) = {a}, numba emits {b}", "ffcx/codegeneration/numba/form.py", props=("C06", "C18", "C20"))


# ---- GEN-PARTITION -------------------------------------------------------------------------------------------


@rule(
    "GEN-PARTITION",
    ["C11", "C01", "C19"],
    "IntegralGenerator.init_scopes / set_var / get_var / generate_partition interpreted on a sample factorisation "
    "graph with two quadrature rules: a value is found in the scope of the rule it was generated for and in no other "
    "rule's scope; the shared piecewise scope is a fallback for operands only and the own scope wins; a node cached in "
    "the piecewise scope (by another rule) does not suppress the varying definition of this rule, whose operands are the "
    "accesses of this rule",
    min_instances=8,
)
def gen_partition(repo, res):
    m = repo.mod(IG)
    fn = {n: m.func(f"IntegralGenerator.{n}") for n in ("init_scopes", "set_var", "get_var", "generate_partition")}
    res.functions.update(f.key for f in fn.values())
    loc = m.line(fn["generate_partition"].node)

    def world():
        I = Interp(repo, load_classes(repo), primary=IG)
        I.obj_classes = {"IntegralGenerator": IG}
        r1 = Node("QuadratureRule", id=_PyCall(lambda: "r1"))
        r2 = Node("QuadratureRule", id=_PyCall(lambda: "r2"))
        integrand = {("triangle", r1): {}, ("triangle", r2): {}}
        log = []

        def access_get(mt, tabledata, rule):
            log.append(("access", mt.f["name"], rule.f["id"].fn() if isinstance(rule, Node) else None))
            return Node("Acc", of=mt.f["name"], rule=rule.f["id"].fn() if isinstance(rule, Node) else None)

        def defs_get(mt, tabledata, rule, acc):
            # a Section built by the repository's own constructor, so that its own __eq__ decides when two definitions are the same
            return I.construct("Section", [f"def_{mt.f['name']}_{acc.f['rule']}", [], [], [], []], {})

        backend = Node("FFCXBackend", access=Node("Access", get=_PyCall(access_get)), definitions=Node("Defs", get=_PyCall(defs_get)))
        gen = Node("IntegralGenerator", ir=Node("IntegralIR", expression=Node("ExpressionIR", integrand=integrand)), backend=backend, _ufl_names=set())
        I.overrides["optimize"] = _PyCall(lambda code, rule=None: code)
        I.overrides["extract_dtype"] = _PyCall(lambda v, vops: "DataType.SCALAR")

        def to_lnodes(v, *ops):
            e = I.construct("Symbol", [f"op_{v.f['name']}", "DataType.SCALAR"], {})
            e.f["of"] = v.f["name"]
            e.f["args"] = list(ops)
            return e
        I.overrides["L.ufl_to_lnodes"] = _PyCall(to_lnodes)
        return I, gen, r1, r2, log

    def uexpr(name, ops=(), literal=False):
        return Node("UflExpr", name=name, _ufl_is_literal_=literal, ufl_operands=list(ops), _ufl_handler_name_=name)

    f_ = uexpr("f")
    c_ = uexpr("c")
    sinf = uexpr("sin_f", [f_])
    cf = uexpr("c_times_f", [c_, f_])
    F = Node("ExpressionGraph", nodes={
        0: {"status": "varying", "expression": f_, "mt": Node("ModifiedTerminal", name="f"), "tr": Node("Table", name="FE_f")},
        1: {"status": "varying", "expression": sinf},
        2: {"status": "piecewise", "expression": c_, "mt": Node("ModifiedTerminal", name="c"), "tr": None},
        3: {"status": "varying", "expression": cf},
    })

    def run(I, what, f, *args):
        try:
            return I.call_f(f, list(args))
        except Raised as e:
            raise _Fail(f"{what} raises ({e.what})")

    class _Fail(Exception):
        pass

    def scenario(key, body):
        res.ob(key)
        try:
            msg = body()
        except _Fail as e:
            msg = str(e)
        if msg:
            res.fail(key, msg, loc)

    def init():
        I, gen, r1, r2, log = world()
        run(I, "init_scopes", fn["init_scopes"], gen)
        return I, gen, r1, r2, log

    base = f"{m.name}:IntegralGenerator"

    def s_init():
        I, gen, r1, r2, log = init()
        sc = gen.f.get("scopes")
        if not isinstance(sc, dict):
            return "init_scopes does not create the scope map"
        want = {("triangle", r1), ("triangle", r2), (None, None)}
        if set(sc.keys()) != want or len({id(v) for v in sc.values()}) != 3 or any(len(v) for v in sc.values()):
            return f"scopes are created for {sorted(str(k) for k in sc)}; one empty scope per (cell, rule) key of the integrand map plus the piecewise scope (None, None) is required"
    scenario(f"{base}.init_scopes:one-scope-per-rule", s_init)

    def s_store():
        I, gen, r1, r2, log = init()
        a = Node("Acc", of="f", rule="r1")
        run(I, "set_var", fn["set_var"], gen, r1, "triangle", f_, a)
        if run(I, "get_var", fn["get_var"], gen, r1, "triangle", f_) is not a:
            return "a value stored with set_var(rule, cell, v, access) is not returned by get_var(rule, cell, v)"
        got = run(I, "get_var", fn["get_var"], gen, r2, "triangle", f_)
        if got is not None:
            return f"a value stored for rule r1 is returned by get_var for rule r2 ({got!r}): values at r1's points would be used in r2's loop"
    scenario(f"{base}.set_var:key", s_store)

    def s_fallback():
        I, gen, r1, r2, log = init()
        pw, own = Node("Acc", of="c", rule=None), Node("Acc", of="c", rule="r2")
        run(I, "set_var", fn["set_var"], gen, None, None, c_, pw)
        if run(I, "get_var", fn["get_var"], gen, r2, "triangle", c_) is not pw:
            return "get_var does not fall back to the piecewise scope (None, None): piecewise operands are not found by the varying partition"
        run(I, "set_var", fn["set_var"], gen, r2, "triangle", c_, own)
        if run(I, "get_var", fn["get_var"], gen, r2, "triangle", c_) is not own:
            return "get_var prefers the shared piecewise scope over the scope of its own (cell, rule)"
        if run(I, "get_var", fn["get_var"], gen, r1, "triangle", c_) is not pw:
            return "a value stored for (cell, r2) changed what rule r1 sees"
    scenario(f"{base}.get_var:own-scope-first", s_fallback)

    def s_literal():
        I, gen, r1, r2, log = init()
        lit = uexpr("two", literal=True)
        got = run(I, "get_var", fn["get_var"], gen, r1, "triangle", lit)
        if not (isinstance(got, Node) and got.f.get("of") == "two"):
            return f"get_var of a literal returns {got!r} instead of translating the literal"
    scenario(f"{base}.get_var:literal", s_literal)

    sym = lambda I, n: I.construct("Symbol", [n, "DataType.SCALAR"], {})  # noqa: E731

    def gen_part(I, gen, mode, rule, cell, name):
        out = run(I, "generate_partition", fn["generate_partition"], gen, sym(I, name), F, mode, rule, cell)
        if not (isinstance(out, tuple) and len(out) == 2):
            raise AnalysisError("generate_partition did not return (definitions, intermediates)")
        return out

    def acc(x, rule, of=None):
        return isinstance(x, Node) and x.cls == "Acc" and x.f.get("rule") == rule and (of is None or x.f.get("of") == of)

    def decl_of(intermediates, of):
        for d in intermediates:
            if isinstance(d, Node) and d.cls == "VariableDecl" and isinstance(d.f.get("value"), Node) and d.f["value"].f.get("of") == of:
                return d
        return None

    def s_varying():
        I, gen, r1, r2, log = init()
        gen_part(I, gen, "piecewise", None, None, "sp_r1")
        defs, inter = gen_part(I, gen, "varying", r1, "triangle", "sv_r1")
        if [d.f["name"] for d in defs] != ["def_f_r1"]:
            return f"the varying partition of rule r1 emits definitions {[d.f['name'] for d in defs]}, expected the definition of f at r1's points"
        d1 = decl_of(inter, "sin_f")
        d3 = decl_of(inter, "c_times_f")
        if d1 is None or d3 is None:
            return "the varying partition does not declare an intermediate for every varying operator node"
        a = d1.f["value"].f["args"]
        if not (len(a) == 1 and acc(a[0], "r1")):
            return f"sin(f) of rule r1 is computed from {a!r}, not from f at r1's points"
        b = d3.f["value"].f["args"]
        if not (len(b) == 2 and acc(b[0], None, "c") and acc(b[1], "r1")):
            return f"c*f of rule r1 is computed from {b!r}: the piecewise operand c must come from the piecewise scope, f from r1's scope"
        if run(I, "get_var", fn["get_var"], gen, r1, "triangle", sinf) is not d1.f["symbol"]:
            return "the generated intermediate is not stored under the key (cell, rule) of the partition being generated"
    scenario(f"{base}.generate_partition:store-key", s_varying)

    def s_two_rules():
        I, gen, r1, r2, log = init()
        gen_part(I, gen, "piecewise", None, None, "sp_r1")
        gen_part(I, gen, "varying", r1, "triangle", "sv_r1")
        gen_part(I, gen, "piecewise", None, None, "sp_r2")
        defs, inter = gen_part(I, gen, "varying", r2, "triangle", "sv_r2")
        if [d.f["name"] for d in defs] != ["def_f_r2"]:
            return f"after rule r1 was generated, the varying partition of rule r2 emits definitions {[d.f['name'] for d in defs]}: f must be defined again at r2's points"
        d1 = decl_of(inter, "sin_f")
        if d1 is None:
            return "after rule r1 was generated, rule r2 does not compute sin(f) again (it would reuse r1's value)"
        a = d1.f["value"].f["args"]
        if not (len(a) == 1 and acc(a[0], "r2")):
            return f"sin(f) of rule r2 is computed from {a!r}, not from f at r2's points"
    scenario(f"{base}.generate_partition:operand-lookup", s_two_rules)

    def s_stale():
        I, gen, r1, r2, log = init()
        # another rule's piecewise partition (e.g. a one-point rule, for which everything is piecewise) cached f and sin(f)
        run(I, "set_var", fn["set_var"], gen, None, None, f_, Node("Acc", of="f", rule="STALE"))
        run(I, "set_var", fn["set_var"], gen, None, None, sinf, Node("Acc", of="sin_f", rule="STALE"))
        defs, inter = gen_part(I, gen, "varying", r2, "triangle", "sv_r2")
        d1 = decl_of(inter, "sin_f")
        if [d.f["name"] for d in defs] != ["def_f_r2"] or d1 is None:
            return ("generate_partition decides `already generated` from the shared piecewise scope: a value cached by another rule's piecewise "
                    "partition (e.g. sin(f) at the single point of a degree-1 rule) suppresses this rule's varying definition - "
                    "sin(f)*v*dx(degree=1) + sin(f)*v*dx(degree=4) integrates the second term with f frozen at the first rule's point")
        a = d1.f["value"].f["args"]
        if not (len(a) == 1 and acc(a[0], "r2")):
            return f"sin(f) of rule r2 is computed from the stale piecewise value {a!r}"
    scenario(f"{base}.generate_partition:regeneration-guard", s_stale)

    def s_mode():
        I, gen, r1, r2, log = init()
        defs, inter = gen_part(I, gen, "piecewise", None, None, "sp_r1")
        if [d.f["name"] for d in defs] != ["def_c_None"] or inter:
            return f"the piecewise partition emits {[d.f['name'] for d in defs]} / {len(inter)} intermediates; only nodes whose status is `piecewise` belong to it"
        if run(I, "get_var", fn["get_var"], gen, r1, "triangle", c_) is None:
            return "values of the piecewise partition are not visible to the rules"
    scenario(f"{base}.generate_partition:mode-filter", s_mode)

    def s_same_definition():
        # the spatial coordinate of a mesh and of a sub-mesh of codimension 0 are two UFL terminals that are the same quantity in the kernel: the backend hands
        # out the same symbol and an equal definition for both - it may be emitted once only (a second `const double x_c0 = ...` is a redefinition)
        nonlocal F
        xa, xb = uexpr("x_of_mesh"), uexpr("x_of_submesh")
        keep = F
        F = Node("ExpressionGraph", nodes={
            0: {"status": "varying", "expression": xa, "mt": Node("ModifiedTerminal", name="x"), "tr": Node("Table", name="FE_x")},
            1: {"status": "varying", "expression": xb, "mt": Node("ModifiedTerminal", name="x"), "tr": Node("Table", name="FE_x")},
            2: {"status": "varying", "expression": uexpr("x_times_x", [xa, xb])},
        })
        try:
            I, gen, r1, r2, log = init()
            defs, inter = gen_part(I, gen, "varying", r1, "triangle", "sv_r1")
        finally:
            F = keep
        names = [d.f["name"] for d in defs]
        if names != ["def_x_r1"]:
            return (f"two modified terminals that the backend gives the same symbol and an equal definition (x of a mesh and of its codimension-0 sub-mesh) lead to the "
                    f"definitions {names}: the same variable is declared {len(names)} times in one scope - the C compiler rejects the kernel (redefinition)")
    scenario(f"{base}.generate_partition:equal-definitions-once", s_same_definition)
