"""Small IR helper functions interpreted from source on sample inputs.

MT-ELEMENT    get_modified_terminal_element: element, component and derivative counts of the table behind a
              modified terminal (form argument, x, J incl. derivatives of J)
QUAD-FAMILY   element_interface.create_quadrature: the polyset family handed to basix is the superset over
              ALL argument elements; cell, degree and scheme are passed through
"""

from __future__ import annotations

from ..absint import Interp, Node, PyNative, Raised, _PyCall
from ..lnodes_model import load_classes
import ast

from ..model import AnalysisError, call_name
from ..registry import rule

ET = "ffcx.ir.elementtables"


@rule(
    "MT-ELEMENT",
    ["C01", "C02", "C04"],
    "get_modified_terminal_element, interpreted on sample modified terminals: for a form argument the table is that of its own "
    "element, flat component and local derivatives; for x the coordinate element and x-component; for J[i,d] (and reference "
    "gradients of J) the coordinate element, component i and derivative counts of (d,) + local derivatives - dropping one of "
    "them tabulates J where dJ/dX is meant (div of Piola-mapped functions on non-affine cells)",
    min_instances=7,
)
def mt_element(repo, res):
    m = repo.mod(ET)
    f = m.func("get_modified_terminal_element")
    res.functions.add(f.key)
    coord = Node("CoordinateElement", name="xelem")
    felem = Node("Element", name="felem")

    def mesh(tdim):
        return Node("Mesh", topological_dimension=tdim, ufl_coordinate_element=_PyCall(lambda: coord))

    def run(kind, tdim, **mtf):
        it = Interp(repo, load_classes(repo), primary=ET)
        it.overrides["ufl.domain.extract_unique_domain"] = _PyCall(lambda t, _m=mesh(tdim): _m)
        term = Node(kind, ufl_function_space=_PyCall(lambda: Node("FunctionSpace", ufl_element=_PyCall(lambda: felem))))
        fields = dict(terminal=term, global_derivatives=(), local_derivatives=(), reference_value=False, averaged=None, component=(), flat_component=0,
                      restriction=None)
        fields.update(mtf)
        return it.call_f(f, [Node("ModifiedTerminal", **fields)])

    def counts(seq, tdim):
        n = 1 if tdim == 0 else tdim
        return tuple(sum(1 for x in seq if x == i) for i in range(n))

    cases = [
        ("argument value", "FormArgument", 2, dict(reference_value=True, flat_component=1, component=(1,)), felem, (), 1),
        ("argument second derivative", "FormArgument", 3, dict(reference_value=True, local_derivatives=(2, 0)), felem, (2, 0), 0),
        ("x component", "SpatialCoordinate", 2, dict(component=(1,), flat_component=1), coord, (), 1),
        ("x derivative (Jacobian through x)", "SpatialCoordinate", 2, dict(component=(0,), flat_component=0, local_derivatives=(1,)), coord, (1,), 0),
        ("J[1,0]", "Jacobian", 2, dict(component=(1, 0), flat_component=2), coord, (0,), 1),
        ("dJ[0,1]/dX_0 (derivative of the Jacobian)", "Jacobian", 2, dict(component=(0, 1), flat_component=1, local_derivatives=(0,)), coord, (1, 0), 0),
        ("d2J[2,1]/dX_2 dX_2", "Jacobian", 3, dict(component=(2, 1), flat_component=7, local_derivatives=(2, 2)), coord, (1, 2, 2), 2),
        ("vertex mesh argument", "FormArgument", 0, dict(reference_value=True), felem, (), 0),
    ]
    for label, kind, tdim, mtf, want_el, dseq, want_fc in cases:
        key = f"{f.key}:{label}"
        res.ob(key)
        try:
            out = run(kind, tdim, **mtf)
        except Raised as e:
            res.fail(key, f"get_modified_terminal_element raises ({e.what}) for {label}", m.line(f.node))
            continue
        if not isinstance(out, Node) or "__fields__" not in out.f:
            res.fail(key, f"{label}: result is {out!r}, not a ModifiedTerminalElement", m.line(f.node))
            continue
        vals = [out.f[k] for k in out.f["__fields__"]]
        want = [want_el, None, counts(dseq, tdim), want_fc]
        if vals[0] is not want[0] or vals[1] != want[1] or tuple(vals[2]) != want[2] or vals[3] != want[3]:
            res.fail(key, f"{label}: table reference is (element={getattr(vals[0], 'f', {}).get('name')}, averaged={vals[1]}, derivative counts={tuple(vals[2])}, "
                     f"component={vals[3]}), expected (element={want_el.f['name']}, None, {want[2]}, {want_fc})", m.line(f.node))
    # a terminal without table
    key = f"{f.key}:no-table-for-other-terminals"
    res.ob(key)
    try:
        if run("FacetNormal", 2) is not None:
            res.fail(key, "a terminal that is neither argument, x nor J gets a table element", m.line(f.node))
    except Raised as e:
        res.fail(key, f"raises ({e.what}) for a terminal without table", m.line(f.node))


def _bind_by_name(f, **values):
    """keyword arguments for `f` by parameter name (the order of the parameters is the function's own business)"""
    missing = [k for k in values if k not in f.params]
    if missing:
        raise AnalysisError(f"{f.key}: no parameter named {missing}")
    return dict(values)


@rule(
    "QUAD-FAMILY",
    ["C11", "C01"],
    "element_interface.create_quadrature, interpreted with basix.polyset_superset modelled as the join of "
    "standard < macroedge: whatever the order of the argument elements, the polyset family given to basix.make_quadrature is "
    "the join over all of them, and cell type, degree and scheme are the ones requested; the vertex rule is one point of weight 1",
    min_instances=7,
)
def quad_family(repo, res):
    m = repo.mod("ffcx.element_interface")
    f = m.func("create_quadrature")
    res.functions.add(f.key)
    order = {"PolysetType.standard": 0, "PolysetType.macroedge": 1}
    calls = []

    def mk():
        it = Interp(repo, load_classes(repo), primary="ffcx.element_interface")
        it.overrides["basix.PolysetType.standard"] = "PolysetType.standard"
        it.overrides["basix.polyset_superset"] = _PyCall(lambda ct, a, b: a if order[a] >= order[b] else b)
        it.overrides["basix.quadrature.string_to_type"] = _PyCall(lambda r: f"QuadratureType.{r}")
        it.overrides["_CellType"] = {"triangle": "CellType.triangle", "interval": "CellType.interval", "hexahedron": "CellType.hexahedron"}

        def make_quadrature(ct, degree, rule=None, polyset_type=None):
            calls.append((ct, degree, rule, polyset_type))
            return (f"pts[{ct},{degree},{rule},{polyset_type}]", "wts")

        it.overrides["basix.make_quadrature"] = _PyCall(make_quadrature)
        return it

    S, M = Node("Element", polyset_type="PolysetType.standard"), Node("Element", polyset_type="PolysetType.macroedge")
    cases = [("no argument elements", [], "PolysetType.standard"), ("standard only", [S, S], "PolysetType.standard"), ("macro test, standard trial", [M, S], "PolysetType.macroedge"),
             ("standard test, macro trial", [S, M], "PolysetType.macroedge"), ("macro, macro", [M, M], "PolysetType.macroedge"), ("three elements, macro first", [M, S, S], "PolysetType.macroedge")]
    for label, els, want in cases:
        key = f"{f.key}:{label}"
        res.ob(key)
        calls.clear()
        try:
            mk().call_f(f, [], _bind_by_name(f, cellname="triangle", degree=3, rule="GLL", elements=els))
        except Raised as e:
            res.fail(key, f"create_quadrature raises ({e.what}) for {label}", m.line(f.node))
            continue
        if len(calls) != 1:
            res.fail(key, f"{label}: basix.make_quadrature is called {len(calls)} times", m.line(f.node))
            continue
        ct, deg, rl, ps = calls[0]
        if ps != want:
            res.fail(key, f"{label}: the rule is requested for polyset family {ps}, expected {want}: with a P1-iso-P2 test function and a P2 trial function the "
                     "plain Gauss-Jacobi rule would replace the composite macro rule", m.line(f.node))
        if (ct, deg, rl) != ("CellType.triangle", 3, "QuadratureType.GLL"):
            res.fail(key, f"{label}: basix is asked for (cell, degree, scheme) = {(ct, deg, rl)}, requested (triangle, 3, GLL)", m.line(f.node))
    # history: the rule returned for a request depends on that request only (no memo keyed without the scheme / family)
    key = f"{f.key}:history-independent"
    res.ob(key)
    it = mk()
    seq = [("triangle", 2, "GLL", [S]), ("triangle", 2, "default", [S]), ("triangle", 2, "default", [M]), ("interval", 2, "default", [S]), ("triangle", 3, "default", [S])]
    try:
        outs = [it.call_f(f, [], _bind_by_name(f, cellname=c_, degree=d_, rule=r_, elements=e_)) for c_, d_, r_, e_ in seq]
    except Raised as e:
        res.fail(key, f"create_quadrature raises ({e.what}) in a sequence of requests", m.line(f.node))
        outs = None
    if outs is not None:
        for (c_, d_, r_, e_), o in zip(seq, outs):
            fam = "PolysetType.macroedge" if M in e_ else "PolysetType.standard"
            want = f"pts[CellType.{c_},{d_},QuadratureType.{r_},{fam}]"
            got = o[0] if isinstance(o, tuple) else o
            if got != want:
                res.fail(key, f"after earlier requests, create_quadrature({c_}, {d_}, {r_}, ...) returns the rule {got} instead of {want}: a memo that ignores part of "
                         "the request makes u*v*dx(degree=2) + u*v*dx(scheme='GLL', degree=2) use one rule twice, and results depend on what was compiled before",
                         m.line(f.node))
                break


@rule(
    "DTYPE-MERGE",
    ["C09"],
    "integral_generator.extract_dtype, interpreted on all combinations of operand types: an intermediate variable is declared "
    "with the join (BOOL < INT < REAL < SCALAR) of its value operands - both branches of a conditional, all operands of an "
    "arithmetic operator; REAL where that join is INT - except Condition (BOOL) and Real/Imag (REAL). A narrower declaration (`double sv = cond ? 1.0 : c[0]`) "
    "silently drops the imaginary part in complex kernels",
    min_instances=40,
)
def dtype_merge(repo, res):
    import itertools

    IG = "ffcx.codegeneration.integral_generator"
    m = repo.mod(IG)
    f = m.func("extract_dtype")
    res.functions.add(f.key)
    order = ["DataType.BOOL", "DataType.INT", "DataType.REAL", "DataType.SCALAR"]
    it = Interp(repo, load_classes(repo), primary=IG)
    kinds = {"Sum": None, "Product": None, "MathFunction": None, "Condition": "DataType.BOOL", "Real": "DataType.REAL", "Imag": "DataType.REAL", "Conditional": "branches"}

    def is_a(x, names):
        return x.cls in names

    # isinstance against UFL classes: the sample node's class name decides (Condition covers LT/GT/..., modelled by name)
    for kind, special in kinds.items():
        n_ops = 3 if kind == "Conditional" else 2
        for dts in itertools.product(order[1:] if kind != "Conditional" else order, repeat=n_ops):
            if kind == "Conditional" and (dts[0] != "DataType.BOOL" or "DataType.BOOL" in dts[1:]):
                continue
            key = f"{f.key}:{kind}:{','.join(d.split('.')[1] for d in dts)}"
            res.ob(key)
            v = Node(kind)
            ops = [Node("Symbol", name=f"s{i}", dtype=d) for i, d in enumerate(dts)]
            try:
                got = it.call_f(f, [v, ops])
            except Raised as e:
                res.fail(key, f"extract_dtype raises ({e.what}) for {kind} with operand types {dts}", m.line(f.node))
                continue
            if special == "branches":
                want = max(dts[1:], key=order.index)
            elif special is not None:
                want = special
            else:
                want = max(dts, key=order.index)
            if want == "DataType.INT":
                want = "DataType.REAL"   # a value is never an `int` variable: C would divide it as an integer (see PARTITION-DTYPE / INT-DIVISION)
            if got != want:
                res.fail(key, f"a {kind} node with operand types {[d.split('.')[1] for d in dts]} is declared {str(got).split('.')[-1]}, expected {want.split('.')[1]}: "
                         + ("the narrower type drops the imaginary part / fraction of an operand" if (str(got) not in order or order.index(str(got)) < order.index(want))
                            else "the wider type is not what the operands deliver"), m.line(f.node))


@rule(
    "MATH-ARGTYPE",
    ["C09", "C19"],
    "the C formatter's MathFunction handler, interpreted on sample calls under a complex scalar type: the function name comes "
    "from the real table only when no argument is complex-valued; pow(real base, complex exponent), atan2 with a complex "
    "argument etc. must use the complex entry (a real `pow` would convert the exponent to double and drop its imaginary part)",
    min_instances=8,
)
def math_argtype(repo, res):
    FM = "ffcx.codegeneration.C.formatter"
    m = repo.mod(FM)
    cands = [f for f in m.funcs.values() if f.node.name == "_" and "MathFunction" in ast.unparse(f.node.args)]
    if len(cands) != 1:
        raise AnalysisError("C formatter: MathFunction handler not found")
    h = cands[0]
    res.functions.add(h.key)
    table = None
    for st in m.tree.body:
        if isinstance(st, ast.Assign) and any(isinstance(t, ast.Name) and t.id == "math_table" for t in st.targets):
            from ..model import const_value

            table = const_value(st.value)
    if table is None:
        raise AnalysisError("C formatter: math_table not found")
    S = lambda n, t: Node("Symbol", name=n, dtype=t)  # noqa: E731

    def mathfn(it_, fn_, args_):
        """the MathFunction node as the repository's own constructor builds it (its dtype is whatever __init__ computes)"""
        try:
            return it_.construct("MathFunction", [fn_, list(args_)], {})
        except Raised as e_:
            raise AnalysisError(f"MathFunction({fn_!r}, ...) cannot be constructed on the sample arguments: {e_.what}")
    R, C = "DataType.REAL", "DataType.SCALAR"
    cases = [("power", [R, R], "real"), ("power", [R, C], "complex"), ("power", [C, R], "complex"), ("power", [C, C], "complex"),
             ("sqrt", [R], "real"), ("sqrt", [C], "complex"), ("atan2", [R, R], "real"), ("exp", [C], "complex"), ("abs", [R], "real")]
    for fn, _d, _k in cases:
        if fn != "atan2" and fn not in table["complex128"]:
            raise AnalysisError(f"math_table has no complex entry for `{fn}` (anchor vanished)")
    for sname, rname in (("complex128", "float64"), ("complex64", "float32")):
        for fn, dts, want_kind in cases:
            key = f"{h.key}:{sname}:{fn}({','.join(d.split('.')[1] for d in dts)})"
            res.ob(key)
            it = Interp(repo, load_classes(repo), primary=FM)
            it.obj_classes = {"Formatter": FM}
            it.overrides["warnings.warn"] = _PyCall(lambda *a, **k: None)
            it.overrides["np.issubdtype"] = _PyCall(lambda t, k: (k.endswith("complexfloating") if isinstance(k, str) else False) and getattr(t, "f", {}).get("name", "").startswith("complex"))
            it.overrides["np.complexfloating"] = "np.complexfloating"
            fmt = Node("Formatter", scalar_type=Node("dtype", name=sname), real_type=Node("dtype", name=rname),
                       __call__=_PyCall(lambda a: a.f["name"] if isinstance(a, Node) and "name" in a.f else "x"))
            call = mathfn(it, fn, [S(f"a{i}", d) for i, d in enumerate(dts)])
            try:
                text = it.call_f(h, [fmt, call])
            except Raised as e:
                res.fail(key, f"MathFunction handler raises ({e.what}) for {fn} with argument types {dts}", m.line(h.node))
                continue
            got = str(text).split("(", 1)[0]
            want = table[sname if want_kind == "complex" else rname].get(fn, fn)
            if got != want:
                res.fail(key, f"{fn} with argument types {[d.split('.')[1] for d in dts]} in a {sname} kernel is emitted as `{text}`; the "
                         f"{'complex' if want_kind == 'complex' else 'real'} function `{want}` is required"
                         + (": the real function converts the complex argument to its real part" if want_kind == "complex" else ""), m.line(h.node))

    # whatever the tables say: a call with a complex-valued argument is either emitted with a function of the <complex.h> family of
    # that operation or rejected - never with a real-only function (erf, atan2, fmin/fmax, the POSIX Bessel functions jn/yn, whose
    # first argument is the integer order), which would be applied to the real part of the argument
    from .backend import C_FAMILIES

    INT = "DataType.INT"
    for sname, rname in (("complex128", "float64"), ("complex64", "float32")):
        for fn in sorted(set(table[rname]) | set(table[sname])):
            two = fn in ("power", "atan2", "atan_2", "min_value", "max_value", "bessel_y", "bessel_j")
            order_first = fn in ("bessel_y", "bessel_j")
            variants = ([[INT, C]] if order_first else [[R, C], [C, R], [C, C]]) if two else [[C]]
            for dts in variants:
                key = f"{h.key}:{sname}:{fn}({','.join(d.split('.')[1] for d in dts)}):complex-argument"
                res.ob(key)
                it = Interp(repo, load_classes(repo), primary=FM)
                it.obj_classes = {"Formatter": FM}
                it.overrides["warnings.warn"] = _PyCall(lambda *a, **k: None)
                it.overrides["np.issubdtype"] = _PyCall(lambda t, k: (k.endswith("complexfloating") if isinstance(k, str) else False) and getattr(t, "f", {}).get("name", "").startswith("complex"))
                it.overrides["np.complexfloating"] = "np.complexfloating"
                it.overrides["np.iscomplexobj"] = _PyCall(lambda t: getattr(t, "f", {}).get("name", "").startswith("complex"))
                fmt = Node("Formatter", scalar_type=Node("dtype", name=sname, kind="c"), real_type=Node("dtype", name=rname, kind="f"),
                           __call__=_PyCall(lambda a: a.f["name"] if isinstance(a, Node) and "name" in a.f else "x"))
                call = mathfn(it, fn, [S(f"a{i}", d) if d != INT else Node("LiteralInt", value=1, dtype=INT, name="1") for i, d in enumerate(dts)])
                try:
                    text = it.call_f(h, [fmt, call])
                except Raised:
                    continue  # rejected: fine
                got = str(text).split("(", 1)[0]
                allowed = C_FAMILIES.get(fn, {}).get(sname, set())
                if got not in allowed:
                    res.fail(key, f"{fn} with argument types {[d.split('.')[1] for d in dts]} in a {sname} kernel is emitted as `{text}`: `{got}` is a real function "
                             f"({'there is no complex version of it' if not allowed else 'the complex version is ' + '/'.join(sorted(allowed))}), C converts the complex "
                             "argument to its real part without a diagnostic - the call must use a complex function or be rejected", m.line(h.node), props=("C09", "C19"))
    # a real-valued argument in complex mode keeps the real function (Bessel functions of geometry, erf of a real coefficient expression)
    for sname, rname in (("complex128", "float64"), ("complex64", "float32")):
        for fn, dts in (("bessel_j", [INT, R]), ("bessel_y", [INT, R]), ("erf", [R]), ("atan2", [R, R])):
            if fn not in table[rname]:
                continue
            key = f"{h.key}:{sname}:{fn}({','.join(d.split('.')[1] for d in dts)}):real-argument-in-complex-mode"
            res.ob(key)
            it = Interp(repo, load_classes(repo), primary=FM)
            it.obj_classes = {"Formatter": FM}
            it.overrides["warnings.warn"] = _PyCall(lambda *a, **k: None)
            it.overrides["np.issubdtype"] = _PyCall(lambda t, k: (k.endswith("complexfloating") if isinstance(k, str) else False) and getattr(t, "f", {}).get("name", "").startswith("complex"))
            it.overrides["np.complexfloating"] = "np.complexfloating"
            it.overrides["np.iscomplexobj"] = _PyCall(lambda t: getattr(t, "f", {}).get("name", "").startswith("complex"))
            fmt = Node("Formatter", scalar_type=Node("dtype", name=sname, kind="c"), real_type=Node("dtype", name=rname, kind="f"),
                       __call__=_PyCall(lambda a: a.f["name"] if isinstance(a, Node) and "name" in a.f else "x"))
            call = mathfn(it, fn, [S(f"a{i}", d) if d != INT else Node("LiteralInt", value=1, dtype=INT, name="1") for i, d in enumerate(dts)])
            try:
                text = it.call_f(h, [fmt, call])
            except Raised as e:
                res.fail(key, f"{fn} of a real-valued argument is rejected in a {sname} kernel ({e.what}): real quantities (geometry, real()/imag()) keep their real functions",
                         m.line(h.node), props=("C09", "C19"))
                continue
            got = str(text).split("(", 1)[0]
            if got not in C_FAMILIES.get(fn, {}).get(rname, {got}):
                res.fail(key, f"{fn} of a real-valued argument in a {sname} kernel is emitted as `{text}`", m.line(h.node), props=("C09", "C19"))

    # functions without a complex version: a complex argument must be rejected, not silently reduced to its real part
    for sname, rname in (("complex128", "float64"), ("complex64", "float32")):
        for fn in sorted(k_ for k_ in table[rname] if k_ not in table[sname]):
            key = f"{h.key}:{sname}:{fn}(SCALAR):no-complex-version"
            res.ob(key)
            it = Interp(repo, load_classes(repo), primary=FM)
            it.obj_classes = {"Formatter": FM}
            it.overrides["warnings.warn"] = _PyCall(lambda *a, **k: None)
            it.overrides["np.issubdtype"] = _PyCall(lambda t, k: (k.endswith("complexfloating") if isinstance(k, str) else False) and getattr(t, "f", {}).get("name", "").startswith("complex"))
            it.overrides["np.complexfloating"] = "np.complexfloating"
            it.overrides["np.iscomplexobj"] = _PyCall(lambda t: getattr(t, "f", {}).get("name", "").startswith("complex"))
            fmt = Node("Formatter", scalar_type=Node("dtype", name=sname, kind="c"), real_type=Node("dtype", name=rname, kind="f"),
                       __call__=_PyCall(lambda a: a.f["name"] if isinstance(a, Node) and "name" in a.f else "x"))
            call = mathfn(it, fn, [S("a0", C)])
            try:
                text = it.call_f(h, [fmt, call])
            except Raised:
                continue
            res.fail(key, f"{fn} has no complex version (math_table[{sname}] has no entry) but a complex argument is accepted and emitted as `{text}`: the real "
                     "function is applied to the real part only - erf(f) with f = 0.3+2j integrates erf(0.3)", m.line(h.node), props=("C09", "C19"))


class _Arr(PyNative):
    """A minimal model of a numpy array: shape, size, flat, indexing, iteration and numpy's *printing* of sub-arrays
    (8 significant digits), which is what makes `f"{values[0]}"` of a multi-axis array lossy."""

    def __init__(self, data):
        self.data = data

    @property
    def shape(self):
        s, d = [], self.data
        while isinstance(d, list):
            s.append(len(d))
            d = d[0] if d else None
        return tuple(s)

    @property
    def size(self):
        n = 1
        for k in self.shape:
            n *= k
        return n

    @property
    def flat(self):
        out = []

        def rec(d):
            if isinstance(d, list):
                for x in d:
                    rec(x)
            else:
                out.append(d)

        rec(self.data)
        return out

    def __getitem__(self, i):
        v = self.data[i]
        return _Arr(v) if isinstance(v, list) else v

    def __iter__(self):
        return iter(_Arr(v) if isinstance(v, list) else v for v in self.data)

    def __len__(self):
        return len(self.data)

    dtype = "float64"

    def __str__(self):
        def rec(d):
            if isinstance(d, list):
                return "[" + " ".join(rec(x) for x in d) + "]"
            return f"{d:.8g}" if isinstance(d, float) else str(d)

        return rec(self.data)


@rule(
    "NUMBA-ARRAYDECL",
    ["C16", "C18"],
    "the numba formatter's ArrayDecl handler (with build_initializer_lists and _dtype_to_name), interpreted on sample "
    "declarations - REAL / SCALAR / INT / BOOL symbols; no values, one value with a larger extent, one value in a four-axis "
    "table, ordinary tables, nearly uniform tables - must emit text that parses as Python, names an existing NumPy dtype, and "
    "whose numeric literals read back to exactly the declared values (np.full only for a genuinely single value)",
    min_instances=9,
)
def numba_arraydecl(repo, res):
    FM = "ffcx.codegeneration.numba.formatter"
    m = repo.mod(FM)
    cands = [f for f in m.funcs.values() if f.node.name == "_" and "ArrayDecl" in ast.unparse(f.node.args)]
    if len(cands) != 1:
        raise AnalysisError("numba formatter: ArrayDecl handler not found")
    h = cands[0]
    res.functions.add(h.key)
    dn = m.func("Formatter._dtype_to_name")
    samples = [
        ("no values", "DataType.REAL", (3,), None),
        ("zero fill of a temporary", "DataType.SCALAR", (4,), [0]),
        ("single entry, four axes", "DataType.REAL", (1, 1, 1, 1), [[[[1 / 3]]]]),
        ("weights", "DataType.REAL", (3,), [0.16666666666666666, 0.16666666666666666, 0.6666666666666667]),
        ("nearly uniform weights", "DataType.REAL", (3,), [0.1666666, 0.1666667, 0.1666667]),
        ("tiny cut-cell weights", "DataType.REAL", (3,), [1e-9, 3e-9, 2e-9]),
        ("table, four axes", "DataType.REAL", (1, 1, 2, 2), [[[[0.1, 0.7000000000000001], [0.30000000000000004, 1e-17]]]]),
        ("integer table", "DataType.INT", (2, 2), [[1, 2], [3, 0]]),
        ("uniform table", "DataType.REAL", (2, 2), [[0.5, 0.5], [0.5, 0.5]]),
    ]
    valid_dtypes = {"float64", "float32", "complex128", "complex64", "int32", "int64", "bool_", "bool", "intc"}
    for label, dt, sizes, vals in samples:
        key = f"{h.key}:{label}"
        res.ob(key)
        it = Interp(repo, load_classes(repo), primary=FM)
        it.obj_classes["Formatter"] = FM
        it.overrides["np.int32"] = "<class 'numpy.int32'>"
        it.overrides["np.bool"] = "<class 'numpy.bool'>"
        it.overrides["np.bool_"] = "<class 'numpy.bool'>"
        it.overrides["np.allclose"] = _PyCall(lambda a, b, rtol=1e-05, atol=1e-08: all(abs(x - (b if not isinstance(b, _Arr) else 0)) <= atol + rtol * abs(b) for x in (a.flat if isinstance(a, _Arr) else [a])))
        it.overrides["np.all"] = _PyCall(lambda a: all(a.flat) if isinstance(a, _Arr) else bool(a))
        fmt = Node("Formatter", scalar_type="float64", real_type="float64", __call__=_PyCall(lambda a: a.f["name"]))
        decl = Node("ArrayDecl", symbol=Node("Symbol", name="t", dtype=dt), sizes=tuple(sizes), values=None if vals is None else _Arr(vals), const=False, dtype=dt)
        try:
            text = it.call_f(h, [fmt, decl])
        except Raised as e:
            res.fail(key, f"numba ArrayDecl handler raises ({e.what}) for `{label}`", m.line(h.node))
            continue
        try:
            tree = ast.parse(str(text))
        except SyntaxError:
            res.fail(key, f"`{label}`: the emitted declaration `{str(text).strip()[:90]}` is not valid Python", m.line(dn.node if "<class" in str(text) else h.node), props=("C18", "C16"))
            continue
        st = tree.body[0] if tree.body else None
        if not (isinstance(st, ast.Assign) and isinstance(st.value, ast.Call)):
            res.fail(key, f"`{label}`: `{str(text).strip()[:80]}` is not `name = np.<ctor>(...)`", m.line(h.node))
            continue
        call = st.value
        ctor = (call_name(call) or "")
        dkw = [k.value for k in call.keywords if k.arg == "dtype"]
        if not dkw or not (isinstance(dkw[0], ast.Attribute) and dkw[0].attr in valid_dtypes):
            res.fail(key, f"`{label}`: dtype `{ast.unparse(dkw[0]) if dkw else 'missing'}` is not a NumPy dtype name", m.line(dn.node), props=("C18",))
        want = None if vals is None else _Arr(vals).flat
        if vals is None:
            if ctor not in ("np.empty", "np.zeros"):
                res.fail(key, f"`{label}`: an array without values is declared by `{ctor}`", m.line(h.node))
            continue
        lits = []
        lit_ok = True
        if ctor == "np.full":
            try:
                fill = ast.literal_eval(call.args[1])
            except Exception:
                fill = None
                lit_ok = False
            if isinstance(fill, list) or fill is None:
                lit_ok = False
            lits = [fill] * len(want) if lit_ok else []
            shape_ok = ast.unparse(call.args[0]).replace(" ", "") in (str(tuple(sizes)).replace(" ", ""), str(list(sizes)).replace(" ", ""))
            if not lit_ok:
                res.fail(key, f"`{label}`: np.full is given the fill value `{ast.unparse(call.args[1])[:40]}`, not a scalar literal (a printed sub-array keeps 8 digits and "
                         "is rejected by numba)", m.line(h.node))
                continue
            if not shape_ok:
                res.fail(key, f"`{label}`: np.full extent `{ast.unparse(call.args[0])}` is not the declared {tuple(sizes)}", m.line(h.node))
            if len(set(want)) == 1 and len(want) <= 1 or len(set(want)) == 1:
                want = [want[0]] * len(lits)
        elif ctor == "np.array":
            try:
                nested = ast.literal_eval(call.args[0])
            except Exception:
                nested = None
            lits = _Arr(nested).flat if isinstance(nested, list) else []
        else:
            res.fail(key, f"`{label}`: unexpected constructor `{ctor}`", m.line(h.node))
            continue
        if len(lits) != len(want) or any(a != b for a, b in zip(lits, want)):
            bad = next(((a, b) for a, b in zip(lits, want) if a != b), (None, None))
            res.fail(key, f"`{label}`: the declaration `{str(text).strip()[:70]}` reads back as {lits[:4]}..., declared values {want[:4]}... "
                     f"(first difference {bad[0]!r} vs {bad[1]!r}): table entries are not reproduced exactly", m.line(h.node))


@rule(
    "RECON-LAWS",
    ["C01", "C04"],
    "the scalar-graph reconstruction handlers (ir/analysis/reconstruct.py) are interpreted on symbolic component lists: "
    "for operands given as their scalar components in row-major order over (value shape, free-index dimensions), the list "
    "returned for a Sum / Division / Conditional / elementwise unary / Product with free indices / IndexSum must be, "
    "component by component, the operation applied to the matching operand components (the summed index removed, the others "
    "kept in order); UFL's index-flattening helpers are modelled as row-major flattening",
    min_instances=10,
)
def recon_laws(repo, res):
    import itertools

    from ..absint import Rat

    RM = "ffcx.ir.analysis.reconstruct"
    m = repo.mod(RM)

    def strides(shape):
        out, acc = [], 1
        for n_ in reversed(shape):
            out.append(acc)
            acc *= n_
        return tuple(reversed(out))

    def flat(idx, shape):
        return sum(i * s_ for i, s_ in zip(idx, strides(shape)))

    def mk():
        it = Interp(repo, load_classes(repo), primary=RM)
        it.overrides["ufl.permutation.compute_indices"] = _PyCall(lambda shape: [tuple(t) for t in itertools.product(*[range(n_) for n_ in shape])])
        it.overrides["ufl.utils.indexflattening.shape_to_strides"] = _PyCall(lambda shape: strides(tuple(shape)))
        it.overrides["ufl.utils.indexflattening.flatten_multiindex"] = _PyCall(lambda ii, st: sum(i * s_ for i, s_ in zip(ii, st)))
        it.overrides["ufl.product"] = _PyCall(lambda seq: __import__("math").prod(list(seq)))
        it.overrides["ufl.classes.Product"] = _PyCall(lambda a, b: a * b)
        return it

    def comps(name, n):
        return [Rat.var(f"{name}{k}") for k in range(n)]

    def node(kind, operands=(), shape=(), fi=(), fid=(), recon=None):
        return Node(kind, ufl_operands=tuple(operands), ufl_shape=tuple(shape), ufl_free_indices=tuple(fi), ufl_index_dimensions=tuple(fid),
                    _ufl_expr_reconstruct_=_PyCall(recon) if recon else None)

    def check(key, label, fn, o, ops, want):
        res.ob(key)
        f = m.func(fn)
        res.functions.add(f.key)
        try:
            got = mk().call_f(f, [o, ops])
        except Raised as e:
            res.fail(key, f"{fn} raises ({e.what}) on {label}", m.line(f.node))
            return
        if not isinstance(got, list) or len(got) != len(want):
            res.fail(key, f"{fn} on {label}: {len(got) if isinstance(got, list) else got} scalar components returned, expected {len(want)}", m.line(f.node))
            return
        for k, (g_, w_) in enumerate(zip(got, want)):
            g2 = g_ if isinstance(g_, Rat) else None
            if g2 is None or not (g2 == w_):
                res.fail(key, f"{fn} on {label}: component {k} is {_showr(g_)}, expected {_showr(w_)}", m.line(f.node))
                return

    # Sum / Division / Conditional / unary
    a, b = comps("a", 4), comps("b", 4)
    check("reconstruct:handle_sum", "two 2x2 operands", "handle_sum", node("Sum", recon=lambda x, y: x + y), [a, b], [x + y for x, y in zip(a, b)])
    s = comps("s", 1)
    check("reconstruct:handle_division", "2x2 operand by a scalar", "handle_division", node("Division", recon=lambda x, y: x / y), [a, s], [x / s[0] for x in a])
    check("reconstruct:handle_elementwise_unary", "conj of 4 components", "handle_elementwise_unary", node("Conj", recon=lambda x: x * Rat.var("CONJ")), [a],
          [x * Rat.var("CONJ") for x in a])
    c = comps("c", 1)
    check("reconstruct:handle_conditional", "scalar condition, 4-component branches", "handle_conditional",
          node("Conditional", recon=lambda cc, t, f_: cc * t + (Rat.const(1) - cc) * f_), [c, a, b], [c[0] * x + (Rat.const(1) - c[0]) * y for x, y in zip(a, b)])
    check("reconstruct:handle_scalar_nary", "power of two scalars", "handle_scalar_nary", node("Power", recon=lambda x, y: x * y * Rat.var("POW")), [comps("p", 1), comps("q", 1)],
          [Rat.var("p0") * Rat.var("q0") * Rat.var("POW")])
    # Product with free indices: o0 has free indices (i: 2, k: 3), o1 has (j: 2, k: 3) ; indices are ordered by count
    for label, fi0, fid0, fi1, fid1 in (
        ("A[i,k] * B[j,k] (free i, j, k)", (1, 3), (2, 3), (2, 3), (2, 3)),
        ("A[k] * B[i,k] (shared k, reordered)", (3,), (3,), (1, 3), (2, 3)),
        ("A[j] * B[i] (disjoint, second operand first in index order)", (2,), (3,), (1,), (2,)),
    ):
        fi = tuple(sorted(set(fi0) | set(fi1)))
        dims = {}
        dims.update(dict(zip(fi0, fid0)))
        dims.update(dict(zip(fi1, fid1)))
        fid = tuple(dims[i] for i in fi)
        o0 = node("Indexed", fi=fi0, fid=fid0)
        o1 = node("Indexed", fi=fi1, fid=fid1)
        n0, n1 = 1, 1
        for d_ in fid0:
            n0 *= d_
        for d_ in fid1:
            n1 *= d_
        A, B = comps("A", n0), comps("B", n1)
        want = []
        for ind in itertools.product(*[range(d_) for d_ in fid]):
            val = dict(zip(fi, ind))
            want.append(A[flat([val[i] for i in fi0], fid0)] * B[flat([val[i] for i in fi1], fid1)])
        check(f"reconstruct:handle_product:{label}", label, "handle_product", node("Product", operands=(o0, o1), fi=fi, fid=fid), [A, B], want)
    check("reconstruct:handle_product:scalar*tensor", "scalar times 4 components", "handle_product", node("Product"), [s, a], [s[0] * x for x in a])
    check("reconstruct:handle_product:tensor*scalar", "4 components times scalar", "handle_product", node("Product"), [a, s], [x * s[0] for x in a])
    # IndexSum: summand of value shape (2,) with free indices (i: 2, j: 3, k: 2), summing j / i / k
    for sum_pos, label in ((1, "middle index"), (0, "first index"), (2, "last index")):
        shape, fi, fid = (2,), (5, 7, 9), (2, 3, 2)
        total = 2 * 2 * 3 * 2
        ss = comps("t", total)
        summand = node("Summand", shape=shape, fi=fi, fid=fid)
        ic = fi[sum_pos]
        mi = [Node("Index", count=_PyCall(lambda _c=ic: _c))]
        o = node("IndexSum", operands=(summand, mi))
        full = shape + fid
        want = []
        rest_dims = [d_ for k_, d_ in enumerate(full) if k_ != 1 + sum_pos]
        for idx in itertools.product(*[range(d_) for d_ in rest_dims]):
            tot = Rat.const(0)
            for j in range(fid[sum_pos]):
                fullidx = list(idx)
                fullidx.insert(1 + sum_pos, j)
                tot = tot + ss[flat(fullidx, full)]
            want.append(tot)
        check(f"reconstruct:handle_index_sum:{label}", f"sum over the {label} of a (2,)-valued summand with free dims (2,3,2)", "handle_index_sum", o, [ss], want)
    # dispatch table
    key = "reconstruct:dispatch"
    res.ob(key)
    tbl = None
    for st in m.tree.body:
        if isinstance(st, ast.Assign) and any(isinstance(t, ast.Name) and t.id == "_reconstruct_call_lookup" for t in st.targets) and isinstance(st.value, ast.Dict):
            tbl = {ast.unparse(k).split(".")[-1]: ast.unparse(v) for k, v in zip(st.value.keys, st.value.values)}
    if tbl is None:
        raise AnalysisError("reconstruct: dispatch table not found")
    want_tbl = {"Product": "handle_product", "Division": "handle_division", "Sum": "handle_sum", "IndexSum": "handle_index_sum", "Conditional": "handle_conditional",
                "Condition": "handle_condition", "Conj": "handle_elementwise_unary", "Real": "handle_elementwise_unary", "Imag": "handle_elementwise_unary"}
    for k, v in want_tbl.items():
        if tbl.get(k) != v:
            res.fail(key, f"reconstruct dispatches {k} to {tbl.get(k)}, expected {v}", m.line(m.func("reconstruct").node))


def _showr(r):
    from ..absint import Rat

    if not isinstance(r, Rat):
        return repr(r)[:80]

    def poly(p):
        terms = []
        for mono, c in sorted(p.items()):
            t = "*".join(v if k == 1 else f"{v}^{k}" for v, k in mono) or "1"
            terms.append(t if c == 1 else f"{c}*{t}")
        return " + ".join(terms) or "0"

    return poly(r.num) if r.den == {(): 1} else f"({poly(r.num)})/({poly(r.den)})"


@rule(
    "INDEX-MAPS",
    ["C01", "C04"],
    "ir/analysis/indexing.py, interpreted on sample Indexed / ComponentTensor nodes: the returned list maps every flattened "
    "component of the node (row-major over value shape then free-index dimensions, free indices ordered by count) to the "
    "component of its operand that UFL's semantics names - fixed indices, free indices bound by the multi-index (in any order, "
    "i.e. including transpositions) and free indices passed through",
    min_instances=7,
)
def index_maps(repo, res):
    import itertools

    IM = "ffcx.ir.analysis.indexing"
    m = repo.mod(IM)

    def strides(shape):
        out, acc = [], 1
        for n_ in reversed(shape):
            out.append(acc)
            acc *= n_
        return tuple(reversed(out))

    def flat(idx, shape):
        return sum(i * s_ for i, s_ in zip(idx, strides(shape)))

    def mk():
        it = Interp(repo, load_classes(repo), primary=IM)
        it.overrides["compute_indices"] = _PyCall(lambda shape: [tuple(t) for t in itertools.product(*[range(n_) for n_ in shape])])
        it.overrides["shape_to_strides"] = _PyCall(lambda shape: strides(tuple(shape)))
        it.overrides["flatten_multiindex"] = _PyCall(lambda ii, st: sum(i * s_ for i, s_ in zip(ii, st)))
        it.overrides["ufl.product"] = _PyCall(lambda seq: __import__("math").prod(list(seq)))
        return it

    def idx(c):
        return Node("Index", count=_PyCall(lambda _c=c: _c))

    def fixed(v):
        return Node("FixedIndex", value=v)

    def expr(kind, operands=(), shape=(), fi=(), fid=()):
        return Node(kind, ufl_operands=tuple(operands), ufl_shape=tuple(shape), ufl_free_indices=tuple(fi), ufl_index_dimensions=tuple(fid))

    # ---- Indexed: e1 = e2[mi]
    f = m.func("map_indexed_arg_components")
    res.functions.add(f.key)
    icases = [
        ("A[1, i7] with A of shape (2,3) and a free index 4", (2, 3), (4,), (2,), [("fixed", 1), ("free", 7)]),
        ("A[i7, i2] (transposition: index counts in reverse order)", (2, 3), (), (), [("free", 7), ("free", 2)]),
        ("A[i3, 0, i1] with A of shape (2,2,3)", (2, 2, 3), (), (), [("free", 3), ("fixed", 0), ("free", 1)]),
        ("A[i7] with A of shape (3,) carrying free indices 9 and 2", (3,), (2, 9), (2, 2), [("free", 7)]),
    ]
    for label, sh2, fi2, fid2, mi_spec in icases:
        key = f"{f.key}:{label}"
        res.ob(key)
        dims = dict(zip(fi2, fid2))
        for (kind, v), n_ in zip(mi_spec, sh2):
            if kind == "free":
                dims[v] = n_
        fi1 = tuple(sorted(dims))
        fid1 = tuple(dims[i] for i in fi1)
        e2 = expr("Tensor", shape=sh2, fi=fi2, fid=fid2)
        mi = [fixed(v) if kind == "fixed" else idx(v) for kind, v in mi_spec]
        e1 = expr("Indexed", operands=(e2, mi), shape=(), fi=fi1, fid=fid1)
        try:
            got = mk().call_f(f, [e1])
        except Raised as e:
            res.fail(key, f"map_indexed_arg_components raises ({e.what}) on {label}", m.line(f.node))
            continue
        want = []
        tsh2 = tuple(sh2) + tuple(fid2)
        for p1 in itertools.product(*[range(d_) for d_ in fid1]):
            val = dict(zip(fi1, p1))
            p2 = [v if kind == "fixed" else val[v] for kind, v in mi_spec] + [val[i] for i in fi2]
            want.append(flat(p2, tsh2))
        if list(got) != want:
            res.fail(key, f"{label}: component map is {list(got)}, expected {want}: scalar components of the indexed tensor would be paired with the wrong entries", m.line(f.node))
    # ---- ComponentTensor: e2 = as_tensor(e1, mi)
    g = m.func("map_component_tensor_arg_components")
    res.functions.add(g.key)
    ccases = [
        ("as_tensor(e[i2,i7,i9], (i7, i2)) (shape (2,3), free index 9)", (2, 7, 9), (3, 2, 2), [7, 2]),
        ("as_tensor(e[i1,i4], (i1, i4)) (identity)", (1, 4), (2, 3), [1, 4]),
        ("as_tensor(e[i1,i4,i6], (i6,)) (two free indices remain)", (1, 4, 6), (2, 2, 3), [6]),
    ]
    for label, fi1, fid1, mi_counts in ccases:
        key = f"{g.key}:{label}"
        res.ob(key)
        d1 = dict(zip(fi1, fid1))
        sh2 = tuple(d1[c] for c in mi_counts)
        fi2 = tuple(i for i in fi1 if i not in mi_counts)
        fid2 = tuple(d1[i] for i in fi2)
        e1 = expr("Indexed", shape=(), fi=fi1, fid=fid1)
        mi = [idx(c) for c in mi_counts]
        e2 = expr("ComponentTensor", operands=(e1, mi), shape=sh2, fi=fi2, fid=fid2)
        try:
            got = mk().call_f(g, [e2])
        except Raised as e:
            res.fail(key, f"map_component_tensor_arg_components raises ({e.what}) on {label}", m.line(g.node))
            continue
        want = []
        for p2 in itertools.product(*[range(d_) for d_ in sh2 + fid2]):
            val = dict(zip(list(mi_counts) + list(fi2), p2))
            want.append(flat([val[i] for i in fi1], fid1))
        if list(got) != want:
            res.fail(key, f"{label}: component map is {list(got)}, expected {want}", m.line(g.node))


@rule(
    "QRULE-GROUP",
    ["C11", "C01", "C02", "C06", "C19", "C09"],
    "_group_integrands_by_quadrature_rule, interpreted with the basix / quadrature helpers modelled symbolically: every "
    "integrand is filed under (integration-entity type, rule) where the rule is exactly the one its own metadata selects - "
    "default schemes through create_quadrature_points_and_weights(integral type, cell, degree, scheme, argument elements, "
    "tensor flag), custom rules from the metadata's points and weights, the vertex scheme from the entity's vertices with "
    "weights volume/n - integrals with equal rules share one entry, different rules never do, and mixed facet types each get "
    "their own key",
    min_instances=6,
)
def qrule_group(repo, res):
    RP = "ffcx.ir.representation"
    m = repo.mod(RP)
    f = m.func("_group_integrands_by_quadrature_rule")
    res.functions.add(f.key)
    topo = {
        "CellType.triangle": [["CellType.point"] * 3, ["CellType.interval"] * 3, ["CellType.triangle"]],
        "CellType.quadrilateral": [["CellType.point"] * 4, ["CellType.interval"] * 4, ["CellType.quadrilateral"]],
        "CellType.tetrahedron": [["CellType.point"] * 4, ["CellType.interval"] * 6, ["CellType.triangle"] * 4, ["CellType.tetrahedron"]],
        "CellType.prism": [["CellType.point"] * 6, ["CellType.interval"] * 9,
                           ["CellType.triangle", "CellType.quadrilateral", "CellType.quadrilateral", "CellType.quadrilateral", "CellType.triangle"], ["CellType.prism"]],
    }
    nverts = {"CellType.point": 1, "CellType.interval": 2, "CellType.triangle": 3, "CellType.quadrilateral": 4, "CellType.tetrahedron": 4}
    vol = {"CellType.point": 1.0, "CellType.interval": 1.0, "CellType.triangle": 0.5, "CellType.quadrilateral": 1.0, "CellType.tetrahedron": 1.0 / 6}
    facets = {"triangle": ["interval"], "quadrilateral": ["interval"], "tetrahedron": ["triangle"], "prism": ["triangle", "quadrilateral"]}
    ridges = {"tetrahedron": ["interval"], "prism": ["interval"]}

    def cqpw(itype, cell, degree, scheme, elements, tp=False):
        cn = cell.f["cellname"]
        if itype == "cell":
            names = [cn]
        elif "facet" in itype:
            names = facets[cn]
        elif itype == "ridge":
            names = ridges[cn]
        elif itype == "vertex":
            names = ["vertex"]
        else:
            names = []
        # the real callee ignores the tensor flag for everything but cell integrals (OPT-GATE quadrature matrix), so does the model
        tp_ = bool(tp) and itype == "cell"
        tag = lambda n_: f"{n_},{degree},{scheme},{elements},{tp_}"  # noqa: E731
        return ({n_: f"P[{tag(n_)}]" for n_ in names}, {n_: f"W[{tag(n_)}]" for n_ in names}, {})

    from ..npmodel import NDArr as _NDA, NPFloat32 as _NPF32
    made = []

    def mk():
        it = Interp(repo, load_classes(repo), primary=RP)
        it.overrides["basix_cell_from_string"] = _PyCall(lambda s_: "CellType.point" if s_ == "vertex" else f"CellType.{s_}")
        it.overrides["basix.cell.subentity_types"] = _PyCall(lambda ct: topo[ct])
        it.overrides["basix.cell.geometry"] = _PyCall(lambda ct: _Arr([[float(k_)] for k_ in range(nverts[ct])]))
        it.overrides["basix.cell.volume"] = _PyCall(lambda ct: vol[ct])
        it.overrides["basix.CellType.point"] = "CellType.point"
        it.overrides["np.full"] = _PyCall(lambda n_, v, dtype=None: [v] * n_)
        def asarray(x, dtype=None, **k):
            # NumPy semantics: an array of another floating type is converted, each element to the double of the same value
            if dtype is not None and "float64" in str(dtype) and isinstance(x, _NDA):
                conv = lambda v: [conv(e) for e in v] if isinstance(v, list) else (float(v) if isinstance(v, _NPF32) else v)  # noqa: E731
                return _NDA(conv(x.tolist()), x.shape)
            return x
        it.overrides["np.asarray"] = _PyCall(asarray)
        it.overrides["np.array"] = _PyCall(asarray)
        it.overrides["np.ascontiguousarray"] = _PyCall(asarray)
        it.overrides["np.float64"] = "np.float64"
        it.overrides["create_quadrature_points_and_weights"] = _PyCall(cqpw)

        def qrule(p_, w_, tf=None):
            made.append((p_, w_))
            return ("rule", str(p_), str(w_), str(tf))
        it.overrides["QuadratureRule"] = _PyCall(qrule)
        it.overrides["warnings.warn"] = _PyCall(lambda *a, **k: None)
        return it

    def integral(k, md):
        return Node("Integral", metadata=_PyCall(lambda _m=md: dict(_m)), integrand=_PyCall(lambda _k=k: f"integrand{_k}"))

    D = lambda deg, scheme="default": {"quadrature_degree": deg, "quadrature_rule": scheme}  # noqa: E731
    CPa, CWa = _NDA([[0.25], [0.75]], (2, 1)), _NDA([0.5, 0.5], (2,))
    CU = {"quadrature_rule": "custom", "quadrature_points": CPa, "quadrature_weights": CWa}
    cases = [
        ("cell, triangle: degrees 2, 2, 4", "cell", "triangle", [D(2), D(2), D(4)], False,
         {"CellType.triangle": {("P[triangle,2,default,ELS,False]", "W[triangle,2,default,ELS,False]"): [0, 1], ("P[triangle,4,default,ELS,False]", "W[triangle,4,default,ELS,False]"): [2]}}),
        ("cell, quadrilateral with sum factorisation: GLL degree 3 and default degree 3", "cell", "quadrilateral", [D(3, "GLL"), D(3)], True,
         {"CellType.quadrilateral": {("P[quadrilateral,3,GLL,ELS,True]", "W[quadrilateral,3,GLL,ELS,True]"): [0], ("P[quadrilateral,3,default,ELS,True]", "W[quadrilateral,3,default,ELS,True]"): [1]}}),
        ("exterior facet, quadrilateral: custom rule and default degree 3", "exterior_facet", "quadrilateral", [CU, D(3)], True,
         {"CellType.interval": {(str(CPa), str(CWa)): [0], ("P[interval,3,default,ELS,False]", "W[interval,3,default,ELS,False]"): [1]}}),
        ("interior facet, prism: default degree 2", "interior_facet", "prism", [D(2)], False,
         {"CellType.triangle": {("P[triangle,2,default,ELS,False]", "W[triangle,2,default,ELS,False]"): [0]},
          "CellType.quadrilateral": {("P[quadrilateral,2,default,ELS,False]", "W[quadrilateral,2,default,ELS,False]"): [0]}}),
        ("exterior facet, tetrahedron: vertex scheme", "exterior_facet", "tetrahedron", [D(1, "vertex")], False,
         {"CellType.triangle": {("[[0] [1] [2]]", str([0.5 / 3] * 3)): [0]}}),
        ("cell, triangle: vertex scheme next to degree 2", "cell", "triangle", [D(1, "vertex"), D(2)], False,
         {"CellType.triangle": {("[[0] [1] [2]]", str([0.5 / 3] * 3)): [0], ("P[triangle,2,default,ELS,False]", "W[triangle,2,default,ELS,False]"): [1]}}),
        ("ridge, tetrahedron: custom rule", "ridge", "tetrahedron", [CU], False, {"CellType.interval": {(str(CPa), str(CWa)): [0]}}),
        ("vertex integral: default", "vertex", "triangle", [D(1)], False, {"CellType.point": {("P[vertex,1,default,ELS,False]", "W[vertex,1,default,ELS,False]"): [0]}}),
    ]
    for label, itype, cn, mds, sf, want in cases:
        key = f"{f.key}:{label}"
        res.ob(key)
        ints = [integral(k, md) for k, md in enumerate(mds)]
        try:
            got = mk().call_f(f, [ints, "ELS", itype, Node("Cell", cellname=cn), sf])
        except Raised as e:
            res.fail(key, f"_group_integrands_by_quadrature_rule raises ({e.what}) on `{label}`", m.line(f.node))
            continue
        norm = {}
        for ct, rules in (got or {}).items():
            for r_, integrands in rules.items():
                norm.setdefault(ct, {})[(r_[1], r_[2]) if isinstance(r_, tuple) else r_] = [int(str(x).replace("integrand", "")) for x in integrands]
        want_n = {ct: {(p_.replace("[[0] [1] [2]]", str(_Arr([[0.0], [1.0], [2.0]]))), w_): v for (p_, w_), v in d_.items()} for ct, d_ in want.items()}
        if norm != want_n:
            res.fail(key, f"`{label}`: integrands are filed as {norm}, expected {want_n}: each integrand must be integrated with the rule its own metadata "
                     "selects, under the type of its integration entity", m.line(f.node))
    # custom rules given in single precision: the numbers that reach the rule are printed by both formatters with str() / format(); a float32 scalar prints as the
    # shortest decimal that identifies it among float32 values, which read as a double is another number
    key = f"{f.key}:custom rule given as float32 arrays"
    res.ob(key)
    third = _NPF32(1 / 3)
    md32 = {"quadrature_rule": "custom", "quadrature_points": _NDA([[_NPF32(0.1)], [_NPF32(0.7)]], (2, 1)), "quadrature_weights": _NDA([third, _NPF32(2 / 3)], (2,))}
    del made[:]
    try:
        mk().call_f(f, [[integral(0, md32)], "ELS", "cell", Node("Cell", cellname="triangle"), False])
        flat = [v for p_, w_ in made for arr_ in (p_, w_) if isinstance(arr_, _NDA) for v in arr_.flat()]
        lossy = [v for v in flat if float(str(v)) != float(v)]
        if not made:
            res.fail(key, "no quadrature rule is built for a custom rule given as float32 arrays", m.line(f.node))
        elif lossy:
            res.fail(key, f"custom points / weights given as float32 arrays reach the quadrature rule as float32 scalars: the value {float(lossy[0])!r} is printed into the "
                     f"kernel as {str(lossy[0])} (the shortest decimal that identifies it among float32 values), which the C compiler reads as another double - the "
                     "kernel does not integrate with the rule it was given", m.line(f.node), props=("C11", "C09", "C01"))
    except Raised as e:
        res.fail(key, f"_group_integrands_by_quadrature_rule raises ({e.what}) on a custom rule given as float32 arrays", m.line(f.node))
    # a custom rule whose points and weights do not fit together is rejected: n points of the entity's dimension, n weights
    bad = {
        "three points, two weights": (_NDA([[0.1], [0.5], [0.9]], (3, 1)), _NDA([0.5, 0.5], (2,))),
        "weights given as a column (n, 1)": (_NDA([[0.25], [0.75]], (2, 1)), _NDA([[0.5], [0.5]], (2, 1))),
        "points given as a flat list": (_NDA([0.25, 0.75], (2,)), _NDA([0.5, 0.5], (2,))),
    }
    for label, (pp, ww) in bad.items():
        key = f"{f.key}:custom-rule-rejected:{label}"
        res.ob(key)
        md = {"quadrature_rule": "custom", "quadrature_points": pp, "quadrature_weights": ww}
        try:
            got = mk().call_f(f, [[integral(0, md)], "ELS", "exterior_facet", Node("Cell", cellname="triangle"), False])
            res.fail(key, f"a custom quadrature rule with {label} (points {pp.shape}, weights {ww.shape}) is accepted: the kernel loops over len(weights) points and "
                     "indexes the tables with the point index - points without a weight are silently skipped, a weights column becomes `weights[n][1]` used as a scalar "
                     "(not valid C)", m.line(f.node), props=("C19", "C11"))
        except Raised:
            pass
