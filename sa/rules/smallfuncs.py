"""Small IR helper functions interpreted from source on sample inputs.

MT-ELEMENT    get_modified_terminal_element: element, component and derivative counts of the table behind a
              modified terminal (form argument, x, J incl. derivatives of J)
QUAD-FAMILY   element_interface.create_quadrature: the polyset family handed to basix is the superset over
              ALL argument elements; cell, degree and scheme are passed through
"""

from __future__ import annotations

from ..absint import Interp, Node, Raised, _PyCall
from ..lnodes_model import load_classes
import ast

from ..model import AnalysisError
from ..registry import rule

ET = "ffcx.ir.elementtables"


@rule(
    "MT-ELEMENT",
    ["C01", "C02", "C04"],
    "get_modified_terminal_element, interpreted on sample modified terminals: for a form argument the table is that of its own "
    "element, flat component and local derivatives; for x the coordinate element and x-component; for J[i,d] (and reference "
    "gradients of J) the coordinate element, component i and derivative counts of (d,) + local derivatives - dropping one of "
    "them tabulates J where dJ/dX is meant (div of Piola-mapped functions on non-affine cells)",
    min_instances=7,
)
def mt_element(repo, res):
    m = repo.mod(ET)
    f = m.func("get_modified_terminal_element")
    res.functions.add(f.key)
    coord = Node("CoordinateElement", name="xelem")
    felem = Node("Element", name="felem")

    def mesh(tdim):
        return Node("Mesh", topological_dimension=tdim, ufl_coordinate_element=_PyCall(lambda: coord))

    def run(kind, tdim, **mtf):
        it = Interp(repo, load_classes(repo), primary=ET)
        it.overrides["ufl.domain.extract_unique_domain"] = _PyCall(lambda t, _m=mesh(tdim): _m)
        term = Node(kind, ufl_function_space=_PyCall(lambda: Node("FunctionSpace", ufl_element=_PyCall(lambda: felem))))
        fields = dict(terminal=term, global_derivatives=(), local_derivatives=(), reference_value=False, averaged=None, component=(), flat_component=0,
                      restriction=None)
        fields.update(mtf)
        return it.call_f(f, [Node("ModifiedTerminal", **fields)])

    def counts(seq, tdim):
        n = 1 if tdim == 0 else tdim
        return tuple(sum(1 for x in seq if x == i) for i in range(n))

    cases = [
        ("argument value", "FormArgument", 2, dict(reference_value=True, flat_component=1, component=(1,)), felem, (), 1),
        ("argument second derivative", "FormArgument", 3, dict(reference_value=True, local_derivatives=(2, 0)), felem, (2, 0), 0),
        ("x component", "SpatialCoordinate", 2, dict(component=(1,), flat_component=1), coord, (), 1),
        ("x derivative (Jacobian through x)", "SpatialCoordinate", 2, dict(component=(0,), flat_component=0, local_derivatives=(1,)), coord, (1,), 0),
        ("J[1,0]", "Jacobian", 2, dict(component=(1, 0), flat_component=2), coord, (0,), 1),
        ("dJ[0,1]/dX_0 (derivative of the Jacobian)", "Jacobian", 2, dict(component=(0, 1), flat_component=1, local_derivatives=(0,)), coord, (1, 0), 0),
        ("d2J[2,1]/dX_2 dX_2", "Jacobian", 3, dict(component=(2, 1), flat_component=7, local_derivatives=(2, 2)), coord, (1, 2, 2), 2),
        ("vertex mesh argument", "FormArgument", 0, dict(reference_value=True), felem, (), 0),
    ]
    for label, kind, tdim, mtf, want_el, dseq, want_fc in cases:
        key = f"{f.key}:{label}"
        res.ob(key)
        try:
            out = run(kind, tdim, **mtf)
        except Raised as e:
            res.fail(key, f"get_modified_terminal_element raises ({e.what}) for {label}", m.line(f.node))
            continue
        if not isinstance(out, Node) or "__fields__" not in out.f:
            res.fail(key, f"{label}: result is {out!r}, not a ModifiedTerminalElement", m.line(f.node))
            continue
        vals = [out.f[k] for k in out.f["__fields__"]]
        want = [want_el, None, counts(dseq, tdim), want_fc]
        if vals[0] is not want[0] or vals[1] != want[1] or tuple(vals[2]) != want[2] or vals[3] != want[3]:
            res.fail(key, f"{label}: table reference is (element={getattr(vals[0], 'f', {}).get('name')}, averaged={vals[1]}, derivative counts={tuple(vals[2])}, "
                     f"component={vals[3]}), expected (element={want_el.f['name']}, None, {want[2]}, {want_fc})", m.line(f.node))
    # a terminal without table
    key = f"{f.key}:no-table-for-other-terminals"
    res.ob(key)
    try:
        if run("FacetNormal", 2) is not None:
            res.fail(key, "a terminal that is neither argument, x nor J gets a table element", m.line(f.node))
    except Raised as e:
        res.fail(key, f"raises ({e.what}) for a terminal without table", m.line(f.node))


@rule(
    "QUAD-FAMILY",
    ["C11", "C01"],
    "element_interface.create_quadrature, interpreted with basix.polyset_superset modelled as the join of "
    "standard < macroedge: whatever the order of the argument elements, the polyset family given to basix.make_quadrature is "
    "the join over all of them, and cell type, degree and scheme are the ones requested; the vertex rule is one point of weight 1",
    min_instances=7,
)
def quad_family(repo, res):
    m = repo.mod("ffcx.element_interface")
    f = m.func("create_quadrature")
    res.functions.add(f.key)
    order = {"PolysetType.standard": 0, "PolysetType.macroedge": 1}
    calls = []

    def mk():
        it = Interp(repo, load_classes(repo), primary="ffcx.element_interface")
        it.overrides["basix.PolysetType.standard"] = "PolysetType.standard"
        it.overrides["basix.polyset_superset"] = _PyCall(lambda ct, a, b: a if order[a] >= order[b] else b)
        it.overrides["basix.quadrature.string_to_type"] = _PyCall(lambda r: f"QuadratureType.{r}")
        it.overrides["_CellType"] = {"triangle": "CellType.triangle", "interval": "CellType.interval", "hexahedron": "CellType.hexahedron"}

        def make_quadrature(ct, degree, rule=None, polyset_type=None):
            calls.append((ct, degree, rule, polyset_type))
            return (f"pts[{ct},{degree},{rule},{polyset_type}]", "wts")

        it.overrides["basix.make_quadrature"] = _PyCall(make_quadrature)
        return it

    S, M = Node("Element", polyset_type="PolysetType.standard"), Node("Element", polyset_type="PolysetType.macroedge")
    cases = [("no argument elements", [], "PolysetType.standard"), ("standard only", [S, S], "PolysetType.standard"), ("macro test, standard trial", [M, S], "PolysetType.macroedge"),
             ("standard test, macro trial", [S, M], "PolysetType.macroedge"), ("macro, macro", [M, M], "PolysetType.macroedge"), ("three elements, macro first", [M, S, S], "PolysetType.macroedge")]
    for label, els, want in cases:
        key = f"{f.key}:{label}"
        res.ob(key)
        calls.clear()
        try:
            mk().call_f(f, ["triangle", 3, "GLL", els])
        except Raised as e:
            res.fail(key, f"create_quadrature raises ({e.what}) for {label}", m.line(f.node))
            continue
        if len(calls) != 1:
            res.fail(key, f"{label}: basix.make_quadrature is called {len(calls)} times", m.line(f.node))
            continue
        ct, deg, rl, ps = calls[0]
        if ps != want:
            res.fail(key, f"{label}: the rule is requested for polyset family {ps}, expected {want}: with a P1-iso-P2 test function and a P2 trial function the "
                     "plain Gauss-Jacobi rule would replace the composite macro rule", m.line(f.node))
        if (ct, deg, rl) != ("CellType.triangle", 3, "QuadratureType.GLL"):
            res.fail(key, f"{label}: basix is asked for (cell, degree, scheme) = {(ct, deg, rl)}, requested (triangle, 3, GLL)", m.line(f.node))
    # history: the rule returned for a request depends on that request only (no memo keyed without the scheme / family)
    key = f"{f.key}:history-independent"
    res.ob(key)
    it = mk()
    seq = [("triangle", 2, "GLL", [S]), ("triangle", 2, "default", [S]), ("triangle", 2, "default", [M]), ("interval", 2, "default", [S]), ("triangle", 3, "default", [S])]
    try:
        outs = [it.call_f(f, [c_, d_, r_, e_]) for c_, d_, r_, e_ in seq]
    except Raised as e:
        res.fail(key, f"create_quadrature raises ({e.what}) in a sequence of requests", m.line(f.node))
        outs = None
    if outs is not None:
        for (c_, d_, r_, e_), o in zip(seq, outs):
            fam = "PolysetType.macroedge" if M in e_ else "PolysetType.standard"
            want = f"pts[CellType.{c_},{d_},QuadratureType.{r_},{fam}]"
            got = o[0] if isinstance(o, tuple) else o
            if got != want:
                res.fail(key, f"after earlier requests, create_quadrature({c_}, {d_}, {r_}, ...) returns the rule {got} instead of {want}: a memo that ignores part of "
                         "the request makes u*v*dx(degree=2) + u*v*dx(scheme='GLL', degree=2) use one rule twice, and results depend on what was compiled before",
                         m.line(f.node))
                break


@rule(
    "DTYPE-MERGE",
    ["C09"],
    "integral_generator.extract_dtype, interpreted on all combinations of operand types: an intermediate variable is declared "
    "with the join (BOOL < INT < REAL < SCALAR) of its value operands - both branches of a conditional, all operands of an "
    "arithmetic operator - except Condition (BOOL) and Real/Imag (REAL). A narrower declaration (`double sv = cond ? 1.0 : c[0]`) "
    "silently drops the imaginary part in complex kernels",
    min_instances=40,
)
def dtype_merge(repo, res):
    import itertools

    IG = "ffcx.codegeneration.integral_generator"
    m = repo.mod(IG)
    f = m.func("extract_dtype")
    res.functions.add(f.key)
    order = ["DataType.BOOL", "DataType.INT", "DataType.REAL", "DataType.SCALAR"]
    it = Interp(repo, load_classes(repo), primary=IG)
    kinds = {"Sum": None, "Product": None, "MathFunction": None, "Condition": "DataType.BOOL", "Real": "DataType.REAL", "Imag": "DataType.REAL", "Conditional": "branches"}

    def is_a(x, names):
        return x.cls in names

    # isinstance against UFL classes: the sample node's class name decides (Condition covers LT/GT/..., modelled by name)
    for kind, special in kinds.items():
        n_ops = 3 if kind == "Conditional" else 2
        for dts in itertools.product(order[1:] if kind != "Conditional" else order, repeat=n_ops):
            if kind == "Conditional" and (dts[0] != "DataType.BOOL" or "DataType.BOOL" in dts[1:]):
                continue
            key = f"{f.key}:{kind}:{','.join(d.split('.')[1] for d in dts)}"
            res.ob(key)
            v = Node(kind)
            ops = [Node("Symbol", name=f"s{i}", dtype=d) for i, d in enumerate(dts)]
            try:
                got = it.call_f(f, [v, ops])
            except Raised as e:
                res.fail(key, f"extract_dtype raises ({e.what}) for {kind} with operand types {dts}", m.line(f.node))
                continue
            if special == "branches":
                want = max(dts[1:], key=order.index)
            elif special is not None:
                want = special
            else:
                want = max(dts, key=order.index)
            if got != want:
                res.fail(key, f"a {kind} node with operand types {[d.split('.')[1] for d in dts]} is declared {str(got).split('.')[-1]}, expected {want.split('.')[1]}: "
                         + ("the narrower type drops the imaginary part / fraction of an operand" if (str(got) not in order or order.index(str(got)) < order.index(want))
                            else "the wider type is not what the operands deliver"), m.line(f.node))


@rule(
    "MATH-ARGTYPE",
    ["C09"],
    "the C formatter's MathFunction handler, interpreted on sample calls under a complex scalar type: the function name comes "
    "from the real table only when no argument is complex-valued; pow(real base, complex exponent), atan2 with a complex "
    "argument etc. must use the complex entry (a real `pow` would convert the exponent to double and drop its imaginary part)",
    min_instances=8,
)
def math_argtype(repo, res):
    FM = "ffcx.codegeneration.C.formatter"
    m = repo.mod(FM)
    cands = [f for f in m.funcs.values() if f.node.name == "_" and "MathFunction" in ast.unparse(f.node.args)]
    if len(cands) != 1:
        raise AnalysisError("C formatter: MathFunction handler not found")
    h = cands[0]
    res.functions.add(h.key)
    table = None
    for st in m.tree.body:
        if isinstance(st, ast.Assign) and any(isinstance(t, ast.Name) and t.id == "math_table" for t in st.targets):
            from ..model import const_value

            table = const_value(st.value)
    if table is None:
        raise AnalysisError("C formatter: math_table not found")
    S = lambda n, t: Node("Symbol", name=n, dtype=t)  # noqa: E731
    R, C = "DataType.REAL", "DataType.SCALAR"
    cases = [("power", [R, R], "real"), ("power", [R, C], "complex"), ("power", [C, R], "complex"), ("power", [C, C], "complex"),
             ("sqrt", [R], "real"), ("sqrt", [C], "complex"), ("atan2", [R, R], "real"), ("exp", [C], "complex"), ("abs", [R], "real")]
    for fn, _d, _k in cases:
        if fn != "atan2" and fn not in table["complex128"]:
            raise AnalysisError(f"math_table has no complex entry for `{fn}` (anchor vanished)")
    for sname, rname in (("complex128", "float64"), ("complex64", "float32")):
        for fn, dts, want_kind in cases:
            key = f"{h.key}:{sname}:{fn}({','.join(d.split('.')[1] for d in dts)})"
            res.ob(key)
            it = Interp(repo, load_classes(repo), primary=FM)
            it.overrides["warnings.warn"] = _PyCall(lambda *a, **k: None)
            fmt = Node("Formatter", scalar_type=Node("dtype", name=sname), real_type=Node("dtype", name=rname),
                       __call__=_PyCall(lambda a: a.f["name"] if isinstance(a, Node) and "name" in a.f else "x"))
            call = Node("MathFunction", function=fn, args=[S(f"a{i}", d) for i, d in enumerate(dts)], dtype=C if C in dts else R)
            try:
                text = it.call_f(h, [fmt, call])
            except Raised as e:
                res.fail(key, f"MathFunction handler raises ({e.what}) for {fn} with argument types {dts}", m.line(h.node))
                continue
            got = str(text).split("(", 1)[0]
            want = table[sname if want_kind == "complex" else rname].get(fn, fn)
            if got != want:
                res.fail(key, f"{fn} with argument types {[d.split('.')[1] for d in dts]} in a {sname} kernel is emitted as `{text}`; the "
                         f"{'complex' if want_kind == 'complex' else 'real'} function `{want}` is required"
                         + (": the real function converts the complex argument to its real part" if want_kind == "complex" else ""), m.line(h.node))
