"""C09 / C18: scalar types and backend agreement.

MATH-TABLES       every UFL math operator reachable through _math_function gets, for every scalar type,
                  a C function of the right family and precision; the numba formatter emits a call to
                  an existing NumPy/math callable with the same meaning, or raises
BACKEND-SIBLING   every LNode class is formatted by both backends; sizes declared for the numba views
                  follow the ufcx.h extents
TYPE-ROLES        A, w, c are SCALAR; coordinates, tables, weights, J, x are REAL; indices INT; Real/Imag
                  produce REAL; complex nodes are removed iff the scalar type is real and <complex.h> is
                  included iff it is complex
"""

from __future__ import annotations

import ast
import re

from ..fmt_eval import ANode, Eval, HandlerTable, Str
from ..lnodes_model import LNODES, load_classes, precedence_table
from ..flow import Slicer
from ..model import AnalysisError, call_name, calls_in, const_value, dotted, walk_no_nested
from ..registry import rule

UFL_FORMATTING = "/venv/lib/python3.12/site-packages/ufl/utils/formatting.py"


def _camel2underscore_variant() -> bool:
    """E6: re-derive from the installed UFL source whether digits count as lower case."""
    try:
        src = open(UFL_FORMATTING).read()
    except OSError:
        return True
    m = re.search(r"def camel2underscore\(name\):(.*?)\n\n", src, re.S)
    if not m:
        raise AnalysisError("ufl.utils.formatting.camel2underscore not found (library fact cannot be re-derived)")
    return "isdigit" in m.group(1)


def camel2underscore(name: str, digits_lower: bool) -> str:
    letters = []
    lastlower = False
    for i in name:
        thislower = i.islower() or (digits_lower and i.isdigit())
        if not thislower:
            if lastlower:
                letters.append("_")
            i = i.lower()
        lastlower = thislower
        letters.append(i)
    return "".join(letters)


def reachable_handlers(repo) -> dict[str, str]:
    """handler name -> UFL class, for the classes _ufl_call_lookup maps to _math_function."""
    from ..absint import Interp, _Cls
    from ..lnodes_model import load_classes

    it = Interp(repo, load_classes(repo), primary=LNODES).install_ufl_classes(LNODES)
    table = it.module_value(LNODES, "_ufl_call_lookup")   # as module initialisation leaves it (literal entries and entries added in loops)
    if not isinstance(table, dict):
        raise AnalysisError("lnodes._ufl_call_lookup is not a dict")
    dl = _camel2underscore_variant()
    out = {}
    for k, v in table.items():
        if hasattr(v, "node") and getattr(v.node, "name", None) == "_math_function" and isinstance(k, _Cls):
            out[camel2underscore(k.name, dl)] = k.name
    if len(out) < 20:
        raise AnalysisError("fewer than 20 math operators mapped to _math_function")
    return out


# C17 <math.h>/<complex.h> families (7.12, 7.3) + POSIX Bessel: handler -> {type row: allowed names}
def _fam(base, cbase=None, complex_ok=True):
    d = {"float32": {base + "f", base}, "float64": {base}, "longdouble": {base + "l"}}
    if complex_ok:
        cb = cbase or ("c" + base)
        d["complex64"] = {cb + "f", cb}
        d["complex128"] = {cb}
    return d


C_FAMILIES = {
    "sqrt": _fam("sqrt"), "abs": _fam("fabs", "cabs"), "cos": _fam("cos"), "sin": _fam("sin"), "tan": _fam("tan"),
    "acos": _fam("acos"), "asin": _fam("asin"), "atan": _fam("atan"), "cosh": _fam("cosh"), "sinh": _fam("sinh"), "tanh": _fam("tanh"),
    "acosh": _fam("acosh"), "asinh": _fam("asinh"), "atanh": _fam("atanh"), "power": _fam("pow"), "exp": _fam("exp"), "ln": _fam("log"),
    "erf": _fam("erf", complex_ok=False), "atan2": _fam("atan2", complex_ok=False), "atan_2": _fam("atan2", complex_ok=False),
    "min_value": _fam("fmin", complex_ok=False), "max_value": _fam("fmax", complex_ok=False),
    "real": {"complex64": {"crealf", "creal"}, "complex128": {"creal"}}, "imag": {"complex64": {"cimagf", "cimag"}, "complex128": {"cimag"}},
    "conj": {"complex64": {"conjf", "conj"}, "complex128": {"conj"}},
    "bessel_y": {"float32": {"yn", "ynf"}, "float64": {"yn"}}, "bessel_j": {"float32": {"jn", "jnf"}, "float64": {"jn"}},
}
# real-only functions: in a complex row they are only meaningful on REAL-typed operands (the formatter switches to the
# real row for those), so a complex row entry for them is tolerated if it names the real function of matching precision
REAL_ONLY = {"erf", "atan2", "atan_2", "min_value", "max_value", "bessel_y", "bessel_j"}
COMPLEX_ONLY = {"real", "imag", "conj"}

NUMPY_ORACLE = {
    "sqrt": {"np.sqrt"}, "abs": {"np.abs", "np.absolute", "abs"}, "cos": {"np.cos"}, "sin": {"np.sin"}, "tan": {"np.tan"},
    "acos": {"np.arccos"}, "asin": {"np.arcsin"}, "atan": {"np.arctan"}, "cosh": {"np.cosh"}, "sinh": {"np.sinh"}, "tanh": {"np.tanh"},
    "acosh": {"np.arccosh"}, "asinh": {"np.arcsinh"}, "atanh": {"np.arctanh"}, "power": {"np.power", "pow"}, "exp": {"np.exp"}, "ln": {"np.log"},
    "erf": {"math.erf"}, "atan2": {"np.arctan2", "math.atan2"}, "atan_2": {"np.arctan2", "math.atan2"},
    "min_value": {"np.minimum", "min", "np.fmin"}, "max_value": {"np.maximum", "max", "np.fmax"},
    "real": {"np.real"}, "imag": {"np.imag"}, "conj": {"np.conj", "np.conjugate"},
    "bessel_y": {"scipy.special.yn"}, "bessel_j": {"scipy.special.jn"},
}


@rule(
    "MATH-TABLES",
    ["C09", "C18", "C19"],
    "handler names are derived from _ufl_call_lookup with UFL's camel2underscore (re-derived from the "
    "installed source). C: for each handler and scalar-type row the emitted name math_table[T].get(H, H) "
    "belongs to the C17 family of H at a precision not narrower than T, real/complex rows use real/complex "
    "functions, float32/float64 and complex64/complex128 rows have equal key sets. numba: the MathFunction "
    "handler, abstractly evaluated per handler name, emits `callable(args)` with a NumPy/math callable of "
    "the same meaning, or raises",
    min_instances=100,
)
def math_tables(repo, res):
    handlers = reachable_handlers(repo)
    cm = repo.mod("ffcx.codegeneration.C.formatter")
    table = cm.assign("math_table")
    try:
        mt = const_value(table)
    except ValueError:
        raise AnalysisError("math_table is not a literal dict")
    rows = ["float64", "float32", "complex128", "complex64"]
    for r in rows:
        if r not in mt:
            res.fail(f"C.math_table:row:{r}", f"math_table has no row for {r}", cm.rel)
    for a, b in (("float32", "float64"), ("complex64", "complex128")):
        if a in mt and b in mt and set(mt[a]) != set(mt[b]):
            res.notes.append(f"rows {a} and {b} differ in keys {sorted(set(mt[a]) ^ set(mt[b]))} (decided per entry below)")
    for H, ucls in sorted(handlers.items()):
        if H == "math_function":
            continue
        fam = C_FAMILIES.get(H)
        if fam is None:
            res.fail(f"C.math_table:{H}:unknown", f"UFL operator {ucls} (handler {H}) is translated but the checker knows no C family for it", cm.rel, props=("C09", "C19"))
            continue
        for r in rows:
            if r not in mt:
                continue
            is_c = r.startswith("complex")
            key = f"C.math_table:{r}:{H}"
            res.ob(key)
            name = mt[r].get(H, H)
            explicit = H in mt[r]
            if H in COMPLEX_ONLY and not is_c:
                # _math_function folds conj/real/imag of REAL operands away; no real-row entry is needed
                continue
            if is_c and H in REAL_ONLY:
                # only reachable with a complex-typed operand; accept the real function of matching precision, nothing else
                real_row = "float64" if r == "complex128" else "float32"
                ok = name in C_FAMILIES[H].get(real_row, set()) | C_FAMILIES[H].get("float64", set())
                if explicit and not ok:
                    res.fail(key, f"math_table[{r}][{H}] = {name!r} is not the C function for {ucls}", cm.line(table), props=("C09",))
                continue
            allowed = fam.get(r, set())
            if name not in allowed:
                wider = set()
                if r == "float32":
                    wider = fam.get("float64", set())
                if r == "complex64":
                    wider = fam.get("complex128", set())
                if name in wider:
                    continue  # wider precision than needed: value-correct
                what = "explicit entry" if explicit else "fallback to the handler name"
                res.fail(key, f"{ucls} with {r} operands is emitted as `{name}(...)` ({what}); expected one of {sorted(allowed) or '(no C function)'}: "
                         "wrong function, wrong precision or real/complex mismatch", cm.line(table), props=("C09", "C19"))
    # formatter picks the row by operand type: REAL operands use the real row
    f = cm.func("Formatter._#18") if False else None
    hsrc = None
    for fn in cm.funcs.values():
        if "MathFunction" in ast.unparse(fn.node.args) and fn.node.name == "_":
            hsrc = fn
    # row selection of the C MathFunction handler: decided by MATH-ARGTYPE (handler interpreted on sample calls)
    if hsrc is None:
        raise AnalysisError("C MathFunction handler not found")
    # numba
    classes = load_classes(repo)
    nt = HandlerTable(repo, "ffcx.codegeneration.numba.formatter")
    ev = Eval(nt, classes, precedence_table(repo))
    nm = repo.mod("ffcx.codegeneration.numba.formatter")
    for H, ucls in sorted(handlers.items()):
        if H == "math_function":
            continue
        key = f"numba.MathFunction:{H}"
        res.ob(key)
        a = ANode(classes["Symbol"], {"name": Str(["x"])}, "x")
        b = ANode(classes["Symbol"], {"name": Str(["y"])}, "y")
        nargs = 2 if H in ("power", "atan2", "atan_2", "min_value", "max_value", "bessel_y", "bessel_j") else 1
        node = ANode(classes["MathFunction"], {"function": H, "args": [a, b][:nargs]}, "mf")
        try:
            text = ev.render(ev.skeleton(node))
        except AnalysisError as e:
            if "raise" in str(e).lower():
                continue
            raise AnalysisError(f"numba MathFunction handler not interpretable for {H}: {e}")
        mm = re.fullmatch(r"([\w.]+)\((.*)\)", text.strip())
        want = NUMPY_ORACLE.get(H, set())
        if not mm:
            res.fail(key, f"numba formatter emits `{text}` for {ucls}: not a call", nm.rel, props=("C18",))
            continue
        fn, args = mm.group(1), [x.strip() for x in mm.group(2).split(",")]
        if fn not in want:
            res.fail(key, f"numba formatter emits `{text}` for {ucls}; `{fn}` is not a NumPy/math callable computing it "
                     f"(expected one of {sorted(want)})", nm.rel, props=("C18",))
        elif args != ["x", "y"][:nargs]:
            res.fail(key, f"numba formatter emits `{text}` for {ucls}: arguments changed", nm.rel, props=("C18",))
        if fn.startswith("scipy") and "import scipy" not in const_value(repo.mod("ffcx.codegeneration.numba.file_template").assign("factory")):
            res.fail(key, f"numba formatter emits `{fn}` but the file template does not import scipy", nm.rel, props=("C18",))
    # _math_function folding of complex-only functions on REAL operands: the function is interpreted on sample operators
    from ..absint import Interp as _I3, Node as _N3, Raised as _R3
    from ..lnodes_model import load_classes as _lc3

    lm = repo.mod(LNODES)
    mf = lm.func("_math_function")
    res.functions.add(mf.key)
    key = f"{mf.key}:real-folding"
    res.ob(key)
    it3 = _I3(repo, _lc3(repo), primary=LNODES)
    xr, xs = it3.construct("Symbol", ["x", "DataType.REAL"], {}), it3.construct("Symbol", ["z", "DataType.SCALAR"], {})

    def shape(v):
        if v is xr:
            return "the operand"
        if isinstance(v, _N3) and v.cls == "LiteralFloat":
            return f"literal {float(v.f['value'])}"
        if isinstance(v, _N3) and v.cls == "MathFunction":
            return f"MathFunction({v.f['function']}, {len(v.f['args'])} args)"
        return repr(v)
    cases = [("conj", [xr], "the operand"), ("real", [xr], "the operand"), ("imag", [xr], "literal 0.0"), ("conj", [xs], "MathFunction(conj, 1 args)"),
             ("real", [xs], "MathFunction(real, 1 args)"), ("imag", [xs], "MathFunction(imag, 1 args)"), ("sqrt", [xr], "MathFunction(sqrt, 1 args)"),
             ("power", [xr, xs], "MathFunction(power, 2 args)"), ("abs", [xr], "MathFunction(abs, 1 args)")]
    for hname, args_, want_ in cases:
        try:
            got_ = shape(it3.call_f(mf, [_N3("UflOperator", _ufl_handler_name_=hname)] + list(args_)))
        except _R3 as e:
            got_ = f"raises {e.what}"
        if got_ != want_:
            res.fail(key, f"_math_function for `{hname}` of {'a REAL' if args_[0] is xr else 'a SCALAR'} operand gives {got_}, expected {want_}: conj/real of a real-typed operand are the "
                     "operand itself, imag of it is 0.0, everything else a MathFunction of the UFL handler name with all its arguments", lm.line(mf.node), props=("C09",))
            break


@rule(
    "BACKEND-SIBLING",
    ["C18", "C08"],
    "every concrete LNode class resolves to a non-default handler in both formatters; the sizes the numba "
    "backend declares for the kernel argument views follow ufcx.h: A = prod(tensor shape), w and "
    "coordinate_dofs doubled on interior facets, 2 entity indices, 2 permutations when needed",
    min_instances=40,
)
def backend_sibling(repo, res):
    classes = load_classes(repo)
    tabs = {be: HandlerTable(repo, f"ffcx.codegeneration.{be}.formatter") for be in ("C", "numba")}
    abstract = {"LNode", "LExpr", "LExprOperator", "LExprTerminal", "BinOp", "ArithmeticBinOp", "NaryOp", "PrefixUnaryOp", "AssignOp", "Declaration"}
    for c in classes.values():
        if c.name in abstract:
            continue
        for be, t in tabs.items():
            key = f"{be}.formatter:handles:{c.name}"
            res.ob(key)
            if t.resolve(c) is None:
                res.fail(key, f"the {be} formatter has no handler for {c.name}: kernels containing it cannot be generated with language='{be}'",
                         f"ffcx/codegeneration/{be}/formatter.py", props=("C18",))
    # numba ArrayDecl: empty / full / array
    key = "numba.formatter:ArrayDecl"
    res.ob(key)
    ev = Eval(tabs["numba"], classes, precedence_table(repo))
    # sizes: both tensor_sizes implementations interpreted on sample IR records
    from ..absint import Interp as _I, Node as _N, Raised as _R, _PyCall as _PC

    cm = repo.mod("ffcx.codegeneration.common")
    for fn in [f for f in cm.funcs.values() if f.node.name == "_" and "KernelTensorSizes" in ast.unparse(f.node)]:
        res.functions.add(fn.key)
        kind = "integral" if "IntegralIR" in ast.unparse(fn.node.args) else "expression"
        el = lambda d: _N("Coefficient", ufl_element=_PC(lambda _d=d: _N("Element", dim=_d)))  # noqa: E731
        con = lambda sh: _N("Constant", ufl_shape=tuple(sh))  # noqa: E731
        for itype, needs in (("cell", False), ("exterior_facet", False), ("interior_facet", True), ("interior_facet", False)):
            if kind == "expression" and itype != "cell":
                continue
            key = f"common.tensor_sizes[{kind}]:{itype}:perm={needs}"
            res.ob(key)
            rule_ = _N("QuadratureRule", points=_N("ndarray", shape=(5, 2), size=10))
            ex = _N("ExpressionIR", tensor_shape=[3, 4], shape=[2], integral_type=itype, coefficient_offsets={el(6): 0, el(3): 6},
                    original_constant_offsets={con(()): 0, con((2, 3)): 1}, number_coordinate_dofs=4, needs_facet_permutations=needs,
                    integrand={("cell", rule_): {}})
            it_ = _I(repo, load_classes(repo), primary="ffcx.codegeneration.common")
            it_.overrides["np.int32"] = "np.int32"
            it_.overrides["np.int64"] = "np.int64"
            try:
                out = it_.call_f(fn, [_N("IR", expression=ex)])
            except _R as e:
                res.fail(key, f"tensor_sizes[{kind}] raises ({e.what})", cm.line(fn.node), props=("C18", "C08"))
                continue
            if not isinstance(out, _N) or "__fields__" not in out.f:
                res.fail(key, f"tensor_sizes[{kind}] does not return KernelTensorSizes", cm.line(fn.node), props=("C18",))
                continue
            got = {k_: out.f[k_] for k_ in out.f["__fields__"]}
            width = 2 if (kind == "integral" and itype == "interior_facet") else 1
            want = {"A": 12 if kind == "integral" else 5 * 2 * 12, "w": width * 9, "c": 7, "coords": width * 12, "local_index": 2, "permutation": 2 if needs else 0}
            if got != want:
                diffs = {k_: (got.get(k_), want[k_]) for k_ in want if got.get(k_) != want[k_]}
                res.fail(key, f"sizes declared for the numba views of a {itype} {kind} kernel differ from ufcx.h (got, expected): {diffs} - A = prod(tensor shape) "
                         "[points*components*dofs for expressions]; w[coefficient][restriction][dof] and coordinate_dofs[restriction][node][3] doubled on interior "
                         "facets; 2 entity indices; 2 permutations when needed", cm.line(fn.node), props=("C18", "C08"))
    # both numba generators use the sizes for the right views
    for kind in ("integral", "expression"):
        g = repo.mod(f"ffcx.codegeneration.numba.{kind}").func("generator")
        # which size each argument view gets: GEN-INTEGRAL / GEN-EXPRESSION-DESC (generators interpreted, emitted views read back)
        t = const_value(repo.mod(f"ffcx.codegeneration.numba.{kind}_template").assign("factory"))
        key = f"numba.{kind}_template:params"
        res.ob(key)
        mm = re.search(r"def tabulate_tensor_\{factory_name\}\(([^)]*)\)", t)
        params = [p.strip() for p in mm.group(1).split(",")] if mm else []
        if params != ["_A", "_w", "_c", "_coordinate_dofs", "_entity_local_index", "_quadrature_permutation", "custom_data"]:
            res.fail(key, f"numba kernel parameters are {params}; the UFCx order is A, w, c, coordinate_dofs, entity_local_index, quadrature_permutation, custom_data",
                     f"ffcx/codegeneration/numba/{kind}_template.py", props=("C18",))


@rule(
    "TYPE-ROLES",
    ["C09", "C19"],
    "A, w, c are SCALAR; coordinate_dofs, weights, tables, J, x and reference-geometry symbols are REAL; "
    "loop indices, entity indices and permutations INT; Real/Imag yield REAL and conditions BOOL in both "
    "generators; complex nodes are removed exactly when the scalar type is real, with the same predicate "
    "that sets UFL's complex_mode; <complex.h> is included exactly for complex scalar types; the formatter "
    "maps SCALAR/REAL to the scalar type and its real part",
    min_instances=25,
)
def type_roles(repo, res):
    sm = repo.mod("ffcx.codegeneration.symbols")
    init = sm.func("FFCXBackendSymbols.__init__")
    res.functions.add(init.key)
    want = {"element_tensor": "SCALAR", "coefficients": "SCALAR", "constants": "SCALAR", "coordinate_dofs": "REAL", "entity_local_index": "INT",
            "quadrature_permutation": "INT", "quadrature_loop_index": "INT", "coefficient_dof_sum_index": "INT", "custom_weights_table": "REAL",
            "custom_points_table": "REAL"}
    got = {}
    for n in walk_no_nested(init.node):
        if isinstance(n, ast.Assign) and isinstance(n.targets[0], ast.Attribute) and isinstance(n.value, ast.Call) and (call_name(n.value) or "").endswith("Symbol"):
            dt = [k.value for k in n.value.keywords if k.arg == "dtype"] or n.value.args[1:2]
            got[n.targets[0].attr] = (dotted(dt[0]) or "").split(".")[-1] if dt else None
    for a, t in want.items():
        key = f"symbols:{a}:dtype"
        res.ob(key)
        if got.get(a) != t:
            res.fail(key, f"symbol {a} is typed {got.get(a)}, expected {t}: it would be declared/used with the wrong C type "
                     "(geometry must stay in the real type, data in the scalar type)", sm.line(init.node))
    # symbol factories
    fact = {"weights_table": "REAL", "points_table": "REAL", "x_component": "REAL", "J_component": "REAL", "coefficient_value": "SCALAR", "argument_loop_index": "INT"}
    for fn, t in fact.items():
        f = sm.func(f"FFCXBackendSymbols.{fn}")
        key = f"symbols.{fn}:dtype"
        res.ob(key)
        dts = {(dotted(k.value) or "").split(".")[-1] for c in calls_in(f.node) if (call_name(c) or "").endswith("Symbol") for k in c.keywords if k.arg == "dtype"}
        if dts != {t}:
            res.fail(key, f"symbols.{fn} creates symbols typed {sorted(dts)}, expected {t}", sm.line(f.node))
    # table symbols REAL in the generators
    for modname, q in (("ffcx.codegeneration.integral_generator", "IntegralGenerator.declare_table"), ("ffcx.codegeneration.expression_generator", "ExpressionGenerator.generate_element_tables"),
                       ("ffcx.codegeneration.access", "FFCXBackendAccess.table_access"), ("ffcx.codegeneration.symbols", "FFCXBackendSymbols.element_table")):
        m = repo.mod(modname)
        f = m.func(q)
        key = f"{f.key}:table-dtype"
        res.ob(key)
        dts = {(dotted(k.value) or "").split(".")[-1] for c in calls_in(f.node) if (call_name(c) or "").endswith("Symbol") for k in c.keywords if k.arg == "dtype"}
        if dts != {"REAL"}:
            res.fail(key, f"{q} types element tables {sorted(dts)}, expected REAL", m.line(f.node))
    # intermediates: Real/Imag -> REAL, conditions -> BOOL
    ig = repo.mod("ffcx.codegeneration.integral_generator")
    f = ig.func("extract_dtype")
    key = f"{f.key}:real-imag-cond"
    res.ob(key)
    res.notes.append("extract_dtype is decided by DTYPE-MERGE (interpreted on all operand type combinations)")
    res.notes.append("the types of expression-kernel intermediates are decided by PARTITION-DTYPE (generate_partition of both generators interpreted on a typed graph)")
    # merge_dtypes promotion order
    lm = repo.mod(LNODES)
    f = lm.func("merge_dtypes")
    key = f"{f.key}:promotion"
    res.ob(key)
    import itertools as _it

    from ..absint import Interp as _I, Raised as _R

    it_ = _I(repo, classes if "classes" in dir() else load_classes(repo))
    lattice = ["DataType.BOOL", "DataType.INT", "DataType.REAL", "DataType.SCALAR"]
    bad = None
    for n_ in (1, 2, 3):
        for combo in _it.product(lattice, repeat=n_):
            try:
                got = it_.call_f(f, [list(combo)])
            except _R as e:
                got = f"raises {e.what}"
            if got != max(combo, key=lattice.index):
                bad = (combo, got)
                break
        if bad:
            break
    if bad:
        res.fail(key, f"merge_dtypes({[c.split('.')[1] for c in bad[0]]}) = {bad[1]}; expected the join in BOOL < INT < REAL < SCALAR", lm.line(f.node))
    # literal dtypes (constructor interpreted)
    key = f"{LNODES}:LiteralFloat:dtype"
    res.ob(key)
    try:
        d_real = it_.construct("LiteralFloat", [2.5], {}).f.get("dtype")
        d_cplx = it_.construct("LiteralFloat", [complex(1.0, 2.0)], {}).f.get("dtype")
        d_int = it_.construct("LiteralInt", [3], {}).f.get("dtype")
    except _R as e:
        d_real = d_cplx = d_int = f"raises {e.what}"
    if (d_real, d_cplx, d_int) != ("DataType.REAL", "DataType.SCALAR", "DataType.INT"):
        res.fail(key, f"literal types are (float, complex, int) -> ({d_real}, {d_cplx}, {d_int}); complex literals must be SCALAR, real ones REAL, integers INT", lm.rel)
    # formatter dtype names, constructor, real-part function and the complex gates: interpreted with a model of numpy dtypes
    from ..absint import Interp as _I, Node as _N, PyNative as _PN, Raised as _R, _PyCall as _PC

    REALOF = {"float32": "float32", "float64": "float64", "complex64": "float32", "complex128": "float64"}

    class _DT(_PN):
        def __init__(self, name):
            self.name = name

        def __eq__(self, o):
            return isinstance(o, _DT) and o.name == self.name

        def __hash__(self):
            return hash(self.name)

        def __str__(self):
            return self.name

        def type(self, v):  # np.dtype(x).type(0) -> a scalar of that type
            outer = self

            class _Sc(_PN):
                @property
                def real(self_):
                    class _R2(_PN):
                        dtype = _DT(REALOF[outer.name])
                    return _R2()

                dtype = outer
            return _Sc()

    def np_stubs(it):
        def as_name(t):
            return t.name if isinstance(t, _DT) else str(t).replace("np.", "")
        it.overrides["np.dtype"] = _PC(lambda x: x if isinstance(x, _DT) else _DT(as_name(x)))
        it.overrides["np.floating"] = "np.floating"
        it.overrides["np.complexfloating"] = "np.complexfloating"
        it.overrides["np.issubdtype"] = _PC(lambda t, k: (as_name(t).startswith("complex") if str(k).endswith("complexfloating") else as_name(t).startswith("float")))
        it.overrides["np.iscomplexobj"] = _PC(lambda t: as_name(t).startswith("complex"))
        for nm in REALOF:
            it.overrides[f"np.{nm}"] = _DT(nm)
        return it

    um = repo.mod("ffcx.codegeneration.utils")
    f = um.func("dtype_to_scalar_dtype")
    res.functions.add(f.key)
    key = f"{f.key}:real-part"
    res.ob(key)
    got = {}
    for nm in REALOF:
        try:
            r_ = np_stubs(_I(repo, load_classes(repo), primary="ffcx.codegeneration.utils")).call_f(f, [_DT(nm)])
            got[nm] = r_.name if isinstance(r_, _DT) else str(r_)
        except _R as e:
            got[nm] = f"raises {e.what}"
    if got != REALOF:
        res.fail(key, f"dtype_to_scalar_dtype maps {got}; floating types must map to themselves, complex types to the type of their real part", um.line(f.node))
    for be in ("C", "numba"):
        fmn = f"ffcx.codegeneration.{be}.formatter"
        fm = repo.mod(fmn)
        init = fm.func("Formatter.__init__")
        key = f"{init.key}:real_type"
        res.ob(key)
        bad = None
        objs = {}
        for nm in REALOF:
            it = np_stubs(_I(repo, load_classes(repo), primary=fmn))
            it.overrides["dtype_to_scalar_dtype"] = _PC(lambda t: _DT(REALOF[t.name if isinstance(t, _DT) else str(t)]))
            o = _N("Formatter")
            try:
                it.call_f(init, [o, _DT(nm)])
            except _R as e:
                bad = f"raises {e.what}"
                break
            st, rt = o.f.get("scalar_type"), o.f.get("real_type")
            objs[nm] = o
            if not (isinstance(st, _DT) and st.name == nm and isinstance(rt, _DT) and rt.name == REALOF[nm]):
                bad = f"for {nm}: scalar_type = {st}, real_type = {rt}"
                break
        if bad:
            res.fail(key, f"{be} formatter constructor: {bad}; real_type must be the real part type of the scalar type", fm.line(init.node))
            continue
        f = fm.func("Formatter._dtype_to_name")
        key = f"{f.key}:mapping"
        res.ob(key)
        for nm, o in objs.items():
            it = np_stubs(_I(repo, load_classes(repo), primary=fmn))
            it.overrides["dtype_to_c_type"] = _PC(lambda t: f"ctype<{t.name if isinstance(t, _DT) else t}>")
            try:
                sc = str(it.call_f(f, [o, "DataType.SCALAR"]))
                re_ = str(it.call_f(f, [o, "DataType.REAL"]))
            except _R as e:
                sc = re_ = f"raises {e.what}"
            if nm not in sc or REALOF[nm] not in re_ or (nm != REALOF[nm] and nm in re_):
                res.fail(key, f"{be} formatter with scalar type {nm}: SCALAR is declared `{sc}` and REAL `{re_}`; SCALAR must be the scalar type and REAL its real type "
                         "(geometry and tables must not be declared complex)", fm.line(f.node), props=("C09",) if be == "C" else ("C09", "C18"))
                break

    def gate(modname, fn, marker, want_for_complex, what):
        """The `if` that guards the statement mentioning `marker` is taken exactly for (non-)complex scalar types."""
        fobj = repo.mod(modname).func(fn)
        res.functions.add(fobj.key)
        key = f"{fobj.key}:{what}"
        res.ob(key)
        guard = None
        for n in ast.walk(fobj.node):
            if isinstance(n, ast.If) and any(marker in ast.unparse(b) for b in n.body) and not any(isinstance(x, ast.If) and any(marker in ast.unparse(bb) for bb in x.body) for b in n.body for x in ast.walk(b) if x is not n):
                guard = n
        if guard is None:
            res.fail(key, f"{fn}: no conditional statement involving `{marker}` found", repo.mod(modname).line(fobj.node))
            return
        for nm in REALOF:
            it = np_stubs(_I(repo, load_classes(repo), primary=modname))
            env = {"scalar_type": _DT(nm), "options": {"scalar_type": _DT(nm)}}
            it.ctx.append(repo.mod(modname))
            try:
                taken = bool(it.truth(it.expr(guard.test, env)))
            except _R as e:
                taken = f"raises {e.what}"
            finally:
                it.ctx.pop()
            if taken is not (nm.startswith("complex") == want_for_complex):
                res.fail(key, f"{fn}: for scalar type {nm} the branch with `{marker}` is {'taken' if taken is True else 'not taken' if taken is False else taken}; it must be "
                         f"taken exactly for {'complex' if want_for_complex else 'real'} scalar types", repo.mod(modname).line(guard))
                return

    gate("ffcx.analysis", "_analyze_expression", "remove_complex_nodes", False, "remove-complex-nodes")
    # <complex.h> is included exactly for complex scalar types: the C file generator is interpreted per scalar type and its text read back
    from .genintegral import sample_file_output

    fg = repo.mod("ffcx.codegeneration.C.file").func("generator")
    res.functions.add(fg.key)
    key = f"{fg.key}:complex.h"
    res.ob(key)
    from ..npmodel import DT as _DT, KIND as _KIND, name_of as _name_of
    # the option is "dtype-like": the canonical names, NumPy's other spellings of the same types, dtype objects and scalar classes
    spellings = ["float32", "float64", "complex64", "complex128", "cdouble", "csingle", "c16", "D", "F", "double", "f4", _DT("complex128"), _DT("float32"), "np.complex64"]
    for nm in spellings:
        try:
            (pre, _post), _g = sample_file_output(repo, "C", nm)
        except _R as e:
            res.fail(key, f"C file generator raises ({e.what}) for scalar type {nm!r}", repo.mod("ffcx.codegeneration.C.file").line(fg.node))
            break
        has = any(re.search(r"#\s*include\s*<complex\.h>", t_) for t_ in pre)
        if has != (_KIND[_name_of(nm)] == "complexfloating"):
            res.fail(key, f"for scalar type {nm!r} the generated files {'include' if has else 'do not include'} <complex.h>; it must be included exactly for complex scalar "
                     "types (`double _Complex`, `I`, `creal` are used by complex kernels; in real mode `I` would shadow user identifiers)",
                     repo.mod("ffcx.codegeneration.C.file").line(fg.node), props=("C09", "C19"))
            break
    an = repo.mod("ffcx.analysis")
    f = an.func("_analyze_form")
    key = f"{f.key}:complex_mode"
    res.ob(key)
    cfd = [c for c in calls_in(f.node) if (call_name(c) or "").endswith("compute_form_data")]
    cm_arg = next((k.value for c in cfd for k in c.keywords if k.arg == "complex_mode"), None)
    if cm_arg is None:
        res.fail(key, "compute_form_data is called without complex_mode", an.line(f.node))
    else:
        bad = None
        for nm in REALOF:
            it = np_stubs(_I(repo, load_classes(repo), primary="ffcx.analysis"))
            env = {"scalar_type": _DT(nm)}
            it.ctx.append(an)
            try:
                for st in ast.walk(f.node):
                    if isinstance(st, ast.Assign) and len(st.targets) == 1 and isinstance(st.targets[0], ast.Name) and isinstance(cm_arg, ast.Name) \
                            and st.targets[0].id == cm_arg.id:
                        env[cm_arg.id] = it.expr(st.value, env)
                val = it.expr(cm_arg, env)
            except (_R, AnalysisError) as e:
                val = f"not evaluable ({e})"
            finally:
                it.ctx.pop()
            if val is not nm.startswith("complex"):
                bad = (nm, val)
                break
        if bad:
            res.fail(key, f"UFL's complex_mode is {bad[1]} for scalar type {bad[0]}; it must be `scalar type is complex` (sesquilinear forms, conj/real/imag kept)", an.line(f.node))
    comp = repo.mod("ffcx.compiler").func("compile_ufl_objects")
    key = f"{comp.key}:scalar-type-to-analysis"
    res.ob(key)
    if "analyze_ufl_objects(ufl_objects, options['scalar_type'])" not in ast.unparse(comp.node):
        res.fail(key, "analysis is not run with options['scalar_type']", comp.module.line(comp.node))


@rule(
    "KERNEL-PROLOGUE",
    ["C07", "C18"],
    "whatever the C and numba integral and expression generators put around the generated body is free of effects on the kernel "
    "arguments: the generators are interpreted on a sample IR with the body replaced by a marker and the emitted text is read back - "
    "C: only `{` between signature and body and `}` after it; numba: the prologue parses as Python and consists exactly of "
    "`name = numba.carray(_name, (size))` views, nothing follows the body",
    min_instances=8,
)
def kernel_prologue(repo, res):
    """The generators are interpreted on a sample IR with the kernel body replaced by a marker (genintegral.sample_kernel_text); what the
    emitted text has between the kernel's signature and the marker, and after it, is read back."""
    import re
    import textwrap

    from ..absint import Raised
    from .genintegral import MARK, TABLE_DECL, sample_kernel_text

    for be in ("C", "numba"):
        for kind in ("integral", "expression"):
            for scalar in ("float64", "complex64"):
                try:
                    text, obj, g = sample_kernel_text(repo, be, kind, scalar)
                except Raised as e:
                    g = repo.mod(f"ffcx.codegeneration.{be}.{kind}").func("generator")
                    key = f"{g.key}:prologue:{scalar}"
                    res.ob(key)
                    res.fail(key, f"{be} {kind} generator raises ({e.what}) on the sample IR", g.module.line(g.node), props=("C18",) if be == "numba" else ("C07",))
                    continue
                res.functions.add(g.key)
                key = f"{g.key}:prologue:{scalar}"
                res.ob(key)
                loc = g.module.line(g.node)
                if text.count(MARK) != 1:
                    res.fail(key, f"the {be} {kind} generator emits the kernel body {text.count(MARK)} times", loc)
                    continue
                # the formatted body begins with the declaration of its constant table when the sample has one (where that lands: GEN-INTEGRAL)
                body_at = text.index(MARK)
                if TABLE_DECL in text and text.index(TABLE_DECL) + len(TABLE_DECL) == body_at:
                    body_at = text.index(TABLE_DECL)
                if be == "C":
                    m = re.search(rf"\bvoid\s+tabulate_tensor_{re.escape(obj)}\s*\([^)]*\)", text)
                    if not m or m.end() > body_at:
                        res.fail(key, f"the kernel function tabulate_tensor_{obj} does not enclose the generated body", loc)
                        continue
                    between = text[m.end():body_at].strip()
                    after = text[text.index(MARK) + len(MARK):].lstrip()
                    if between != "{" or not after.startswith("}"):
                        res.fail(key, f"the C {kind} kernel has text between its signature and the generated body, or after it: `{between[:80]}` ... `{after[:20]}`: "
                                 "only the generated statements may run (A is accumulated into, inputs are not written)", loc)
                else:
                    m = re.search(rf"(?m)^def\s+tabulate_tensor_{re.escape(obj)}\s*\([^)]*\)\s*:[ \t]*\n", text)
                    if not m or m.end() > body_at:
                        res.fail(key, f"the kernel function tabulate_tensor_{obj} does not enclose the generated body", loc, props=("C18",))
                        continue
                    pro = text[m.end():body_at]
                    try:
                        tree = ast.parse(textwrap.dedent(pro))
                    except SyntaxError as e:
                        res.fail(key, f"numba {kind} prologue is not valid Python: {e}", loc, props=("C18",))
                        continue
                    for st in tree.body:
                        ok = (isinstance(st, ast.Assign) and len(st.targets) == 1 and isinstance(st.targets[0], ast.Name) and isinstance(st.value, ast.Call)
                              and (call_name(st.value) or "") == "numba.carray" and len(st.value.args) == 2 and isinstance(st.value.args[0], ast.Name)
                              and st.value.args[0].id == "_" + st.targets[0].id)
                        if not ok:
                            res.fail(key, f"numba {kind} kernels execute `{ast.unparse(st)}` before the generated body: only views of the arguments may be created there "
                                     "(A must be accumulated into, not reset; inputs must not be written)", loc)
                    # the rest of the function (same or deeper indentation) after the body
                    tail = text[text.index(MARK) + len(MARK):]
                    rest = []
                    for line in tail.split("\n")[1:]:
                        if line.strip() and not line.startswith((" ", "\t")):
                            break
                        rest.append(line)
                    if "".join(rest).strip():
                        res.fail(key, f"numba {kind} kernels execute `{' '.join(x.strip() for x in rest if x.strip())[:80]}` after the generated body", loc)


@rule(
    "NUMBA-COMPLEX-DOMAIN",
    ["C18"],
    "C selects the real or complex math function by the *declared* type of the argument (SCALAR -> csqrt, clog, cpow ...); "
    "NumPy selects it by the run-time type. For functions whose real version has a restricted domain (sqrt, log, power, "
    "arccos, arcsin, arccosh, arctanh) the numba formatter must therefore force a complex argument when the declared type is "
    "SCALAR under a complex scalar type; a handler that never looks at the argument type cannot do so",
    min_instances=1,
)
def numba_complex_domain(repo, res):
    m = repo.mod("ffcx.codegeneration.numba.formatter")
    cands = [f for f in m.funcs.values() if f.node.name == "_" and "MathFunction" in ast.unparse(f.node.args)]
    if len(cands) != 1:
        raise AnalysisError("numba formatter: MathFunction handler not found")
    h = cands[0]
    res.functions.add(h.key)
    key = "numba.formatter:MathFunction:real-domain-functions-in-complex-mode"
    res.ob(key)
    src = ast.unparse(h.node)
    looks_at_type = re.search(r"\.dtype\b|scalar_type|complex", src) is not None
    if not looks_at_type:
        res.fail(key, "the numba MathFunction handler emits np.<function>(args) without regard to the declared type: in a complex128 kernel "
                 "sqrt(-abs(f)) is csqrt(<double _Complex>) = i*sqrt(|f|) in C but np.sqrt(<float>) = nan in numba (likewise ln, power, acos, asin, acosh, atanh "
                 "of real-valued arguments outside the real domain)", m.line(h.node))
