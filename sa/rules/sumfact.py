"""Sum factorisation: the order of the tensor-product rule's flat arrays against the flattened loop index (C10, C01).

SUMFACT-ORDER  Under sum factorisation the quadrature loop is a nest (iq0, iq1[, iq2]) and the rule still carries flat arrays - the
               weights, and the points at which tables *without* tensor factors would be tabulated.  Three functions meet here and have to
               agree on one flattening:
                 - representationutils.create_quadrature_points_and_weights lists the points / weights of the product rule,
                 - definitions.create_quadrature_index builds the MultiIndex whose `global_index` the kernel uses to address flat arrays,
                 - access.table_access decides whether a table without tensor factors is read at all inside the loop nest, and where.
               All three are interpreted: for every (i0, i1[, i2]) the weight read at global_index must be the product of the factors'
               weights, and - if table_access accepts a flat table inside the nest (it may refuse) - the row it reads must be the row that was
               tabulated at the point (x[i0], x[i1][, x[i2]]).  Which order the flat arrays are in is otherwise free (QUAD-MATRIX checks the
               rule as a set of (point, weight) pairs only).
"""

from __future__ import annotations

import itertools
from fractions import Fraction as Fr

from ..absint import Interp, Node, Raised, Rat, _PyCall
from ..lnexec import Exec, ExecError
from ..lnodes_model import load_classes
from ..model import AnalysisError
from ..npmodel import NDArr, install_arrays
from ..registry import rule

RU = "ffcx.ir.representationutils"
DEFS = "ffcx.codegeneration.definitions"
ACC = "ffcx.codegeneration.access"

# a one-dimensional rule that is not symmetric in anything: distinct points, distinct weights
X1 = [Fr(1, 4), Fr(3, 4), Fr(1, 2)]
W1 = [Fr(1, 3), Fr(1, 2), Fr(1, 6)]


def _plain(v):
    if isinstance(v, NDArr):
        return _plain(v.tolist())
    if isinstance(v, dict):
        return {k: _plain(x) for k, x in v.items()}
    if isinstance(v, (list, tuple)):
        return [_plain(x) for x in v]
    return v


def _tensor_rule(repo, cname, ndir):
    """(points, weights, tensor factors) of the product rule on `cname`, as create_quadrature_points_and_weights computes them."""
    it = install_arrays(Interp(repo, load_classes(repo), primary=RU))

    def make_quadrature(ct, degree, rule=None, polyset_type=None):
        if ct != "interval":
            raise AnalysisError(f"the tensor rule on a {cname} asks basix for a rule on {ct}")
        return (NDArr([[x] for x in X1], (len(X1), 1)), NDArr(list(W1), (len(W1),)))
    it.overrides["basix.make_quadrature"] = _PyCall(make_quadrature)
    it.overrides["basix.PolysetType.standard"] = "PolysetType.standard"
    it.overrides["basix.polyset_superset"] = _PyCall(lambda ct, a, b: a)
    it.overrides["basix.quadrature.string_to_type"] = _PyCall(lambda r: f"QuadratureType.{r}")
    it.overrides["_CellType"] = {n_: n_ for n_ in ("interval", "quadrilateral", "hexahedron")}
    it.overrides["np.float64"] = "float64"
    it.overrides["ufl.measure.facet_integral_types"] = ("exterior_facet", "interior_facet")
    it.overrides["ufl.measure.ridge_integral_types"] = ("ridge",)
    it.overrides["ufl.measure.point_integral_types"] = ("vertex",)
    it.overrides["ufl.custom_integral_types"] = ("cutcell", "interface", "overlap", "custom")
    it.overrides["logger"] = Node("Logger", exception=_PyCall(lambda *a: None), info=_PyCall(lambda *a: None))
    cell = Node("Cell", cellname=cname, topological_dimension=ndir, geometric_dimension=ndir, facet_types=[], ridge_types=[])
    out = it.call_f(repo.mod(RU).func("create_quadrature_points_and_weights"), ["cell", cell, 3, "default", [Node("Element", polyset_type="PolysetType.standard")]],
                    {"use_tensor_product": True})
    pts, wts, tf = _plain(out[0]), _plain(out[1]), out[2]
    if cname not in pts or cname not in wts or cname not in dict(tf):
        raise AnalysisError(f"no tensor rule for {cname}")
    return [tuple(p) for p in pts[cname]], list(wts[cname]), dict(tf)[cname]


@rule(
    "SUMFACT-ORDER",
    ["C10", "C01"],
    "the flat arrays of a tensor-product quadrature rule against the flattened index of the loop nest: create_quadrature_points_and_weights, "
    "create_quadrature_index and table_access interpreted together - the weight read at the MultiIndex's global_index is the product of the factors' "
    "weights at (i0, i1[, i2]), and a table without tensor factors, if table_access reads one inside the nest at all, is read at the row that was "
    "tabulated at the point (x[i0], x[i1][, x[i2]])",
    min_instances=4,
)
def sumfact_order(repo, res):
    from .genkernel import _world as _gk_world

    ru, dm, am = repo.mod(RU), repo.mod(DEFS), repo.mod(ACC)
    cq, cqi, ta = ru.func("create_quadrature_points_and_weights"), dm.func("create_quadrature_index"), am.func("FFCXBackendAccess.table_access")
    res.functions.update({cq.key, cqi.key, ta.key})
    n = len(X1)
    for cname, ndir in (("quadrilateral", 2), ("hexahedron", 3)):
        kw, kt = f"{cqi.key}:{cname}:weights-at-global-index", f"{ta.key}:{cname}:flat-table-row-at-global-index"
        res.ob(kw)
        res.ob(kt)
        try:
            pts, wts, tf = _tensor_rule(repo, cname, ndir)
        except Raised as e:
            res.fail(kw, f"create_quadrature_points_and_weights raises ({e.what}) for a cell integral on a {cname} with use_tensor_product=True", ru.line(cq.node))
            continue
        it = _gk_world(repo)
        REAL, INT = "DataType.REAL", "DataType.INT"
        qrule = Node("QuadratureRule", points=NDArr([list(p) for p in pts], (len(pts), ndir)), weights=NDArr(list(wts), (len(wts),)), has_tensor_factors=True,
                     tensor_factors=list(tf), id=_PyCall(lambda: "r0"))
        try:
            mi = it.call_f(cqi, [qrule, it.construct("Symbol", ["iq", INT], {})])
        except Raised as e:
            res.fail(kw, f"create_quadrature_index raises ({e.what}) for the tensor rule of a {cname}", dm.line(cqi.node))
            continue
        if not isinstance(mi, Node) or "global_index" not in mi.f:
            raise AnalysisError("create_quadrature_index did not return a MultiIndex with a global index")
        gi = mi.f["global_index"]
        names = [s_.f["name"] for s_ in mi.f["symbols"]] if "symbols" in mi.f else None
        if not names or len(names) != ndir:
            res.fail(kw, f"the quadrature index of a tensor rule on a {cname} has {len(names or [])} loop variables, expected one per direction ({ndir})", dm.line(cqi.node))
            continue
        # the flat table accessor inside the nest
        symbols = it.overrides["FFCXBackendSymbols"].fn({}, {}, {})
        access = it.overrides["FFCXBackendAccess"].fn("cell", "cell", symbols, {})
        td = Node("UniqueTableReferenceT", name="FE0", is_uniform=False, is_piecewise=False, is_permuted=False, tensor_factors=None, has_tensor_factorisation=False,
                  ttype="varying", offset=0, block_size=1, values=None, tensor_permutation=None)
        symbols.f["element_tables"]["FE0"] = it.construct("Symbol", ["FE0", REAL], {})
        icx = it.construct("MultiIndex", [[it.construct("Symbol", ["ic", INT], {})], [2]], {})
        try:
            out = it.call_f(ta, [access, td, "cell", None, mi, icx])
            texpr = out[0] if isinstance(out, tuple) else out
        except Raised as e:
            texpr = None
            res.notes.append(f"table_access refuses a table without tensor factors inside the loop nest of a {cname} ({e.what.split(':')[0]}): the order of the rule's "
                             "flat point list is not observable through tables")
        for idx in itertools.product(range(n), repeat=ndir):
            ex = Exec(outputs=(), concrete={}, extents={"FE0": (1, 1, n ** ndir, 2)})
            ex.loopvars.update({nm: i for nm, i in zip(names, idx)})
            ex.loopvars["ic"] = 1
            try:
                kk = ex.index(gi)
            except ExecError as e:
                res.fail(kw, f"the global index of the quadrature loop nest on a {cname} cannot be evaluated at {dict(zip(names, idx))}: {e}", dm.line(cqi.node))
                break
            want_w = Fr(1)
            for i in idx:
                want_w *= W1[i]
            if not isinstance(kk, int) or not (0 <= kk < len(wts)) or wts[kk] != want_w:
                got_w = wts[kk] if isinstance(kk, int) and 0 <= kk < len(wts) else "out of range"
                res.fail(kw, f"{cname}: at loop indices {dict(zip(names, idx))} the kernel reads weights[{kk}] = {got_w}; the product of the factors' weights there is "
                         f"{want_w}: the flat weights are not listed in the order of the MultiIndex's global index", ru.line(cq.node))
                break
            if texpr is not None:
                try:
                    got = ex.ev(texpr)
                except ExecError as e:
                    res.fail(kt, f"{cname}: the access to a table without tensor factors inside the loop nest fails at {dict(zip(names, idx))}: {e}", am.line(ta.node))
                    break
                want_pt = tuple(X1[i] for i in idx)
                rows = [q for q in range(len(pts)) if got == Rat.var(f"FE0{[0, 0, q, 1]}")]
                if len(rows) != 1 or pts[rows[0]] != want_pt:
                    where = f"row {rows[0]}, tabulated at {tuple(str(c) for c in pts[rows[0]])}" if len(rows) == 1 else f"{got!r}"
                    res.fail(kt, f"{cname}: inside the sum-factorised loop nest, at {dict(zip(names, idx))} - the point {tuple(str(c) for c in want_pt)} - a table without "
                             f"tensor factors is read at {where}: the rule's flat point list (which such tables are tabulated at) and the flattened loop index "
                             "disagree, so with sum_factorization=True the kernel evaluates that function at a mirrored point", am.line(ta.node))
                    break
