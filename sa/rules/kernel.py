"""Kernel shape rules (C07, C05, C08, C02 and parts of C01/C04).

ACCUMULATE-ONLY    the element tensor is only ever the target of `+=`; kernel inputs are never a
                   target; every other target is declared in the same function
NO-MUTABLE-STATIC  `static` is emitted only together with `const`; tables are const
ACCESSOR-ONLY      w / c / entity_local_index / quadrature_permutation are subscripted only by their
                   accessor functions, with the offset tables of the same object
PREFIX-OFFSETS     coefficient and constant offsets are exclusive prefix sums over the documented
                   sequences; interior facets double the coefficient stride
SLOT-RESTRICTION   slot 1 of entity_local_index / quadrature_permutation exactly for restriction "-"
MACRO-DOUBLING     tensor shape, '-' dof shift, '-' coordinate shift agree with the ufcx.h macro layout
BOUND-SAMESRC      loop ranges and table/array indices come from one MultiIndex built from the same table
"""

from __future__ import annotations

import ast
import re

from ..cfg import CFG
from ..flow import Slicer
from ..model import AnalysisError, call_name, calls_in, const_value, dotted, kwarg, walk_no_nested
from ..registry import rule

SYMBOLS = "ffcx.codegeneration.symbols"
INPUT_ATTRS = {"coefficients": "w", "constants": "c", "coordinate_dofs": "coordinate_dofs",
               "entity_local_index": "entity_local_index", "quadrature_permutation": "quadrature_permutation"}
ASSIGN_CLASSES = {"Assign": "=", "AssignAdd": "+=", "AssignSub": "-=", "AssignMul": "*=", "AssignDiv": "/="}
GEN_PREFIX = "ffcx.codegeneration"


def _root_kind_through_callers(m, f, sl, expr, symtab) -> str:
    """As _root_kind; when the lvalue's root is a parameter of `f`, the argument bound to it at every call site of `f` in its module
    is classified in the caller (one level: a helper that receives the tensor / an input symbol from its caller)."""
    kind = _root_kind(sl, expr, symtab)
    if kind != "other":
        return kind
    roots = {n.id for e in sl.expand(expr, depth=4) for n in ast.walk(e) if isinstance(n, ast.Name)}
    params = [a.arg for a in f.node.args.args]
    hit = [p_ for p_ in params if p_ in roots and p_ != "self"]
    if not hit:
        return kind
    short = f.node.name
    kinds = set()
    for g in m.funcs.values():
        if g is f:
            continue
        gsl = None
        for c in calls_in(g.node):
            nm = call_name(c) or ""
            if nm.split(".")[-1] != short:
                continue
            skip = 1 if (params and params[0] == "self" and isinstance(c.func, ast.Attribute)) else 0
            bound = {}
            for i, a in enumerate(c.args):
                if i + skip < len(params):
                    bound[params[i + skip]] = a
            for kw_ in c.keywords:
                if kw_.arg:
                    bound[kw_.arg] = kw_.value
            for p_ in hit:
                if p_ in bound:
                    gsl = gsl or Slicer(g.node)
                    kinds.add(_root_kind(gsl, bound[p_], symtab))
    if "A" in kinds:
        return "A"
    for k in kinds:
        if k != "other":
            return k
    return "other"


def _symbol_table(repo):
    """attribute name of FFCXBackendSymbols -> C identifier, read from __init__."""
    m = repo.mod(SYMBOLS)
    init = m.func("FFCXBackendSymbols.__init__")
    out = {}
    for n in walk_no_nested(init.node):
        if isinstance(n, ast.Assign) and isinstance(n.targets[0], ast.Attribute) and isinstance(n.value, ast.Call) \
                and (call_name(n.value) or "").endswith("Symbol") and n.value.args and isinstance(n.value.args[0], ast.Constant):
            out[n.targets[0].attr] = n.value.args[0].value
    for need in ("element_tensor", "coefficients", "constants", "coordinate_dofs", "entity_local_index", "quadrature_permutation"):
        if need not in out:
            raise AnalysisError(f"FFCXBackendSymbols.{need} symbol not found")
    return out


def _root_kind(sl: Slicer, expr, symtab) -> str:
    """Classify the array/symbol an lvalue expression denotes: 'A', an input name, or 'other'."""
    inv = {v: k for k, v in symtab.items()}
    texts = sl.expand(expr, depth=4)
    kinds = set()
    for e in texts:
        for n in ast.walk(e):
            if isinstance(n, ast.Attribute) and n.attr in symtab:
                kinds.add(n.attr)
            if isinstance(n, ast.Call) and (call_name(n) or "").endswith("Symbol") and n.args and isinstance(n.args[0], ast.Constant) \
                    and n.args[0].value in inv:
                kinds.add(inv[n.args[0].value])
    if "element_tensor" in kinds:
        return "A"
    for k in kinds:
        if k in INPUT_ATTRS:
            return INPUT_ATTRS[k]
    return "other"


@rule(
    "ACCUMULATE-ONLY",
    ["C07", "C01", "C04"],
    "every construction of an LNodes assignment in the generators is enumerated: the element tensor A "
    "is a target only of AssignAdd and is never read; the kernel inputs (w, c, coordinate_dofs, "
    "entity_local_index, quadrature_permutation) are never a target; any other target is declared "
    "(VariableDecl / non-const ArrayDecl) by the same function. A function whose only stores are "
    "`A[...] +=` and block-local temporaries computes A + T(inputs) independent of prior contents, "
    "earlier calls and other threads",
    min_instances=10,
)
def accumulate_only(repo, res):
    symtab = _symbol_table(repo)
    lm = repo.mod("ffcx.codegeneration.lnodes")
    # operator spelling of the assignment classes
    for cname, op in ASSIGN_CLASSES.items():
        key = f"lnodes:{cname}.op"
        res.ob(key)
        v = repo.class_attr(lm, cname, "op")
        if not (isinstance(v, ast.Constant) and v.value == op):
            res.fail(key, f"{cname}.op is {ast.unparse(v) if v is not None else None}, expected {op!r}: accumulation would be emitted as a different assignment", lm.rel)
    n_sites = 0
    for m in repo.modules.values():
        if not m.name.startswith(GEN_PREFIX) or m.name.endswith(".lnodes") or ".formatter" in m.name:
            continue
        for f in m.funcs.values():
            sl = None
            # local aliases of assignment constructors: `assign = L.AssignAdd if cond else L.Assign`
            aliases = {}
            for n in walk_no_nested(f.node):
                if isinstance(n, ast.Assign) and len(n.targets) == 1 and isinstance(n.targets[0], ast.Name):
                    refs = {(dotted(x) or "").split(".")[-1] for x in ast.walk(n.value) if isinstance(x, (ast.Attribute, ast.Name))}
                    refs &= set(ASSIGN_CLASSES)
                    if refs and not isinstance(n.value, ast.Call):
                        aliases.setdefault(n.targets[0].id, set()).update(refs)
            for c in calls_in(f.node):
                nm = (call_name(c) or "").split(".")[-1]
                possible = None
                if nm in ASSIGN_CLASSES:
                    possible = {nm}
                elif isinstance(c.func, ast.Name) and c.func.id in aliases:
                    possible = aliases[c.func.id]
                if not possible or not c.args:
                    continue
                if sl is None:
                    sl = Slicer(f.node)
                    res.functions.add(f.key)
                n_sites += 1
                tgt = c.args[0]
                kind = _root_kind_through_callers(m, f, sl, tgt, symtab)
                if len(possible) > 1 or nm not in ASSIGN_CLASSES:
                    worst = sorted(possible - {"AssignAdd"})
                    nm = worst[0] if worst else "AssignAdd"
                key = f"{f.key}:{nm}:{kind}:{len([k for k in res.instances if k.startswith(f.key)])}"
                res.ob(key)
                if kind == "A":
                    if nm != "AssignAdd":
                        res.fail(f"{f.key}:{nm}:A", f"{f.key} builds `{nm}` on the element tensor: the kernel overwrites / rescales A "
                                 "instead of adding its contribution (result depends on the previous contents of A)", m.line(c))
                elif kind != "other":
                    res.fail(f"{f.key}:{nm}:{kind}", f"{f.key} builds an assignment to the kernel input `{kind}`", m.line(c))
                else:
                    # must be declared in the same function with the same symbol expression
                    ttxt = ast.unparse(tgt.value) if isinstance(tgt, ast.Subscript) else ast.unparse(tgt)
                    base = ttxt
                    mm = re.match(r"L\.ArrayAccess\((\w+),", ttxt)
                    if mm:
                        base = mm.group(1)
                    decls = [d for d in calls_in(f.node) if (call_name(d) or "").split(".")[-1] in ("VariableDecl", "ArrayDecl") and d.args
                             and ast.unparse(d.args[0]) == base]
                    if not decls:
                        res.fail(f"{f.key}:{nm}:undeclared", f"{f.key} assigns to `{ttxt}` which it does not declare: not a block-local temporary",
                                 m.line(c))
                    for d in decls:
                        if (call_name(d) or "").endswith("ArrayDecl"):
                            k = kwarg(d, "const")
                            if k is not None and isinstance(k, ast.Constant) and k.value:
                                res.fail(f"{f.key}:{nm}:const-target", "assignment target is declared const", m.line(d))
                # A must not be read on the right-hand side
                if len(c.args) > 1 and _root_kind(sl, c.args[1], symtab) == "A":
                    res.fail(f"{f.key}:{nm}:reads-A", f"{f.key} reads the element tensor on the right-hand side of an assignment", m.line(c))
    if n_sites < 3:  # integral blocks, expression blocks, coefficient / coordinate definitions: one site each at least
        raise AnalysisError(f"only {n_sites} assignment construction sites found (at least 3 expected: integral blocks, expression blocks, definitions)")
    # any other use of element_tensor: only as AssignAdd target or in `output=[A]` section metadata
    for m in repo.modules.values():
        if not m.name.startswith(GEN_PREFIX):
            continue
        for f in m.funcs.values():
            names_A = set()
            for n in walk_no_nested(f.node):
                if isinstance(n, ast.Assign) and isinstance(n.value, ast.Attribute) and n.value.attr == "element_tensor":
                    for t in n.targets:
                        if isinstance(t, ast.Name):
                            names_A.add(t.id)
            if not names_A:
                continue
            key = f"{f.key}:A-uses"
            res.ob(key)
            for n in walk_no_nested(f.node):
                if isinstance(n, ast.Subscript) and isinstance(n.value, ast.Name) and n.value.id in names_A and isinstance(n.ctx, ast.Load):
                    # allowed only as first argument of AssignAdd
                    ok = False
                    for c in calls_in(f.node):
                        if (call_name(c) or "").endswith("AssignAdd") and c.args and c.args[0] is n:
                            ok = True
                    if not ok:
                        res.fail(key, f"`{ast.unparse(n)}` (element tensor) is used outside an AssignAdd target in {f.key}", m.line(n))


@rule(
    "NO-MUTABLE-STATIC",
    ["C07"],
    "the C formatter emits `static` only in the branch that also emits `const` and only for arrays with "
    "initial values; every table handed to the formatter with values and meant to persist is built with "
    "const=True; non-const arrays (hoisted temporaries) and scalar declarations are plain locals",
    min_instances=12,
)
def no_mutable_static(repo, res):
    fm = repo.mod("ffcx.codegeneration.C.formatter")
    # every string literal mentioning static also says const
    for f in fm.funcs.values():
        for n in walk_no_nested(f.node):
            if isinstance(n, ast.Constant) and isinstance(n.value, str) and re.search(r"\bstatic\b", n.value):
                key = f"{f.key}:static-literal"
                res.ob(key)
                res.functions.add(f.key)
                if not re.search(r"\bstatic\s+const\b", n.value):
                    res.fail(key, f"C formatter emits {n.value!r}: a writable static object makes kernels depend on earlier calls "
                             "and unsafe under threads", fm.line(n))
                # it must be selected by `arr.const`
                par = [x for x in walk_no_nested(f.node) if isinstance(x, ast.IfExp) and any(y is n for y in ast.walk(x.body))]
                if not par or "const" not in ast.unparse(par[0].test):
                    res.fail(key, "`static const` is not selected by the declaration's const flag", fm.line(n))
    # ArrayDecl handler: abstractly, a non-const declaration has no static
    from ..fmt_eval import ANode, Eval, HandlerTable, Str
    from ..lnodes_model import load_classes, precedence_table

    classes = load_classes(repo)
    table = HandlerTable(repo, "ffcx.codegeneration.C.formatter")
    ev = Eval(table, classes, precedence_table(repo))
    for const, has_values, sizes in ((True, True, [3, 4]), (False, True, [3, 4]), (False, False, [3, 4]), (False, True, [70, 90]), (False, False, [70, 90]),
                                     (False, True, [1]), (True, True, [70, 90])):
        key = f"C.formatter:ArrayDecl:const={const}:values={has_values}" + ("" if sizes == [3, 4] else f":sizes={'x'.join(map(str, sizes))}")
        res.ob(key)
        sym = ANode(classes["Symbol"], {"name": Str(["tbl"]), "dtype": "REAL"}, "tbl")
        node = ANode(classes["ArrayDecl"], {"symbol": sym, "sizes": list(sizes), "values": ("VALUES" if has_values else None), "const": const}, "decl")
        try:
            text = ev.render(ev.skeleton(node))
        except AnalysisError as e:
            raise AnalysisError(f"ArrayDecl handler not interpretable: {e}")
        has_static = bool(re.search(r"\bstatic\b", text))
        if const and not re.match(r"static const ", text):
            res.fail(key, f"a const table is emitted as `{text[:50]}`: not `static const` (re-initialised on every call or writable)", fm.rel)
        if not const and has_static:
            res.fail(key, f"a non-const array is emitted as `{text[:50]}`: writable static storage shared by all calls and threads", fm.rel)
        if not has_values and "=" in text:
            res.fail(key, f"an array without values is emitted with an initialiser `{text[:50]}`", fm.rel)
    # construction sites
    for m in repo.modules.values():
        if not m.name.startswith(GEN_PREFIX) or m.name.endswith(".lnodes") or ".formatter" in m.name:
            continue
        for f in m.funcs.values():
            for c in calls_in(f.node):
                if (call_name(c) or "").split(".")[-1] != "ArrayDecl":
                    continue
                key = f"{f.key}:ArrayDecl:{ast.unparse(c.args[0]) if c.args else '?'}"
                res.ob(key)
                res.functions.add(f.key)
                k = kwarg(c, "const")
                is_const = isinstance(k, ast.Constant) and bool(k.value)
                if not is_const and "optimizer" not in m.name:
                    res.fail(key, f"{f.key} declares a table without const=True: it is emitted as a writable local that is "
                             "re-initialised on every call (or, if made static, shared mutable state)", m.line(c))
    # the kernel part of the C templates declares nothing static/global between the braces besides the body slot
    for kind, slot in (("integral", "tabulate_tensor"), ("expression", "tabulate_expression")):
        tm = repo.mod(f"ffcx.codegeneration.C.{kind}_template")
        t = const_value(tm.assign("factory"))
        key = f"C.{kind}_template:kernel-body"
        res.ob(key)
        mm = re.search(r"void\s+tabulate_tensor_\{factory_name\}\s*\([^)]*\)\s*\{\{\s*(.*?)\s*\}\}", t, re.S)
        if not mm or mm.group(1).strip() != "{" + slot + "}":
            res.fail(key, f"the kernel body of the C {kind} template is not just the generated body slot: `{mm.group(1)[:60] if mm else '?'}`", tm.rel)


@rule(
    "ACCESSOR-ONLY",
    ["C05", "C08"],
    "w is subscripted only by coefficient_dof_access[_blocked] with coefficient_offsets[<the same "
    "coefficient>]; c only by constant_index_access with original_constant_offsets[<the same constant>]; "
    "entity_local_index only inside symbols.entity after the early return for cells; "
    "quadrature_permutation only under tabledata.is_permuted",
    min_instances=8,
)
def accessor_only(repo, res):
    symtab = _symbol_table(repo)
    sm = repo.mod(SYMBOLS)
    allowed = {
        "coefficients": {"FFCXBackendSymbols.coefficient_dof_access", "FFCXBackendSymbols.coefficient_dof_access_blocked"},
        "constants": {"FFCXBackendSymbols.constant_index_access"},
        "entity_local_index": {"FFCXBackendSymbols.entity"},
        "quadrature_permutation": {"FFCXBackendSymbols.element_table", "FFCXBackendAccess.table_access"},
        "coordinate_dofs": {"FFCXBackendSymbols.domain_dof_access", "FFCXBackendDefinitions._define_coordinate_dofs_lincomb"},
    }
    for m in repo.modules.values():
        if not m.name.startswith(GEN_PREFIX):
            continue
        for f in m.funcs.values():
            sl = None
            for n in walk_no_nested(f.node):
                if not (isinstance(n, ast.Subscript) and isinstance(n.ctx, ast.Load)):
                    continue
                if sl is None:
                    sl = Slicer(f.node)
                base = n.value
                attr = None
                for e in sl.expand(base, depth=3):
                    for x in ast.walk(e):
                        if isinstance(x, ast.Attribute) and x.attr in allowed and x is e:
                            attr = x.attr
                        if isinstance(x, ast.Call) and x is e and (call_name(x) or "").endswith("Symbol") and x.args \
                                and isinstance(x.args[0], ast.Constant) and x.args[0].value in {symtab[a] for a in allowed}:
                            attr = [a for a in allowed if symtab[a] == x.args[0].value][0]
                if attr is None:
                    continue
                key = f"{f.key}:subscript:{symtab[attr]}"
                res.ob(key)
                res.functions.add(f.key)
                if f.qualname not in allowed[attr]:
                    res.fail(key, f"`{ast.unparse(n)[:60]}` subscripts the kernel argument `{symtab[attr]}` outside its accessor "
                             f"({', '.join(sorted(allowed[attr]))}): the packing contract is bypassed", m.line(n))
    # the accessors of constants and directly referenced coefficient dofs are interpreted: which element of c / w do they read?
    from ..absint import Interp as _I2, Node as _N2, Raised as _R2
    from ..lnexec import Exec as _Exec2
    from ..lnodes_model import load_classes as _lc2

    am = repo.mod("ffcx.codegeneration.access")
    it2 = _I2(repo, _lc2(repo), primary="ffcx.codegeneration.access")
    it2.obj_classes.update({"FFCXBackendSymbols": SYMBOLS, "FFCXBackendAccess": "ffcx.codegeneration.access"})
    k0, k1 = _N2("Constant", name="k0"), _N2("Constant", name="k1")
    c0, c1 = _N2("Coefficient", name="f0"), _N2("Coefficient", name="f1")
    sy = _N2("FFCXBackendSymbols", coefficients=it2.construct("Symbol", ["w", "DataType.SCALAR"], {}), constants=it2.construct("Symbol", ["c", "DataType.SCALAR"], {}),
             coefficient_offsets={c0: 0, c1: 6}, original_constant_offsets={k0: 0, k1: 4}, coefficient_numbering={c0: 0, c1: 1})
    ac = _N2("FFCXBackendAccess", symbols=sy, entity_type="cell", integral_type="cell")
    init_ = am.funcs.get("FFCXBackendAccess.__init__")
    if init_ is not None:
        it2.init_object(ac, init_, ["cell", "cell", sy, {}])   # plain per-kernel state the accessors rely on
        ac.f.update(symbols=sy, entity_type="cell", integral_type="cell")

    def where(acc):
        ex = _Exec2(())
        return acc.f["array"].f["name"], tuple(ex.index(i) for i in acc.f["indices"])

    # accessor bodies, interpreted: which element of w / c do they address?
    for fn_, args_, want_, why_ in (
            ("coefficient_dof_access", [c1, 2], ("w", (8,)), "w[coefficient_offsets[coefficient] + dof_index] (second coefficient, offset 6, dof 2)"),
            ("constant_index_access", [k1, 3], ("c", (7,)), "c[original_constant_offsets[constant] + index] (second constant, offset 4, index 3)")):
        f = sm.func(f"FFCXBackendSymbols.{fn_}")
        res.functions.add(f.key)
        key = f"{f.key}:offset-of-same-{'coefficient' if fn_.startswith('coeff') else 'constant'}"
        res.ob(key)
        try:
            got = where(it2.call_f(f, [sy] + list(args_)))
        except (_R2, KeyError, AttributeError) as e:
            got = f"raises {e}"
        if got != want_:
            res.fail(key, f"{fn_} addresses {got}, expected {want_[0]}{list(want_[1])}: {why_}", sm.line(f.node))
    f = sm.func("FFCXBackendSymbols.coefficient_dof_access_blocked")
    res.functions.add(f.key)
    key = f"{f.key}:offset-of-same-coefficient"
    res.ob(key)
    try:
        out_ = it2.call_f(f, [sy, c1, 2, 3, 1])
        got = where(out_[1]) if isinstance(out_, tuple) and len(out_) == 2 else f"returns {out_!r}"
    except (_R2, KeyError, AttributeError) as e:
        got = f"raises {e}"
    if got != ("w", (13,)):
        res.fail(key, f"coefficient_dof_access_blocked(second coefficient [offset 6], index 2, block size 3, dof offset 1) addresses {got}, expected w[13] = "
                 "w[offset + index*block_size + dof_offset]", sm.line(f.node))
    f = am.func("FFCXBackendAccess.constant")
    res.functions.add(f.key)
    key = f"{f.key}:flat-component"
    res.ob(key)
    try:
        got = where(it2.call_f(f, [ac, _N2("ModifiedTerminal", terminal=k1, flat_component=3, component=(1, 0), restriction=None), None, None]))
    except (_R2, KeyError, AttributeError) as e:
        got = f"raises {e}"
    if got != ("c", (7,)):
        res.fail(key, f"component 3 of the second constant (offset 4) is read at {got}, expected c[7]: constants are read at c[offset(constant) + flat component] "
                 "(row-major flattening)", am.line(f.node))
    f = am.func("FFCXBackendAccess.coefficient")
    res.functions.add(f.key)
    key = f"{f.key}:direct-dof"
    res.ob(key)
    td = _N2("UniqueTableReferenceT", ttype="ones", values=_N2("ndarray", shape=(1, 1, 1, 1), size=1), offset=2, block_size=1)
    try:
        got = where(it2.call_f(f, [ac, _N2("ModifiedTerminal", terminal=c1, restriction=None, flat_component=0, component=()), td, None]))
    except (_R2, KeyError, AttributeError) as e:
        got = f"raises {e}"
    if got != ("w", (8,)):
        res.fail(key, f"a directly referenced dof (real element, table offset 2) of the second coefficient (offset 6) is read at {got}, expected w[8]", am.line(f.node))
    # the same single-dof component on both sides of an interior facet, and again: every request gets the slot of ITS restriction
    key = f"{f.key}:direct-dof:both-sides"
    res.ob(key)
    seq = [("+", 2, 8), ("-", 5, 11), ("+", 2, 8), ("-", 5, 11)]
    for restr, off, want_i in seq:
        td = _N2("UniqueTableReferenceT", ttype="ones", values=_N2("ndarray", shape=(1, 1, 1, 1), size=1), offset=off, block_size=1)
        try:
            got = where(it2.call_f(f, [ac, _N2("ModifiedTerminal", terminal=c1, restriction=restr, flat_component=0, component=()), td, None]))
        except (_R2, KeyError, AttributeError) as e:
            got = f"raises {e}"
        if got != ("w", (want_i,)):
            res.fail(key, f"within one kernel the single-dof coefficient is requested for the restrictions {[r_ for r_, _o, _w in seq]}; the request for {restr!r} "
                     f"(table offset {off}) is read at {got}, expected w[{want_i}]: the \"-\" value lives element-dimension slots after the \"+\" value, "
                     "jump(k) would vanish", am.line(f.node))
            break
    # the definition of coefficient values: GEN-DEFS (interpreted on samples)
    # NULL-pointer guards, by interpretation (objects built by their own constructors): the caller passes NULL for entity_local_index in
    # cell kernels and for quadrature_permutation unless a table is permuted - the access expressions must not mention those arrays then
    from .genkernel import _world as _gk_world

    def mentions(x, name):
        if isinstance(x, _N2):
            if x.cls == "Symbol" and x.f.get("name") == name:
                return True
            return any(mentions(v, name) for v in x.f.values())
        if isinstance(x, (list, tuple)):
            return any(mentions(v, name) for v in x)
        return False

    ef = sm.func("FFCXBackendSymbols.entity")
    key = f"{ef.key}:cell-early-return"
    res.ob(key)
    for restr in (None, "+", "-"):
        itw = _gk_world(repo)
        try:
            symb = itw.overrides["FFCXBackendSymbols"].fn({}, {}, {})
            ent = itw.call_f(ef, [symb, "cell", restr])
        except _R2 as e:
            res.fail(key, f"symbols.entity('cell', {restr!r}) raises ({e.what})", sm.line(ef.node))
            break
        if not (isinstance(ent, _N2) and ent.cls == "LiteralInt" and ent.f.get("value") == 0) or mentions(ent, "entity_local_index"):
            res.fail(key, f"symbols.entity('cell', {restr!r}) is {ent!r}, not the literal 0: cell kernels would dereference entity_local_index (NULL for cell integrals)",
                     sm.line(ef.node))
            break
    am_ = repo.mod("ffcx.codegeneration.access")
    for mm_, g in ((sm, sm.func("FFCXBackendSymbols.element_table")), (am_, am_.func("FFCXBackendAccess.table_access"))):
        key = f"{g.key}:perm-under-is_permuted"
        res.ob(key)
        for restr in (None, "+", "-"):
            for etype in ("facet", "cell"):
                itw = _gk_world(repo)
                try:
                    symb = itw.overrides["FFCXBackendSymbols"].fn({}, {}, {})
                    acc = itw.overrides["FFCXBackendAccess"].fn(etype, "exterior_facet" if etype == "facet" else "cell", symb, {})
                    td_ = _N2("UniqueTableReferenceT", name="FE0", is_uniform=False, is_piecewise=False, is_permuted=False, tensor_factors=None, has_tensor_factorisation=False,
                              ttype="varying", offset=0, block_size=1, values=None, tensor_permutation=None)
                    symb.f["element_tables"]["FE0"] = itw.construct("Symbol", ["FE0", "DataType.REAL"], {})
                    if g.qualname.startswith("FFCXBackendAccess."):
                        iqx = itw.construct("MultiIndex", [[itw.construct("Symbol", ["iq", "DataType.INT"], {})], [3]], {})
                        icx = itw.construct("MultiIndex", [[itw.construct("Symbol", ["ic", "DataType.INT"], {})], [2]], {})
                        out_ = itw.call_f(g, [acc, td_, etype, restr, iqx, icx])
                    else:
                        out_ = itw.call_f(g, [symb, td_, etype, restr])
                except _R2 as e:
                    res.fail(key, f"{g.qualname} raises ({e.what}) for a table without permutation axis", mm_.line(g.node))
                    break
                if mentions(out_, "quadrature_permutation"):
                    res.fail(key, f"{g.qualname}: quadrature_permutation is read for a table that is not permuted ({etype} entity, restriction {restr!r}); the caller "
                             "passes NULL for exterior facets and cells", mm_.line(g.node))
                    break
            else:
                continue
            break


@rule(
    "PREFIX-OFFSETS",
    ["C05", "C01", "C02", "C08"],
    "coefficient offsets are an exclusive prefix sum (store before increment) of width*element dimension "
    "over zip(reduced_coefficients, coefficient_elements), width 2 exactly for interior facets; constant "
    "offsets are an exclusive prefix sum of prod(shape) over original_form.constants(), the same sequence "
    "the form descriptor enumerates; enabled_coefficients flows unmodified from UFL's integral data to "
    "both backends",
    min_instances=9,
)
def prefix_offsets(repo, res):
    from ..absint import Interp, Node, Raised, _PyCall
    from ..lnodes_model import load_classes
    from ..sliceint import value_of

    from ._irsamples import IRSamples, named

    rep = repo.mod("ffcx.ir.representation")
    S = IRSamples(repo)
    interp, integral_env = S.interp, S.integral_env
    f = rep.func("_compute_integral_ir")
    res.functions.add(f.key)

    def run(func, env, what, **kw):
        try:
            return value_of(interp(), func, env, **kw)
        except Raised as e:
            return f"raises {e.what}"

    for itype in ("cell", "exterior_facet", "interior_facet", "vertex", "ridge"):
        width = 2 if itype == "interior_facet" else 1
        key = f"{f.key}:prefix:coefficient_offsets:{itype}"
        res.ob(key)
        got = named(run(f, integral_env(itype), "coefficient offsets", key="coefficient_offsets"))
        want = [("B", 0), ("C", 3 * width)]
        if got != want:
            res.fail(key, f"{itype} integral with reduced coefficients [B (dim 3), C (dim 4)]: coefficient offsets into w are {got}, expected {want}; ufcx.h: "
                     "w[coefficient][restriction][dof], an exclusive prefix sum of the element dimensions, with two restrictions exactly on interior facets",
                     rep.line(f.node))
    # a coefficient this integral does not use still occupies its slots: the caller packs ALL form coefficients into w
    for itype in ("cell", "interior_facet"):
        width = 2 if itype == "interior_facet" else 1
        key = f"{f.key}:prefix:coefficient_offsets:disabled-coefficients:{itype}"
        res.ob(key)
        for enabled in ((False, True, True), (True, False, True), (False, False, True)):
            got = named(run(f, integral_env(itype, coefs=("A", "B", "C"), enabled=enabled), "coefficient offsets", key="coefficient_offsets"))
            want = [("A", 0), ("B", 6 * width), ("C", 9 * width)]
            if got != want:
                res.fail(key, f"{itype} integral of a form with coefficients [A (dim 6), B (dim 3), C (dim 4)] of which {list(enabled)} are used by this integral: offsets "
                         f"into w are {got}, expected {want}; the UFCx caller packs every coefficient of the form, used or not", rep.line(f.node))
                break
    key = f"{f.key}:numbering"
    res.ob(key)
    got = named(run(f, integral_env("cell"), "numbering", key="coefficient_numbering"))
    if got != [("B", 0), ("C", 1)]:
        res.fail(key, f"coefficient_numbering of the reduced coefficients [B, C] is {got}; it must be the position in reduced_coefficients (B->0, C->1)", rep.line(f.node))
    key = f"{f.key}:prefix:original_constant_offsets"
    res.ob(key)
    got = named(run(f, integral_env("cell"), "constant offsets", key="original_constant_offsets"))
    want_c = [("k0", 0), ("k1", 1), ("k2", 7)]
    if got != want_c:
        res.fail(key, f"constants [k0 (), k1 (2,3), k2 (2,)] of the original form get offsets {got} into c, expected {want_c}: an exclusive prefix sum of prod(shape) "
                 "over original_form.constants(), the sequence the form descriptor enumerates", rep.line(f.node))
    key = f"{f.key}:enabled_coefficients"
    res.ob(key)
    env = integral_env("cell")
    got = run(f, env, "enabled coefficients", key="enabled_coefficients")
    if got != [True, False, True]:
        res.fail(key, f"IntegralIR.enabled_coefficients is {got!r}, UFL's integral data says [True, False, True]", rep.line(f.node))
    # ---- expressions
    g = rep.func("_compute_expression_ir")
    res.functions.add(g.key)

    def run_e(**kw):
        it, env = S.expression(g)
        try:
            return value_of(it, g, env, **kw)
        except Raised as e:
            return f"raises {e.what}"

    key = f"{g.key}:prefix:offsets"
    res.ob(key)
    got = named(run_e(key="coefficient_offsets"))
    if got != [("B", 0), ("C", 3)]:
        res.fail(key, f"expression with processed coefficients [B (dim 3), C (dim 4)] (original [A, B, C]): offsets into w are {got}, expected B->0, C->3", rep.line(g.node))
    key = f"{g.key}:prefix:original_constant_offsets"
    res.ob(key)
    got = named(run_e(key="original_constant_offsets"))
    if got != want_c:
        res.fail(key, f"expression whose original form has constants [k0 (), k1 (2,3), k2 (2,)]: offsets into c are {got}, expected {want_c} (the constants of the "
                 "ORIGINAL expression, the sequence the descriptor's constant names follow)", rep.line(g.node))
    # enabled_coefficients emitted element-wise as 1/0 by both backends: rule GEN-INTEGRAL (generators interpreted)


from ..absint import _PyCall as _PC  # noqa: E402

_PyCallNone = _PC(lambda *a, **k: None)


@rule(
    "SLOT-RESTRICTION",
    ["C02", "C08", "C03"],
    "every selection among the two slots of entity_local_index / quadrature_permutation uses slot 1 "
    "exactly when the restriction is \"-\" and slot 0 otherwise; vertex and ridge entities use slot 0",
    min_instances=4,
)
def slot_restriction(repo, res):
    from ..absint import Interp as _I, Node as _N, Raised as _R
    from ..lnodes_model import load_classes as _lc

    ACC = "ffcx.codegeneration.access"

    def world():
        it = _I(repo, _lc(repo), primary=SYMBOLS)
        it.obj_classes = {"FFCXBackendSymbols": SYMBOLS, "FFCXBackendAccess": ACC}
        it.overrides["logger"] = _N("Logger", exception=_PyCallNone, info=_PyCallNone, debug=_PyCallNone)
        sym = lambda n, t="DataType.INT": it.construct("Symbol", [n, t], {})  # noqa: E731
        symbols = _N("FFCXBackendSymbols", entity_local_index=sym("entity_local_index"), quadrature_permutation=sym("quadrature_permutation"),
                     quadrature_loop_index=sym("iq"), element_tables={})
        access = _N("FFCXBackendAccess", symbols=symbols)
        return it, symbols, access, sym

    def slots(v, arr):
        """constant slots of `arr` selected anywhere in the value (None for a non-constant subscript)"""
        out = []

        def walk(x):
            if isinstance(x, _N):
                if x.cls == "ArrayAccess" and isinstance(x.f.get("array"), _N) and x.f["array"].f.get("name") == arr:
                    i0 = x.f["indices"][0]
                    out.append(int(i0.f["value"]) if isinstance(i0, _N) and i0.cls == "LiteralInt" else None)
                for y in x.f.values():
                    walk(y)
            elif isinstance(x, (list, tuple)):
                for y in x:
                    walk(y)
        walk(v)
        return out

    def table(permuted):
        return _N("UniqueTableReferenceT", name="FE0", is_uniform=False, is_piecewise=False, is_permuted=permuted, tensor_factors=None,
                  has_tensor_factorisation=False)

    # FFCXBackendSymbols.entity
    m = repo.mod(SYMBOLS)
    f = m.func("FFCXBackendSymbols.entity")
    res.functions.add(f.key)
    key = f"{f.key}:entity_local_index:slots"
    res.ob(key)
    for et_ in ("cell", "facet", "vertex", "ridge"):
        for restr in (None, "+", "-"):
            it, symbols, access, sym = world()
            try:
                v = it.call_f(f, [symbols, et_, restr])
            except _R as e:
                res.fail(key, f"entity({et_!r}, {restr!r}) raises ({e.what})", m.line(f.node))
                continue
            got = slots(v, "entity_local_index")
            want = [] if et_ == "cell" else [1 if (restr == "-" and et_ == "facet") else 0]
            if et_ == "cell":
                if got or not (isinstance(v, _N) and v.cls == "LiteralInt" and v.f["value"] == 0):
                    res.fail(key, f"entity('cell', {restr!r}) is {v!r}; cell integrals have the single local entity 0", m.line(f.node))
            elif got != want:
                res.fail(key, f"entity({et_!r}, {restr!r}) selects slot {got} of entity_local_index; slot 1 is the '-' cell's facet and is used exactly for "
                         f"the \"-\" restriction of a facet integral, slot 0 otherwise (expected {want})", m.line(f.node))
    # quadrature_permutation: element_table and table_access
    for modname, q in ((SYMBOLS, "FFCXBackendSymbols.element_table"), (ACC, "FFCXBackendAccess.table_access")):
        m = repo.mod(modname)
        f = m.func(q)
        res.functions.add(f.key)
        key = f"{f.key}:quadrature_permutation:slots"
        res.ob(key)
        key2 = f"{f.key}:quadrature_permutation:minus-wins"
        res.ob(key2)
        for permuted in (True, False):
            for restr in (None, "+", "-"):
                it, symbols, access, sym = world()
                try:
                    if q.endswith("element_table"):
                        v = it.call_f(f, [symbols, table(permuted), "facet", restr])
                    else:
                        symbols.f["element_tables"]["FE0"] = sym("FE0", "DataType.REAL")
                        qi = it.construct("MultiIndex", [[sym("iq")], [4]], {})
                        di = it.construct("MultiIndex", [[sym("ic")], [3]], {})
                        v = it.call_f(f, [access, table(permuted), "facet", restr, qi, di])
                        v = v[0] if isinstance(v, tuple) else v
                except _R as e:
                    res.fail(key, f"{q}(permuted={permuted}, restriction={restr!r}) raises ({e.what})", m.line(f.node))
                    continue
                got = slots(v, "quadrature_permutation")
                want = [1 if restr == "-" else 0] if permuted else []
                if got != want:
                    k_ = key2 if (permuted and restr == "-" and got == [0]) else key
                    res.fail(k_, f"{q}: a table {'with' if permuted else 'without'} permutation axis under restriction {restr!r} is indexed with slot(s) {got} of "
                             f"quadrature_permutation, expected {want}: the '+' cell's reference-facet permutation would be applied to the '-' cell (or vice versa)",
                             m.line(f.node))
    # restriction postfix in names: + -> 0, - -> 1
    m = repo.mod(SYMBOLS)
    f = m.func("ufcx_restriction_postfix")
    key = f"{f.key}:postfix"
    res.ob(key)
    it_ = _I(repo, _lc(repo), primary=SYMBOLS)
    try:
        got = {r_: it_.call_f(f, [r_]) for r_ in ("+", "-", None)}
    except _R as e:
        got = {"raised": e.what}
    if got != {"+": "_0", "-": "_1", None: ""}:
        res.fail(key, f"restriction postfixes are {got}, not '+' -> _0, '-' -> _1, unrestricted -> '': symbols of the two cells get each other's names", m.line(f.node))


def _find(src: str, pattern: str, what: str) -> re.Match:
    """Locate an idiom by its *shape* (local names are wildcards). Missing shape = the rule cannot judge
    (AnalysisError, exit 2); the caller then checks identities between the captured names."""
    m = re.search(pattern, src, re.S)
    if m is None:
        raise AnalysisError(f"idiom not recognised: {what}")
    return m


@rule(
    "MACRO-DOUBLING",
    ["C02", "C08", "C05", "C01", "C03"],
    "the interior-facet macro layout of ufcx.h is encoded consistently: A has 2*dim per argument; the "
    "\"-\" argument/coefficient dofs are shifted by the element dimension (FormArguments only); the \"-\" "
    "coordinates by 3*num_scalar_dofs in both coordinate accessors; coordinate_dofs are addressed with "
    "stride 3",
    min_instances=5,
)
def macro_doubling(repo, res):
    from ..absint import Node as _N0, Raised as _R0, _PyCall as _PC0
    from ..sliceint import value_of
    from ._irsamples import IRSamples

    rep = repo.mod("ffcx.ir.representation")
    f = rep.func("_compute_integral_ir")
    res.functions.add(f.key)
    S = IRSamples(repo)

    def shape_for(itype, part, args):
        env = S.integral_env(itype)
        env["options"] = {"part": part}
        env["form_data"].f["argument_elements"] = list(args)
        env["form_data"].f["rank"] = len(args)
        cel = _N0("CoordinateElement", basix_hash=_PC0(lambda: 77), dim=3)
        env["itg_data"].f["domain"] = _N0("Mesh", ufl_coordinate_element=_PC0(lambda: cel))
        env["entity_type"] = "cell" if itype == "cell" else "facet"
        try:
            return value_of(S.interp(), f, env, key="tensor_shape", final=True)
        except _R0 as e:
            return f"raises {e.what}"

    key = f"{f.key}:tensor_shape"
    res.ob(key)
    for itype in ("cell", "exterior_facet", "interior_facet", "vertex"):
        for args in ([], [S.elB], [S.elB, S.elC]):
            k_ = 2 if itype == "interior_facet" else 1
            want = [k_ * a.f["dim"] for a in args]
            got = shape_for(itype, "full", args)
            if got != want:
                res.fail(key, f"tensor_shape of a rank-{len(args)} {itype} integral with argument dimensions {[a.f['dim'] for a in args]} is {got}, expected {want}; "
                         "ufcx.h: A blocks [+,-]x[+,-], i.e. 2*dim per argument exactly on interior facets", rep.line(f.node),
                         props=("C02", "C08", "C05") + (("C01",) if itype == "cell" else ("C03",) if itype == "interior_facet" else ()))
    key = f"{f.key}:diagonal-shape"
    res.ob(key)
    for itype in ("cell", "interior_facet"):
        k_ = 2 if itype == "interior_facet" else 1
        got = shape_for(itype, "diagonal", [S.elB, S.elB])
        if got != [k_ * 3]:
            res.fail(key, f"part='diagonal' on a bilinear {itype} form with two dim-3 arguments gives tensor_shape {got}, expected {[k_ * 3]} (the diagonal is a vector)",
                     rep.line(f.node), props=("C02", "C08", "C05"))
        got = shape_for(itype, "diagonal", [S.elB])
        if got != [k_ * 3]:
            res.fail(key, f"part='diagonal' changes the tensor shape of a linear form to {got}", rep.line(f.node), props=("C02", "C08", "C05"))
    # '-' dof shift of restricted form arguments in the table references: rule GEN-TABLES (build_optimized_tables interpreted)
    # '-' coordinate shift in the definitions of x and J: decided by GEN-DEFS (the definition functions interpreted on samples)
    # '-' coordinate shift in direct vertex-coordinate access: domain_dof_access interpreted
    from ..absint import Interp as _I, Node as _N, Raised as _R
    from ..lnexec import Exec as _Exec
    from ..lnodes_model import load_classes as _lc

    sm = repo.mod(SYMBOLS)
    d = sm.func("FFCXBackendSymbols.domain_dof_access")
    res.functions.add(d.key)
    it_ = _I(repo, _lc(repo), primary=SYMBOLS)
    it_.obj_classes["FFCXBackendSymbols"] = SYMBOLS
    symbols = _N("FFCXBackendSymbols", coordinate_dofs=it_.construct("Symbol", ["coordinate_dofs", "DataType.REAL"], {}))
    nsd = 3
    for restr in (None, "+", "-"):
        key = f"{d.key}:minus-coordinate-shift:{restr}"
        res.ob(key)
        bad = None
        for dof in (0, 2):
            for comp in (0, 1, 2):
                try:
                    acc = it_.call_f(d, [symbols, dof, comp, 2, nsd, restr])
                    ex = _Exec(())
                    arr = acc.f["array"].f["name"]
                    idx = tuple(ex.index(i) for i in acc.f["indices"])
                except _R as e:
                    bad = f"raises {e.what}"
                    break
                want = (3 * dof + comp + (3 * nsd if restr == "-" else 0),)
                if arr != "coordinate_dofs" or idx != want:
                    bad = f"reads {arr}{list(idx)} for dof {dof}, component {comp}; ufcx.h: coordinate_dofs[restriction][num_dofs][3] -> [{want[0]}]"
                    break
            if bad:
                break
        if bad:
            res.fail(key, f"domain_dof_access with restriction {restr!r} {bad}", sm.line(d.node), props=("C02", "C08", "C01") if restr is None else ("C02", "C08", "C03"))


@rule(
    "BOUND-SAMESRC",
    ["C08", "C01"],
    "each loop the generators create over a table axis is bounded by the MultiIndex that also indexes the "
    "table, created by create_dof_index / create_quadrature_index from the same tabledata / quadrature rule "
    "that names the table; A is flattened with the IR's tensor_shape (integrals) and [num_points, "
    "components] + tensor_shape (expressions); expression loops are bounded by the block dimensions",
    min_instances=10,
)
def bound_samesrc(repo, res):
    dm = repo.mod("ffcx.codegeneration.definitions")
    f = dm.func("create_dof_index")
    res.functions.add(f.key)
    key = f"{f.key}:ranges"
    res.ob(key)
    src = ast.unparse(f.node)
    td = f.params[0]
    m = _find(src, r"return L\.MultiIndex\((?P<i>\w+), (?P<r>\w+)\)", "create_dof_index return")
    r = m.group("r")
    vals = re.findall(rf"\b{r} = ([^\n]+)\n", src)
    want = {f"[{td}.values.shape[-1]]", f"[factor.values.shape[-1] for factor in {td}.tensor_factors]"}
    norm = {re.sub(r"\bfor (\w+) in", "for factor in", re.sub(r"\[(\w+)\.values", "[factor.values", v)) if "tensor_factors" in v else v for v in vals}
    if norm != want:
        res.fail(key, f"create_dof_index takes loop ranges {sorted(vals)}; they must be the last axis of the table (or of its tensor factors)", dm.line(f.node))
    f = dm.func("create_quadrature_index")
    res.functions.add(f.key)
    key = f"{f.key}:ranges"
    res.ob(key)
    src = ast.unparse(f.node)
    qr = f.params[0]
    m = _find(src, r"return L\.MultiIndex\((?P<i>\w+), (?P<r>\w+)\)", "create_quadrature_index return")
    r = m.group("r")
    vals = set(re.findall(rf"\b{r} = ([^\n]+)\n", src))
    ok = {f"[0]", f"[{qr}.weights.size]"} <= vals and any(re.fullmatch(rf"\[(\w+)\[1\]\.size for \1 in {qr}\.tensor_factors\]", v) for v in vals) and len(vals) == 3
    if not ok:
        res.fail(key, f"create_quadrature_index takes loop ranges {sorted(vals)}; they must be the number of weights of the rule", dm.line(f.node))
    # reductions over dofs: coefficient and coordinate lincomb
    for q in ("FFCXBackendDefinitions.coefficient", "FFCXBackendDefinitions._define_coordinate_dofs_lincomb"):
        f = dm.func(q)
        res.functions.add(f.key)
        src = ast.unparse(f.node)
        key = f"{f.key}:one-index-object"
        res.ob(key)
        m1 = _find(src, r"(?P<ic>\w+) = create_dof_index\((?P<td>[\w.]+), \w+\)", f"{q}: dof index creation")
        m2 = _find(src, r"(?P<iq>\w+) = create_quadrature_index\((?P<qr>[\w.]+), \w+\)", f"{q}: quadrature index creation")
        m3 = _find(src, r"table_access\((?P<td>[\w.]+), [\w.]+, (?P<restr>[\w.]+), (?P<iq>\w+), (?P<ic>\w+)\)", f"{q}: table access")
        m4 = _find(src, r"create_nested_for_loops\(\[(?P<ic>\w+)\], \w+\)", f"{q}: summation loop")
        tdp = f.params[2]
        if not (m1.group("td") == m3.group("td") == tdp):
            res.fail(key, f"{q}: the dof index is created from `{m1.group('td')}` but the table accessed is `{m3.group('td')}` (parameter `{tdp}`): "
                     "the loop runs over another table's dof count", dm.line(f.node))
        if not (m1.group("ic") == m3.group("ic") == m4.group("ic")):
            res.fail(key, f"{q}: index created (`{m1.group('ic')}`), index used in the table (`{m3.group('ic')}`) and loop index (`{m4.group('ic')}`) differ", dm.line(f.node))
        if m2.group("iq") != m3.group("iq") or m2.group("qr") != f.params[3]:
            res.fail(key, f"{q}: the quadrature index is not the one created from this terminal's rule", dm.line(f.node))
        if m3.group("restr") != "mt.restriction":
            res.fail(key, f"{q}: the table is accessed with restriction `{m3.group('restr')}`", dm.line(f.node))
        ic = m1.group("ic")
        if not re.search(rf"\({ic}\.global_index\) \* \w+ \+ \w+|{ic}\.global_index \* \w+ \+ \w+", src):
            res.fail(key, f"{q}: the dof array is not addressed with the loop index `{ic}`", dm.line(f.node))
    # coefficient stride/offset come from the same tabledata
    f = dm.func("FFCXBackendDefinitions.coefficient")
    src = ast.unparse(f.node)
    key = f"{f.key}:stride-offset"
    res.ob(key)
    m = _find(src, r"coefficient_dof_access\(\s*mt\.terminal,\s*\(?(?P<ic>\w+)\.global_index\)? \* (?P<bs>\w+) \+ (?P<b>\w+)\s*\)", "coefficient dof address")
    tdp = f.params[2]
    if not re.search(rf"\b{m.group('bs')} = {tdp}\.block_size\b", src) or not re.search(rf"\b{m.group('b')} = {tdp}\.offset\b", src):
        res.fail(key, "coefficient dofs are not addressed with the block size and offset of the same table", dm.line(f.node))
    # integral block parts
    ig = repo.mod("ffcx.codegeneration.integral_generator")
    f = ig.func("IntegralGenerator.generate_block_parts")
    res.functions.add(f.key)
    src = ast.unparse(f.node)
    key = f"{f.key}:B-indices"
    res.ob(key)
    m1 = _find(src, r"(?P<tr>\w+) = blockdata\.ma_data\[(?P<i>\w+)\]\.tabledata\n\s+(?P<sym>\w+) = self\.backend\.symbols\.argument_loop_index\((?P<i2>\w+)\)\n\s+"
                    r"(?P<idx>\w+) = create_dof_index\((?P<tr2>\w+), (?P<sym2>\w+)\)\n\s+(?P<B>\w+)\.append\((?P<idx2>\w+)\)", "argument index creation")
    if not (m1.group("tr") == m1.group("tr2") and m1.group("i") == m1.group("i2") and m1.group("sym") == m1.group("sym2") and m1.group("idx") == m1.group("idx2")):
        res.fail(key, "argument loop indices are not created from the table of the same argument", ig.line(f.node))
    B = m1.group("B")
    m2 = _find(src, r"get_arg_factors\(\s*blockdata, \w+, (?P<qr>\w+), (?P<dom>\w+), (?P<iq>\w+), (?P<B>\w+)\s*\)", "get_arg_factors call")
    m3 = _find(src, r"create_nested_for_loops\((?P<B>\w+), \w+\)", "argument loop nest")
    m4 = _find(src, r"(?P<iq>\w+) = create_quadrature_index\((?P<qr>\w+), \w+\)", "quadrature index")
    if not (m2.group("B") == B == m3.group("B")):
        res.fail(key, f"indices created (`{B}`), passed to the table accesses (`{m2.group('B')}`) and looped over (`{m3.group('B')}`) differ", ig.line(f.node))
    if m2.group("iq") != m4.group("iq") or m2.group("qr") != f.params[1] or m4.group("qr") != f.params[1]:
        res.fail(key, "tables are not accessed at the quadrature index of this block's rule", ig.line(f.node))
    key = f"{f.key}:weights-same-rule"
    res.ob(key)
    mw = _find(src, r"else:\n\s+(?P<w>\w+) = self\.backend\.symbols\.weights_table\((?P<qr>\w+)\)\n\s+(?P<wt>\w+) = (?P<w2>\w+)\[(?P<iq>\w+)\.global_index\]", "weight factor")
    if mw.group("qr") != f.params[1] or mw.group("w") != mw.group("w2") or mw.group("iq") != m4.group("iq"):
        res.fail(key, "the weight factor is not weights_<rule>[iq] of the rule of this loop", ig.line(f.node))
    if not re.search(rf"float_product\(\[\w+, {mw.group('wt')}\]\)", src):
        res.fail(key, "the weight does not multiply the integrand factor", ig.line(f.node))
    key = f"{f.key}:A-shape"
    res.ob(key)
    mm = _find(src, r"(?P<mi>\w+) = L\.MultiIndex\(list\((?P<ind>\w+)\), (?P<sh>[\w.]+)\)", "A multi-index")
    shdef = re.findall(rf"\b{re.escape(mm.group('sh'))} = ([^\n]+)\n", src) if re.fullmatch(r"\w+", mm.group("sh")) else [mm.group("sh")]
    if shdef != ["self.ir.expression.tensor_shape"]:
        res.fail(key, f"A is flattened with `{shdef}` instead of ir.expression.tensor_shape (the extents the caller allocates)", ig.line(f.node))
    if not re.search(rf"AssignAdd\(\w+\[{mm.group('mi')}\], \w+\)", src):
        res.fail(key, "the accumulated entry is not A[multi_index]", ig.line(f.node))
    key = f"{f.key}:A-index"
    res.ob(key)
    mo = _find(src, r"(?P<td>\w+) = blockdata\.ma_data\[(?P<i>\w+)\]\.tabledata\n\s+(?P<off>\w+) = (?P<td2>\w+)\.offset\n", "A offset")
    m5 = _find(src, r"(?P<A>\w+)\.append\((?P<ix>\w+)\.global_index \+ (?P<off>\w+)\)", "A index (unit stride)")
    m6 = _find(src, r"(?P<bs>\w+) = blockdata\.ma_data\[(?P<i>\w+)\]\.tabledata\.block_size\n\s+(?P<A>\w+)\.append\((?P<bs2>\w+) \* (?P<ix>\w+)\.global_index \+ (?P<off>\w+)\)", "A index (strided)")
    mi = _find(src, r"(?P<ix>\w+) = (?P<B>\w+)\[(?P<i>\w+)\]\n", "A loop index")
    if not (mo.group("td") == mo.group("td2") and m5.group("off") == mo.group("off") == m6.group("off") and m6.group("bs") == m6.group("bs2")
            and m5.group("ix") == m6.group("ix") == mi.group("ix") and mi.group("B") == B and mo.group("i") == m6.group("i") == mi.group("i")):
        res.fail(key, "A row/column index is not offset + block_size * (loop index) of the same argument's table", ig.line(f.node))
    g = ig.func("IntegralGenerator.get_arg_factors")
    res.functions.add(g.key)
    key = f"{g.key}:table-access"
    res.ob(key)
    gs = ast.unparse(g.node)
    mg = _find(gs, r"(?P<mad>\w+) = blockdata\.ma_data\[(?P<i>\w+)\]\n\s+(?P<td>\w+) = (?P<mad2>\w+)\.tabledata", "argument table lookup")
    mt_ = _find(gs, r"table_access\(\s*(?P<td>\w+), self\.ir\.expression\.entity_type, (?P<mt>\w+)\.restriction, (?P<iq>\w+), (?P<ind>\w+)\[(?P<i>\w+)\]\s*\)", "argument table access")
    mmt = _find(gs, r"(?P<mt>\w+) = (?P<sc>\w+)\[(?P<mad>\w+)\.ma_index\]", "modified argument lookup")
    if not (mg.group("td") == mt_.group("td") and mg.group("mad") == mg.group("mad2") == mmt.group("mad") and mg.group("i") == mt_.group("i")
            and mt_.group("mt") == mmt.group("mt") and mt_.group("iq") == g.params[5] and mt_.group("ind") == g.params[6]):
        res.fail(key, "argument tables are not accessed with the index, restriction and table of the same argument", ig.line(g.node))
    q = ig.func("IntegralGenerator.generate_quadrature_loop")
    key = f"{q.key}:iq-loop"
    res.ob(key)
    qs = ast.unparse(q.node)
    mq = _find(qs, r"(?P<iq>\w+) = create_quadrature_index\((?P<qr>\w+), \w+\)", "quadrature index of the loop")
    ml = _find(qs, r"create_nested_for_loops\(\[(?P<iq>\w+)\], \w+\)", "quadrature loop")
    if mq.group("iq") != ml.group("iq") or mq.group("qr") != q.params[1]:
        res.fail(key, "the quadrature loop is not the nest of the index created from this rule", ig.line(q.node))
    # nested loop helper
    lm = repo.mod("ffcx.codegeneration.lnodes")
    h = lm.func("create_nested_for_loops")
    key = f"{h.key}:ranges"
    res.ob(key)
    hs = ast.unparse(h.node)
    mr = _find(hs, r"(?P<r>\w+) = \[(?P<x>\w+) for (?P<idx>\w+) in (?P<p>\w+) for (?P<x2>\w+) in (?P<idx2>\w+)\.sizes\]", "ranges of nested loops")
    mi2 = _find(hs, r"(?P<ind>\w+) = \[(?P<idx>\w+)\.local_index\((?P<i>\w+)\) for (?P<idx2>\w+) in (?P<p>\w+) for (?P<i2>\w+) in range\(len\((?P<idx3>\w+)\.sizes\)\)\]", "indices of nested loops")
    mf = _find(hs, r"ForRange\((?P<ind>\w+)\[(?P<i>[^\]]+)\], (?P<b>[^,]+), (?P<r>\w+)\[(?P<i2>[^\]]+)\], body=\[\w+\]\)", "loop construction")
    if not (mr.group("x") == mr.group("x2") and mr.group("idx") == mr.group("idx2") and mi2.group("idx") == mi2.group("idx2") == mi2.group("idx3")
            and mi2.group("i") == mi2.group("i2") and mf.group("i") == mf.group("i2") and mf.group("r") == mr.group("r") and mf.group("b") == "0"
            and mf.group("ind") in (mi2.group("ind"),) and mr.group("p") == h.params[0]):
        res.fail(key, "create_nested_for_loops does not pair each local index with its own size, from 0", lm.line(h.node))
    # expression generator
    eg = repo.mod("ffcx.codegeneration.expression_generator")
    f = eg.func("ExpressionGenerator.generate_block_parts")
    res.functions.add(f.key)
    src = ast.unparse(f.node)
    key = f"{f.key}:A-shape"
    res.ob(key)
    ms = _find(src, r"(?P<sh>\w+) = \[(?P<np>\w+), (?P<nc>\w+)\] \+ self\.ir\.expression\.tensor_shape", "expression A shape")
    if not re.search(rf"\b{ms.group('np')} = self\.quadrature_rule\[1\]\.points\.shape\[0\]", src) or \
            not re.search(rf"\b{ms.group('nc')} = (ufl\.product|np\.prod|math\.prod)\(self\.ir\.expression\.shape", src):
        res.fail(key, "expression A is not flattened as [num_points, prod(value shape)] + tensor_shape", eg.line(f.node))
    n_mi = len(re.findall(rf"L\.MultiIndex\([^\n]*, {ms.group('sh')}\)", src))
    if n_mi < 2:
        res.fail(key, "not every expression A index is flattened with the A shape", eg.line(f.node))
    key = f"{f.key}:loop-bounds"
    res.ob(key)
    mb = _find(src, r"(?P<bd>\w+) = tuple\(\(len\((?P<dm>\w+)\) for (?P<dm2>\w+) in blockmap\)\)", "block dimensions")
    mfr = _find(src, r"L\.ForRange\((?P<B>\w+)\[(?P<i>\w+) \+ 1\], 0, (?P<bd>\w+)\[(?P<i2>\w+)\], body=\w+\)", "expression argument loops")
    if not (mb.group("dm") == mb.group("dm2") and mfr.group("bd") == mb.group("bd") and mfr.group("i") == mfr.group("i2")):
        res.fail(key, "expression argument loops are not bounded by the block's dof count", eg.line(f.node))
    q = eg.func("ExpressionGenerator.generate_quadrature_loop")
    key = f"{q.key}:point-loop"
    res.ob(key)
    qs = ast.unparse(q.node)
    mp = _find(qs, r"(?P<np>\w+) = self\.quadrature_rule\[1\]\.points\.shape\[0\]", "number of points")
    mfp = _find(qs, r"L\.ForRange\((?P<iq>\w+), 0, (?P<np>\w+), body=\w+\)", "point loop")
    if mp.group("np") != mfp.group("np") or not re.search(rf"\b{mfp.group('iq')} = self\.backend\.symbols\.quadrature_loop_index\b", qs):
        res.fail(key, "the point loop is not `for iq in [0, num_points)`", eg.line(q.node))


@rule(
    "RESTRICTION-FLOW",
    ["C02", "C03"],
    "every call of a function that takes a `restriction` (symbols.entity, symbols.domain_dof_access, symbols.element_table, "
    "access.table_access, ...) binds it - through the callee's signature - to the restriction of the modified terminal being "
    "translated (`<mt>.restriction`) or to the caller's own `restriction` parameter; a constant or another terminal's "
    "restriction would make '-' quantities read the '+' cell's entity / coordinates",
    min_instances=12,
)
def restriction_flow(repo, res):
    callees = {}
    for m in repo.modules.values():
        if not m.name.startswith("ffcx.codegeneration"):
            continue
        for f in m.funcs.values():
            ps = [p for p in f.params if p != "self"]
            if "restriction" in ps:
                callees.setdefault(f.node.name, []).append((f, ps))
    if len(callees) < 4:
        raise AnalysisError(f"only {len(callees)} functions with a `restriction` parameter found")
    n = 0
    for m in repo.modules.values():
        if not m.name.startswith("ffcx.codegeneration"):
            continue
        for f in m.funcs.values():
            for c in calls_in(f.node):
                nm = (call_name(c) or "").split(".")[-1]
                if nm not in callees or not isinstance(c.func, ast.Attribute):
                    continue
                sigs = {tuple(ps) for _f, ps in callees[nm]}
                if len(sigs) != 1:
                    raise AnalysisError(f"callee `{nm}` is ambiguous")
                ps = list(sigs.pop())
                bound = {}
                for i, a in enumerate(c.args):
                    if i < len(ps):
                        bound[ps[i]] = a
                for k in c.keywords:
                    if k.arg:
                        bound[k.arg] = k.value
                key = f"{f.key}:{nm}:{n}"
                n += 1
                res.ob(key)
                res.functions.add(f.key)
                a = bound.get("restriction")
                if a is None:
                    res.fail(key, f"{f.qualname}: `{ast.unparse(c)[:70]}` passes no restriction", m.line(c))
                    continue
                t = ast.unparse(a)
                own = "restriction" in f.params and t == "restriction"
                of_mt = isinstance(a, ast.Attribute) and a.attr == "restriction" and isinstance(a.value, ast.Name)
                if not (own or of_mt):
                    res.fail(key, f"{f.qualname}: `{ast.unparse(c)[:80]}` binds restriction to `{t}` instead of the restriction of the terminal being "
                             "translated: for a '-' restricted quantity (n('-') on an interior facet) the '+' cell's local entity / coordinates would be used", m.line(c))


# GEOM-ENTITY (a regex reading of access.py / geometry.py) is retired: geomaccess.GEOM-ACCESS interprets the accessors and the table writers together.


@rule(
    "GEOM-TABLE-MAPS",
    ["C04", "C19"],
    "the integral and the expression generator declare reference-geometry tables from the same map (UFL geometry class -> "
    "table name); every name is one geometry.write_table knows, and every `<cell>_<name>` table symbol an accessor reads is "
    "declared by both maps - otherwise an expression using FacetOrientation / CellRidgeJacobian references an undeclared "
    "identifier and FacetEdgeVectors ends in `Unknown geometry table name`",
    min_instances=3,
)
def geom_table_maps(repo, res):
    def table_map(modname, q):
        m = repo.mod(modname)
        f = m.func(q)
        res.functions.add(f.key)
        for n in ast.walk(f.node):
            if isinstance(n, ast.Assign) and isinstance(n.targets[0], ast.Name) and n.targets[0].id == "ufl_geometry" and isinstance(n.value, ast.Dict):
                return m, f, {ast.unparse(k).split(".")[-1]: const_value(v) for k, v in zip(n.value.keys, n.value.values)}
        raise AnalysisError(f"{q}: ufl_geometry map not found")

    mi, fi, a = table_map("ffcx.codegeneration.integral_generator", "IntegralGenerator.generate_geometry_tables")
    me, fe, b = table_map("ffcx.codegeneration.expression_generator", "ExpressionGenerator.generate_geometry_tables")
    key = "generators:geometry-maps-agree"
    res.ob(key)
    if a != b:
        only_a = {k: v for k, v in a.items() if b.get(k) != v}
        only_b = {k: v for k, v in b.items() if a.get(k) != v}
        res.fail(key, f"geometry table maps differ: integral generator has {only_a}, expression generator has {only_b}: an expression using these quantities gets "
                 "no table declaration (undeclared identifier in the generated C) or an unknown table name", me.line(fe.node))
    gm = repo.mod("ffcx.codegeneration.geometry")
    wt = gm.func("write_table")
    from ..absint import Interp as _IG, Raised as _RG, _PyCall as _PCG
    from ..lnodes_model import load_classes as _lcg

    _known_cache = {}

    def is_known(name):
        """write_table, interpreted together with the per-table writers, accepts the name (whatever the shape of its dispatch)."""
        if name not in _known_cache:
            from ..npmodel import install_arrays as _ia
            from .geomaccess import _install_basix

            it = _ia(_IG(repo, _lcg(repo), primary="ffcx.codegeneration.geometry"))
            _install_basix(it)   # the writers themselves are interpreted, over basix library facts and stand-in arrays
            try:
                out = it.call_f(wt, [name, "tetrahedron"])
                _known_cache[name] = out is not None
            except _RG:
                _known_cache[name] = False
        return _known_cache[name]

    class _Known:
        def __contains__(self, name):
            return isinstance(name, str) and is_known(name)

        def __rsub__(self, other):
            return {x for x in other if x not in self}
    known = _Known()
    key = "generators:geometry-names-known"
    res.ob(key)
    for nm, mp, mod_, f_ in (("integral", a, mi, fi), ("expression", b, me, fe)):
        bad = sorted(set(mp.values()) - known)
        if bad:
            res.fail(key, f"{nm} generator asks geometry.write_table for {bad}, which it does not know (ValueError at code generation)", mod_.line(f_.node))
    am = repo.mod("ffcx.codegeneration.access")
    read = set()
    for q, f in am.funcs.items():
        for n in ast.walk(f.node):
            if isinstance(n, ast.JoinedStr):
                t = "".join(v.value if isinstance(v, ast.Constant) else "{}" for v in n.values)
                mm = re.fullmatch(r"\{\}_(\w+)", t)
                if mm and mm.group(1) in known:
                    read.add(mm.group(1))
    key = "generators:accessed-tables-declared"
    res.ob(key)
    for nm, mp, mod_, f_ in (("integral", a, mi, fi), ("expression", b, me, fe)):
        missing = sorted(read - set(mp.values()))
        if missing:
            res.fail(key, f"accessors read the tables {missing} but the {nm} generator never declares them: the generated C references an undeclared identifier",
                     mod_.line(f_.node))


def _camel2underscore(name: str) -> str:
    s1 = re.sub(r"(.)([A-Z][a-z]+)", r"\1_\2", name)
    return re.sub(r"([a-z0-9])([A-Z])", r"\1_\2", s1).lower()


@rule(
    "TERMINAL-DISPATCH",
    ["C01", "C02", "C03"],
    "the two terminal dispatch tables (access.call_lookup, definitions.handler_lookup) send every UFL terminal class to its "
    "own handler (class name in snake case; CellOrientation -> _pass; definitions: Coefficient -> coefficient, Jacobian and "
    "SpatialCoordinate -> the coordinate-dof linear combination, everything else -> pass_through); a class routed to another "
    "class's handler is a violation, an unknown handler name an analysis error. No code generator rewrites the table reference "
    "it was given (`tabledata = ...`, `tabledata._replace(...)`): flags such as is_permuted come from the IR",
    min_instances=30,
)
def terminal_dispatch(repo, res):
    am = repo.mod("ffcx.codegeneration.access")
    dm = repo.mod("ffcx.codegeneration.definitions")

    from ..absint import Raised as _RaisedTD, _Bound as _BoundTD, _Cls as _ClsTD
    from .genkernel import _world as _gk_world

    _itw = _gk_world(repo)
    try:
        _symb = _itw.overrides["FFCXBackendSymbols"].fn({}, {}, {})
        _acc = _itw.overrides["FFCXBackendAccess"].fn("cell", "cell", _symb, {})
        _dfn = _itw.overrides["FFCXBackendDefinitions"].fn("cell", "cell", _acc, {})
    except _RaisedTD as e:
        raise AnalysisError(f"TERMINAL-DISPATCH: the backend objects cannot be constructed ({e.what})")
    _objs = {"FFCXBackendAccess": _acc, "FFCXBackendDefinitions": _dfn}

    def table(mod, cls, attr):
        """the dispatch table of the object built by its own constructor: {UFL class name: (handler method name, location)}"""
        f = mod.func(f"{cls}.__init__")
        res.functions.add(f.key)
        d = _objs[cls].f.get(attr)
        if not isinstance(d, dict) or not d:
            raise AnalysisError(f"{cls}.{attr} not found")
        out = {}
        for k, v in d.items():
            kn = k.name if isinstance(k, _ClsTD) else str(k).split(".")[-1]
            if not isinstance(v, _BoundTD) or v.obj is not _objs[cls]:
                raise AnalysisError(f"{cls}.{attr}[{kn}] is not a bound method of the object")
            out[kn] = (v.func.qualname.split(".")[-1], f.node)
        return f, out

    fa, acc = table(am, "FFCXBackendAccess", "call_lookup")
    special = {"CellOrientation": {"_pass"}, "ReferenceNormal": {"reference_normal"}}
    conv = {k: special.get(k, {_camel2underscore(k)}) for k in acc}
    all_conv = set().union(*conv.values())
    for k, (meth, node) in acc.items():
        key = f"{fa.key}:call_lookup:{k}"
        res.ob(key)
        if meth in conv[k]:
            continue
        if meth in all_conv:
            res.fail(key, f"access: terminals of class {k} are translated by `{meth}`, the handler of another terminal class", am.line(node))
        else:
            raise AnalysisError(f"access.call_lookup[{k}] -> `{meth}`: unknown handler name (extend TERMINAL-DISPATCH)")
    fd, dfn = table(dm, "FFCXBackendDefinitions", "handler_lookup")
    lin = {"_define_coordinate_dofs_lincomb", "jacobian", "spatial_coordinate"}
    want = {"Coefficient": {"coefficient"}, "Jacobian": {"_define_coordinate_dofs_lincomb", "jacobian"}, "SpatialCoordinate": {"spatial_coordinate", "_define_coordinate_dofs_lincomb"}}
    for k, (meth, node) in dfn.items():
        key = f"{fd.key}:handler_lookup:{k}"
        res.ob(key)
        ok = want.get(k, {"pass_through"})
        if meth in ok:
            continue
        if meth in lin | {"coefficient", "pass_through"}:
            res.fail(key, f"definitions: terminals of class {k} are defined by `{meth}` instead of {sorted(ok)}: "
                     + ("no definition is emitted for a quantity the kernel reads" if meth == "pass_through" else "a definition for another kind of terminal is emitted"), dm.line(node))
        else:
            raise AnalysisError(f"definitions.handler_lookup[{k}] -> `{meth}`: unknown handler name (extend TERMINAL-DISPATCH)")
    for k in ("Coefficient", "Jacobian", "SpatialCoordinate"):
        key = f"{fd.key}:handler_lookup:has:{k}"
        res.ob(key)
        if k not in dfn:
            res.fail(key, f"definitions: no handler for {k}", dm.line(fd.node))
    # nobody rewrites the table reference
    n = 0
    for m in repo.modules.values():
        if not m.name.startswith("ffcx.codegeneration"):
            continue
        for f in m.funcs.values():
            tparams = [p for p in f.params if p in ("tabledata", "td", "table_ref")]
            if not tparams:
                continue
            key = f"{f.key}:table-reference-unchanged"
            res.ob(key)
            n += 1
            for x in ast.walk(f.node):
                if isinstance(x, (ast.Assign, ast.AugAssign, ast.AnnAssign)):
                    tg = x.targets if isinstance(x, ast.Assign) else [x.target]
                    for t in tg:
                        if isinstance(t, ast.Name) and t.id in tparams:
                            res.fail(key, f"{f.qualname} rebinds its table reference `{t.id}` (`{ast.unparse(x)[:70]}`): the table's flags (is_permuted, is_uniform, "
                                     "is_piecewise) and offsets come from the IR; changing them here makes the kernel index another slice than the one tabulated",
                                     m.line(x))
                        if isinstance(t, ast.Attribute) and isinstance(t.value, ast.Name) and t.value.id in tparams:
                            res.fail(key, f"{f.qualname} mutates its table reference (`{ast.unparse(x)[:70]}`)", m.line(x))
                if isinstance(x, ast.Call) and isinstance(x.func, ast.Attribute) and x.func.attr == "_replace" and isinstance(x.func.value, ast.Name) and x.func.value.id in tparams:
                    res.fail(key, f"{f.qualname} derives a modified table reference (`{ast.unparse(x)[:70]}`)", m.line(x))
    if n < 4:
        raise AnalysisError("fewer than four functions taking a table reference found")
