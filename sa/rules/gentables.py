"""build_optimized_tables interpreted on sample modified terminals (C02, C03, C08).

GEN-TABLES  ffcx.ir.elementtables.build_optimized_tables (with permute_quadrature_*, analyse_table_type and the is_*_table
            predicates, equal_tables, generate_psi_table_name) is interpreted from source.  `get_ffcx_table_values` is an
            oracle that returns a table whose entries are a known function of (element, derivatives, component, entity,
            *coordinates of the points it was handed*, dof): what reaches the table reference therefore tells which points
            were tabulated in which slice.  Specification, per modified terminal:
              - the permutation axis holds the tables at the reference-facet symmetries of the rule's points, slice
                N = 2*rotations + reflections (facets of tetrahedra: 6, hexahedra: 8, triangles/quadrilaterals: 2 reflections),
                exactly for interior-facet / ridge / facet-expression integrals on facets that have no global orientation;
              - the point axis is collapsed iff the table is constant along it on every entity, the entity axis iff all
                entities agree, the permutation axis iff all slices agree; flags (ttype, is_permuted) say so;
              - offset = offset of the component (+ element dimension for a "-" restricted form argument, and only then),
                block_size = stride;
              - numerically equal tables share one name, different tables have different names.
"""

from __future__ import annotations

import itertools
from fractions import Fraction as Fr

from ..absint import Interp, Node, Raised, _PyCall
from ..lnodes_model import load_classes
from ..model import AnalysisError
from ..npmodel import NDArr, install_arrays
from ..registry import rule

ET = "ffcx.ir.elementtables"


def _perm_points(pts, kind, ref, rot):
    out = []
    for p in pts:
        if not p:
            out.append([])
        elif kind == "interval":
            x, = p
            for _ in range(ref):
                x = 1 - x
            out.append([x])
        else:
            x, y = p
            for _ in range(rot):
                x, y = (y, 1 - x - y) if kind == "triangle" else (y, 1 - x)
            for _ in range(ref):
                x, y = y, x
            out.append([x, y])
    return out


def _oracle(el, ld, fc, e, X, d):
    k = el.f["k"]
    kind = el.f["kind"]
    if kind == "zeros":
        return Fr(0)
    if kind == "ones":
        return Fr(1)
    v = Fr(100 * k + d + 2) + 1000 * sum(ld or ()) + (5000 * (fc + 1) if fc is not None else 0)
    if kind in ("varying", "piecewise"):
        v += 10 * e
    if kind in ("varying", "uniform"):
        v += sum((i + 1) * c for i, c in enumerate(X)) * 7
    return v


def _classify(T):
    """(ttype, reduced table, is_permuted) from the definition."""
    P, E, Q, D = len(T), len(T[0]), len(T[0][0]), len(T[0][0][0])
    flat = [v for p in T for e in p for q in e for v in q]
    if not flat or all(v == 0 for v in flat):
        tt = "zeros"
    elif all(v == 1 for v in flat):
        tt = "ones"
    elif Q == D and all(T[0][e][q][d] == (1 if q == d else 0) for e in range(E) for q in range(Q) for d in range(D)):
        tt = "quadrature"
    else:
        pw = all(T[0][e][q] == T[0][e][0] for e in range(E) for q in range(Q))
        un = all(T[0][e] == T[0][0] for e in range(E))
        tt = "fixed" if pw and un else "piecewise" if pw else "uniform" if un else "varying"
    R = T
    if tt in ("fixed", "piecewise", "zeros", "ones"):
        R = [[[e[0]] for e in p] for p in R]
    if tt in ("fixed", "uniform", "zeros", "ones"):
        R = [[p[0]] for p in R]
    perm = any(p != R[0] for p in R)
    if not perm:
        R = [R[0]]
    return tt, R, perm


def _vstack(arrs):
    arrs = list(arrs)
    data = []
    for a in arrs:
        if not isinstance(a, NDArr):
            raise AnalysisError("vstack of something that is not a table")
        data.extend(a.data)
    return NDArr(data, (sum(a.shape[0] for a in arrs),) + tuple(arrs[0].shape[1:]))


def _mte_record(repo, *values):
    """What get_modified_terminal_element returns: the repository's own NamedTuple (a record with its field names, usable as a tuple)."""
    import ast as _ast

    c = repo.mod(ET).classes.get("ModifiedTerminalElement")
    fields = [st.target.id for st in c.body if isinstance(st, _ast.AnnAssign) and isinstance(st.target, _ast.Name)] if c is not None else []
    if len(fields) != len(values):
        return tuple(values)
    return Node("ModifiedTerminalElement", **dict(zip(fields, values)), __fields__=list(fields))


@rule(
    "GEN-TABLES",
    ["C03", "C02", "C08", "C05", "C19", "C04"],
    "build_optimized_tables interpreted on sample modified terminals with a table oracle that records which points were tabulated: "
    "permutation slices are the tables at the reference-facet symmetries in the order N = 2*rotations + reflections exactly where "
    "facets lack a global orientation; point / entity / permutation axes are collapsed exactly when constant; the \"-\" dof shift "
    "applies to restricted form arguments only; equal tables share a name and different ones do not",
    min_instances=8,
)
def gen_tables(repo, res):
    m = repo.mod(ET)
    f = m.func("build_optimized_tables")
    res.functions.add(f.key)
    for nm in ("permute_quadrature_interval", "permute_quadrature_triangle", "permute_quadrature_quadrilateral", "analyse_table_type", "is_permuted_table",
               "is_piecewise_table", "is_uniform_table", "equal_tables", "generate_psi_table_name"):
        res.functions.add(m.func(nm).key)
    loc = m.line(f.node)
    _fail = res.fail

    def fail_tables(key, msg, loc_=""):  # table content / flags: not a matter of the packing contract (C05); expression scenarios: C04
        _fail(key, msg, loc_, props=("C04", "C08") if " expression " in f" {key} " else ("C02", "C03", "C08"))

    def cell(name, tdim):
        return Node("Cell", cellname=name, topological_dimension=tdim)

    def element(k, kind, dim, c, offset=0, stride=1):
        return Node("Element", k=k, kind=kind, dim=dim, cell=c, has_tensor_product_factorisation=False, t_offset=offset, t_stride=stride)

    def mt(name, el, restriction=None, ld=(0, 0), fc=None, form_argument=True, avg=None):
        term = Node("FormArgument" if form_argument else "SpatialCoordinate", name=name)
        return Node("ModifiedTerminal", name=name, terminal=term, restriction=restriction, el=el, ld=tuple(ld), fc=fc, avg=avg)

    pts1 = [[Fr(1, 5)], [Fr(3, 4)], [Fr(1, 2)]]
    pts2 = [[Fr(1, 5), Fr(1, 3)], [Fr(1, 2), Fr(1, 8)], [Fr(1, 7), Fr(2, 7)]]

    def scenario(label, integral_type, entity_type, c, facet_kind, pts, nent, mts, expect_perms, mixed=False):
        key = f"{f.key}:{label}"
        res.ob(key)
        it = install_arrays(Interp(repo, load_classes(repo), primary=ET))
        it.overrides["np.vstack"] = _PyCall(_vstack)
        it.overrides["clamp_table_small_numbers"] = _PyCall(lambda t, **k: t)
        it.overrides["get_modified_terminal_element"] = _PyCall(lambda t: _mte_record(repo, t.f["el"], t.f["avg"], t.f["ld"], t.f["fc"]))
        it.overrides["ufl.algorithms.sort_elements"] = _PyCall(lambda els: list(els))
        it.overrides["ufl.algorithms.analysis.extract_sub_elements"] = _PyCall(lambda els: list(els))
        it.overrides["default_rtol"] = 0
        it.overrides["default_atol"] = 0
        calls = []

        def table_values(points, cell_, itype, el, avg, etype, ld, fc, codim=0, **k):
            X = [list(p) if not isinstance(p, NDArr) else p.tolist() for p in points]
            calls.append((el.f["k"], X))
            D = el.f["dim"] if el.f["kind"] not in ("p0",) else 1
            arr = [[[[_oracle(el, ld, fc, e, X[q], d) for d in range(D)] for q in range(len(X))] for e in range(nent)]]
            return {"array": NDArr(arr, (1, nent, len(X), D)), "offset": el.f["t_offset"], "stride": el.f["t_stride"]}
        it.overrides["get_ffcx_table_values"] = _PyCall(table_values)
        pts_arr = NDArr([list(p) for p in pts], (len(pts), len(pts[0]) if pts else 0))  # the rule's points are a numpy array (views, in-place updates)
        rule_ = Node("QuadratureRule", points=pts_arr, weights=[Fr(1, 3)] * len(pts), has_tensor_factors=False, tensor_factors=None,
                     id=_PyCall(lambda: "r0"))
        try:
            out = it.call_f(f, [rule_, c, integral_type, entity_type, list(mts), {}, False, mixed])
        except Raised as e:
            fail_tables(key, f"build_optimized_tables raises ({e.what}) on `{label}`", loc)
            return
        if not isinstance(rule_.f["points"], NDArr) or rule_.f["points"].tolist() != [list(p) for p in pts]:
            fail_tables(key, f"`{label}`: the rule's points were permuted in place ({rule_.f['points']}): every later table and the weights use the wrong points", loc)
        if not isinstance(out, dict):
            raise AnalysisError("build_optimized_tables did not return a dict")
        names = {}
        for t_ in mts:
            ref = out.get(t_)
            if ref is None:
                fail_tables(key, f"`{label}`: no table reference for modified terminal {t_.f['name']}", loc)
                continue
            g = ref.f if isinstance(ref, Node) else None
            if g is None:
                raise AnalysisError("table reference is not a record")
            el = t_.f["el"]
            D = el.f["dim"]
            perms = expect_perms(t_) if callable(expect_perms) else expect_perms
            T = [[[[_oracle(el, t_.f["ld"], t_.f["fc"], e, X, d) for d in range(D)] for X in _perm_points(pts, facet_kind, r_, o_)] for e in range(nent)]
                 for (o_, r_) in perms]
            tt, R, perm = _classify(T)
            vals = g["values"]
            got = vals.data if isinstance(vals, NDArr) else vals
            what = f"`{label}`, terminal {t_.f['name']} ({el.f['kind']} table, restriction {t_.f['restriction']!r})"
            if g["ttype"] != tt:
                fail_tables(key, f"{what}: table type is {g['ttype']!r}, the definition gives {tt!r}", loc)
            elif got != R:
                shp = vals.shape if isinstance(vals, NDArr) else "?"
                exp_shape = (len(R), len(R[0]), len(R[0][0]), len(R[0][0][0]))
                if tuple(shp) != exp_shape:
                    fail_tables(key, f"{what}: stored table has shape {tuple(shp)}, expected {exp_shape} = (permutations, entities, points, dofs) after collapsing the "
                             f"constant axes of a {tt} table over {len(perms)} reference-facet symmetries", loc)
                else:
                    bad = next(((p, e, q, d) for p in range(exp_shape[0]) for e in range(exp_shape[1]) for q in range(exp_shape[2]) for d in range(exp_shape[3])
                                if got[p][e][q][d] != R[p][e][q][d]), None)
                    fail_tables(key, f"{what}: entry [perm {bad[0]}][entity {bad[1]}][point {bad[2]}][dof {bad[3]}] is not the table value at that point of the "
                             f"{bad[0]}-th reference-facet symmetry (order N = 2*rotations + reflections, rotations applied first): the kernel's "
                             "quadrature_permutation index would select another point order", loc)
            if bool(g["is_permuted"]) != perm:
                fail_tables(key, f"{what}: is_permuted = {g['is_permuted']}, but the permutation slices {'differ' if perm else 'are identical'}", loc)
            shift = el.f["dim"] if (t_.f["restriction"] == "-" and t_.f["terminal"].cls == "FormArgument") else 0
            if g["offset"] != shift + el.f["t_offset"] or g["block_size"] != el.f["t_stride"]:
                _fail(key, f"{what}: (offset, block_size) = ({g['offset']}, {g['block_size']}), expected ({shift + el.f['t_offset']}, {el.f['t_stride']}): the dofs of "
                         "the \"-\" cell follow the element dimension for restricted form arguments, and only for them (geometry has its own layout)", loc)
            names.setdefault(g["name"], []).append((t_.f["name"], R))
        for nm_, users in names.items():
            if any(u[1] != users[0][1] for u in users):
                fail_tables(key, f"`{label}`: terminals {[u[0] for u in users]} share the table name {nm_} but their tables differ: one of them reads the other's values", loc)
        by_val = {}
        for nm_, users in names.items():
            by_val.setdefault(repr(users[0][1]), []).append(nm_)
        dup = [v for v in by_val.values() if len(v) > 1]
        if dup:
            res.notes.append(f"`{label}`: equal tables stored under several names {dup[0]} (allowed, not minimal)")

    tri, tet, hexa, quad, intv = cell("triangle", 2), cell("tetrahedron", 3), cell("hexahedron", 3), cell("quadrilateral", 2), cell("interval", 1)

    def mts_for(c):
        v = element(0, "varying", 3, c)
        pw = element(1, "piecewise", 2, c, offset=4, stride=2)
        un = element(2, "uniform", 3, c)
        fx = element(3, "fixed", 1, c)
        on = element(4, "ones", 1, c)
        xg = element(5, "varying", 3, c)
        return [mt("u+", v, "+"), mt("u-", v, "-"), mt("g-", pw, "-", fc=1), mt("h+", un, "+", ld=(1, 0)), mt("k-", fx, "-"), mt("one", on, "+"),
                mt("x-", xg, "-", form_argument=False)]

    def cellmts(c):
        v = element(0, "varying", 3, c)
        pw = element(1, "piecewise", 2, c, offset=4, stride=2)
        return [mt("u", v), mt("f", pw, fc=0), mt("du", v, ld=(0, 1))]

    ident = [(0, 0)]
    scenario("cell integral on a triangle", "cell", "cell", tri, "triangle", pts2, 1, cellmts(tri), ident)
    scenario("exterior facet integral on a tetrahedron", "exterior_facet", "facet", tet, "triangle", pts2, 2, mts_for(tet), ident)
    scenario("interior facet integral on a triangle", "interior_facet", "facet", tri, "interval", pts1, 2, mts_for(tri), [(0, 0), (0, 1)])
    scenario("interior facet integral on a quadrilateral", "interior_facet", "facet", quad, "interval", pts1, 2, mts_for(quad), [(0, 0), (0, 1)])
    scenario("interior facet integral on a tetrahedron", "interior_facet", "facet", tet, "triangle", pts2, 2, mts_for(tet),
             [(o_, r_) for o_ in range(3) for r_ in range(2)])
    scenario("interior facet integral on a hexahedron", "interior_facet", "facet", hexa, "quadrilateral", pts2, 2, mts_for(hexa),
             [(o_, r_) for o_ in range(4) for r_ in range(2)])
    scenario("interior facet integral on an interval", "interior_facet", "facet", intv, "interval", [[]], 2,
             [mt("u+", element(0, "piecewise", 2, intv), "+", ld=()), mt("u-", element(0, "piecewise", 2, intv), "-", ld=())], ident)
    scenario("facet expression on a tetrahedron", "expression", "facet", tet, "triangle", pts2, 2, cellmts(tet), [(o_, r_) for o_ in range(3) for r_ in range(2)])
    scenario("facet expression on a hexahedron", "expression", "facet", hexa, "quadrilateral", pts2, 2, cellmts(hexa), [(o_, r_) for o_ in range(4) for r_ in range(2)])
    scenario("facet expression on a triangle", "expression", "facet", tri, "interval", pts1, 2, cellmts(tri), [(0, 0), (0, 1)])
    # a rule with a single point that is not the centre of the reference facet: constant over its points, but not over the facet's symmetries
    scenario("interior facet integral on a triangle, one off-centre point", "interior_facet", "facet", tri, "interval", pts1[:1], 2, mts_for(tri), [(0, 0), (0, 1)])
    scenario("interior facet integral on a tetrahedron, one off-centre point", "interior_facet", "facet", tet, "triangle", pts2[:1], 2, mts_for(tet),
             [(o_, r_) for o_ in range(3) for r_ in range(2)])
    scenario("interior facet integral on a hexahedron, one off-centre point", "interior_facet", "facet", hexa, "quadrilateral", pts2[:1], 2, mts_for(hexa),
             [(o_, r_) for o_ in range(4) for r_ in range(2)])
    scenario("facet expression on a tetrahedron, one off-centre point", "expression", "facet", tet, "triangle", pts2[:1], 2, cellmts(tet),
             [(o_, r_) for o_ in range(3) for r_ in range(2)])
    scenario("cell expression on a triangle", "expression", "cell", tri, "triangle", pts2, 1, cellmts(tri), ident)
    scenario("vertex integral on a triangle", "vertex", "vertex", tri, "triangle", pts2[:1], 2, cellmts(tri), ident)
    scenario("ridge integral on a tetrahedron", "ridge", "ridge", tet, "interval", pts1, 2, cellmts(tet), [(0, 0), (0, 1)])
    scenario("ridge integral on a triangle", "ridge", "ridge", tri, "interval", [[]], 2,
             [mt("u", element(0, "piecewise", 2, tri), ld=())], ident)
    sub = cell("triangle", 2)
    mixed_mts = [mt("u", element(0, "varying", 3, tet)), mt("lam", element(1, "varying", 3, sub))]
    scenario("mixed-dimensional facet integral: codimension-0 and codimension-1 elements", "exterior_facet", "facet", tet, "triangle", pts2, 2, mixed_mts,
             lambda t_: [(o_, r_) for o_ in range(3) for r_ in range(2)] if t_.f["el"].f["cell"] is tet else ident, mixed=True)

    # an element living on a cell of codimension 3 (a point element in a tetrahedron integral) is not supported: rejected, not tabulated
    key = f"{f.key}:codimension-3-rejected"
    res.ob(key)
    it = install_arrays(Interp(repo, load_classes(repo), primary=ET))
    it.overrides["np.vstack"] = _PyCall(_vstack)
    it.overrides["clamp_table_small_numbers"] = _PyCall(lambda t, **k: t)
    pt = cell("vertex", 0)
    bad_mt = mt("lam", element(0, "varying", 1, pt))
    it.overrides["get_modified_terminal_element"] = _PyCall(lambda t: _mte_record(repo, t.f["el"], t.f["avg"], t.f["ld"], t.f["fc"]))
    it.overrides["ufl.algorithms.sort_elements"] = _PyCall(lambda els: list(els))
    it.overrides["ufl.algorithms.analysis.extract_sub_elements"] = _PyCall(lambda els: list(els))
    it.overrides["get_ffcx_table_values"] = _PyCall(lambda *a, **k: {"array": NDArr([[[[Fr(1)]]]], (1, 1, 1, 1)), "offset": 0, "stride": 1})
    rule_ = Node("QuadratureRule", points=NDArr([[Fr(1, 5), Fr(1, 3)]], (1, 2)), weights=[Fr(1)], has_tensor_factors=False, tensor_factors=None, id=_PyCall(lambda: "r0"))
    try:
        out = it.call_f(f, [rule_, tet, "exterior_facet", "facet", [bad_mt], {}, False, True])
        fail_tables(key, f"an element on a cell of codimension 3 is accepted by build_optimized_tables (result {str(out)[:60]}): only codimension 0, 1 and 2 are implemented", loc)
    except Raised:
        pass

    # interior facets of a prism / pyramid: the facet symmetries are not implemented - the request must be rejected; tables that silently keep
    # one permutation slice would make the result depend on the neighbours' vertex numbering
    for cname in ("prism", "pyramid"):
        key = f"{f.key}:interior-facet-permutations-on-{cname}-rejected"
        res.ob(key)
        it = install_arrays(Interp(repo, load_classes(repo), primary=ET))
        it.overrides["np.vstack"] = _PyCall(_vstack)
        it.overrides["clamp_table_small_numbers"] = _PyCall(lambda t, **k: t)
        pc = cell(cname, 3)
        vmt = [mt("u+", element(0, "varying", 3, pc), "+"), mt("u-", element(0, "varying", 3, pc), "-")]
        it.overrides["get_modified_terminal_element"] = _PyCall(lambda t: _mte_record(repo, t.f["el"], t.f["avg"], t.f["ld"], t.f["fc"]))
        it.overrides["ufl.algorithms.sort_elements"] = _PyCall(lambda els: list(els))
        it.overrides["ufl.algorithms.analysis.extract_sub_elements"] = _PyCall(lambda els: list(els))
        it.overrides["default_rtol"] = 0
        it.overrides["default_atol"] = 0

        def values(points, cell_, itype, el, avg, etype, ld, fc, codim=0, **k):
            pl = points.tolist() if hasattr(points, "tolist") else list(points)
            return {"array": NDArr([[[[Fr(7 * e_ + d_ + 1) + sum((Fr(x) for x in pt_), Fr(0)) * (q_ + 2) for d_ in range(3)] for q_, pt_ in enumerate(pl)] for e_ in range(2)]],
                                   (1, 2, len(pl), 3)), "offset": 0, "stride": 1}
        it.overrides["get_ffcx_table_values"] = _PyCall(values)
        rule_ = Node("QuadratureRule", points=NDArr(pts2, (3, 2)), weights=[Fr(1, 3)] * 3, has_tensor_factors=False, tensor_factors=None, id=_PyCall(lambda: "r0"))
        try:
            out = it.call_f(f, [rule_, pc, "interior_facet", "facet", vmt, {}, False, False])
        except Raised:
            continue
        shapes = {k_.f["name"]: tuple(v_.f["values"].shape) for k_, v_ in out.items()} if isinstance(out, dict) else None
        if shapes is None or any(sh[0] == 1 for sh in shapes.values()):
            _fail(key, f"an interior-facet integral on a {cname} is accepted and its point-dependent tables keep a single permutation slice ({shapes}): the kernel ignores "
                       "quadrature_permutation, so the two sides' quadrature points do not coincide unless the cells happen to be numbered alike - unsupported cells must be "
                       "rejected during code generation", loc, props=("C19", "C03"))
        else:
            raise AnalysisError(f"GEN-TABLES: facet permutations on a {cname} are now implemented ({shapes}); extend the rule with its facet symmetries")
