"""C19 (and parts of C11): accepted input yields valid code, unsupported input is rejected.

FAIL-CLOSED     every type/tag dispatch ends in `raise` for the unmatched case
CLOSED-DOMAINS  closed Literal domains are handled exhaustively
STALE-LOOPVAR   S1: a variable assigned in a loop body and read in it is assigned on every path of
                the current iteration before the read (otherwise the previous iteration's value is
                used silently); S2: a for-target of an inner loop does not flow, through the back
                edge of an enclosing loop, into a read that also sees a definition from before
                that loop
"""

from __future__ import annotations

import ast

from ..cfg import CFG, node_defs, node_uses, reaching_definitions
from ..model import AnalysisError, call_name, calls_in, const_value, dotted, walk_no_nested
from ..registry import rule

# (module, qualname): the dispatch functions of the pipeline. Kind A: default case must raise.
DISPATCH_A = [
    ("ffcx.ir.analysis.reconstruct", "reconstruct"),
    ("ffcx.codegeneration.lnodes", "ufl_to_lnodes"),
    ("ffcx.codegeneration.lnodes", "as_lexpr"),
    ("ffcx.codegeneration.lnodes", "as_statement"),
    ("ffcx.codegeneration.lnodes", "merge_dtypes"),
    ("ffcx.codegeneration.access", "FFCXBackendAccess.get"),
    ("ffcx.codegeneration.geometry", "write_table"),
    ("ffcx.codegeneration.utils", "dtype_to_c_type"),
    ("ffcx.codegeneration.utils", "dtype_to_scalar_dtype"),
    ("ffcx.codegeneration.C.formatter", "Formatter.__call__"),
    ("ffcx.codegeneration.numba.formatter", "Formatter.__call__"),
    ("ffcx.codegeneration.C.formatter", "Formatter._dtype_to_name"),
    ("ffcx.codegeneration.numba.formatter", "Formatter._dtype_to_name"),
    ("ffcx.ir.analysis.factorization", "handler"),
    ("ffcx.ir.representationutils", "integral_type_to_entity_dim"),
    ("ffcx.ir.representationutils", "map_integral_points"),
    ("ffcx.ir.representation", "basix_cell_from_string"),
    ("ffcx.ir.integral", "TensorPart.from_str"),
    ("ffcx.analysis", "_has_custom_integrals"),
    ("ffcx.codegeneration.common", "tensor_sizes"),
]
# Kind B: a lookup result tested against None/False must raise
DISPATCH_B = [
    ("ffcx.ir.analysis.valuenumbering", "ValueNumberer.compute_symbols", "symbol"),
    ("ffcx.codegeneration.definitions", "FFCXBackendDefinitions.get", "handler"),
]
# Kind C: a branch chain inside a loop whose else must raise
DISPATCH_C = [
    ("ffcx.codegeneration.integral_generator", "extract_dtype", "op"),
    ("ffcx.ir.integral", "analyse_dependencies", "ttype"),
    ("ffcx.codegeneration.optimizer", "check_dependency", "statement"),
]


def _ends_in_raise(stmts) -> bool:
    """Does this statement list end, on its default path, in a raise?"""
    if not stmts:
        return False
    i = len(stmts) - 1
    # skip a trailing plain `return <name>` that only hands back what the chain computed
    while i >= 0 and isinstance(stmts[i], (ast.Return,)) and i > 0 and isinstance(stmts[i - 1], (ast.If, ast.Match)) \
            and isinstance(stmts[i].value, ast.Name):
        i -= 1
    last = stmts[i]
    if isinstance(last, ast.Raise):
        return True
    if isinstance(last, ast.If):
        cur = last
        while True:
            if not cur.orelse:
                # `if tag not in KNOWN: raise` closes the case analysis as well
                t = cur.test
                neg = (isinstance(t, ast.Compare) and isinstance(t.ops[0], ast.NotIn)) or (isinstance(t, ast.UnaryOp) and isinstance(t.op, ast.Not))
                return bool(neg and cur.body and isinstance(cur.body[-1], ast.Raise))
            if len(cur.orelse) == 1 and isinstance(cur.orelse[0], ast.If):
                cur = cur.orelse[0]
                continue
            return _ends_in_raise(cur.orelse)
    if isinstance(last, ast.Match):
        for case in last.cases:
            if isinstance(case.pattern, ast.MatchAs) and case.pattern.pattern is None and case.guard is None:
                return _ends_in_raise(case.body)
        return False
    if isinstance(last, (ast.For, ast.While)):
        return False
    if isinstance(last, ast.With):
        return _ends_in_raise(last.body)
    if isinstance(last, ast.Try):
        return _ends_in_raise(last.body)
    return False


def _unmatched_samples(repo):
    """(module, qualname) -> thunk interpreting the dispatcher on an input none of its cases matches.

    The thunk returns "raised" or ("returned", value); an AnalysisError means the dispatcher cannot be interpreted on the sample and the
    structural verdict stands."""
    from ..absint import Interp, Node, Raised, _PyCall
    from ..lnodes_model import load_classes
    from ..npmodel import install

    def run(modname, q, args, prep=None, kwargs=None):
        def thunk():
            it = install(Interp(repo, load_classes(repo), primary=modname))
            it.overrides["logger"] = Node("Logger", info=_PyCall(lambda *a: None), debug=_PyCall(lambda *a: None), exception=_PyCall(lambda *a: None),
                                          warning=_PyCall(lambda *a: None))
            a = args(it) if callable(args) else list(args)
            if prep:
                prep(it)
            try:
                v = it.call_f(repo.mod(modname).func(q), a, kwargs)
            except Raised:
                return "raised"
            return ("returned", v)
        return thunk

    unknown = lambda: Node("UnknownTerminalKind", name="t")  # noqa: E731
    mt = lambda: Node("ModifiedTerminal", terminal=unknown(), restriction=None)  # noqa: E731

    def ufl_measures(it):
        it.overrides["ufl.measure.facet_integral_types"] = ("exterior_facet", "interior_facet")
        it.overrides["ufl.measure.ridge_integral_types"] = ("ridge",)
        it.overrides["ufl.measure.point_integral_types"] = ("vertex",)
        it.overrides["ufl.custom_integral_types"] = ("cutcell", "interface", "overlap", "custom")
        it.overrides["ufl.measure.custom_integral_types"] = ("cutcell", "interface", "overlap", "custom")

    S = {
        ("ffcx.codegeneration.geometry", "write_table"): run("ffcx.codegeneration.geometry", "write_table", ["no_such_table", "triangle"]),
        ("ffcx.codegeneration.access", "FFCXBackendAccess.get"): run(
            "ffcx.codegeneration.access", "FFCXBackendAccess.get", lambda it: [Node("FFCXBackendAccess", call_lookup={}), mt(), None, None]),
        ("ffcx.codegeneration.definitions", "FFCXBackendDefinitions.get"): run(
            "ffcx.codegeneration.definitions", "FFCXBackendDefinitions.get", lambda it: [Node("FFCXBackendDefinitions", handler_lookup={}), mt(), None, None, None]),
        ("ffcx.codegeneration.utils", "dtype_to_c_type"): run("ffcx.codegeneration.utils", "dtype_to_c_type", ["uint8"]),
        ("ffcx.ir.representationutils", "integral_type_to_entity_dim"): run("ffcx.ir.representationutils", "integral_type_to_entity_dim", ["no_such_type", 2], ufl_measures),
        ("ffcx.ir.representationutils", "map_integral_points"): run(
            "ffcx.ir.representationutils", "map_integral_points", lambda it: [[[0.5]], "no_such_type", Node("Cell", cellname="triangle", topological_dimension=2), 0],
            ufl_measures),
        ("ffcx.ir.integral", "TensorPart.from_str"): run("ffcx.ir.integral", "TensorPart.from_str", lambda it: [it.resolve_enum("TensorPart"), "no_such_part"]),
        ("ffcx.codegeneration.integral_generator", "extract_dtype"): run(
            "ffcx.codegeneration.integral_generator", "extract_dtype", lambda it: [Node("UflExpr", name="v"), ["not an LNodes operand"]]),
        ("ffcx.codegeneration.optimizer", "check_dependency"): run(
            "ffcx.codegeneration.optimizer", "check_dependency", lambda it: [it.construct("Comment", ["x"], {}), it.construct("Symbol", ["i", "DataType.INT"], {})]),
    }
    # dispatchers of the LNodes layer and small maps: an input of a kind none of their cases names
    LN = "ffcx.codegeneration.lnodes"
    S[(LN, "merge_dtypes")] = run(LN, "merge_dtypes", [["DataType.UNKNOWN_KIND"]])
    S[(LN, "as_lexpr")] = run(LN, "as_lexpr", ["a string is not an expression"])
    S[(LN, "as_statement")] = run(LN, "as_statement", ["a string is not a statement"])
    S[(LN, "ufl_to_lnodes")] = run(LN, "ufl_to_lnodes", lambda it: [Node("UnknownUflOperator", name="op")], lambda it: it.overrides.__setitem__("_ufl_call_lookup", {}))
    REC = "ffcx.ir.analysis.reconstruct"
    S[(REC, "reconstruct")] = run(REC, "reconstruct", lambda it: [Node("UnknownUflOperator", name="op")], lambda it: it.overrides.__setitem__("_reconstruct_call_lookup", {}))
    S[("ffcx.ir.analysis.valuenumbering", "ValueNumberer.compute_symbols")] = run(
        "ffcx.ir.analysis.valuenumbering", "ValueNumberer.compute_symbols",
        lambda it: [Node("ValueNumberer", symbol_count=0, G=Node("ExpressionGraph", nodes={0: {"expression": Node("UnknownUflOperator", name="op", _ufl_is_terminal_=False,
                                                                                                                     ufl_operands=())}}, out_edges={0: []}),
                         V_symbols=[None], call_lookup={})])
    S[("ffcx.ir.representation", "basix_cell_from_string")] = run("ffcx.ir.representation", "basix_cell_from_string", ["dodecahedron"])
    S[("ffcx.codegeneration.utils", "dtype_to_scalar_dtype")] = run("ffcx.codegeneration.utils", "dtype_to_scalar_dtype", ["bool"])
    S[("ffcx.analysis", "_has_custom_integrals")] = run("ffcx.analysis", "_has_custom_integrals", ["neither an integral nor a form nor a list"], ufl_measures)
    S[("ffcx.codegeneration.common", "tensor_sizes")] = run("ffcx.codegeneration.common", "tensor_sizes", lambda it: [Node("NeitherIntegralNorExpressionIR")])

    def dep_graph(it):
        tr = Node("UniqueTableReferenceT", ttype="no_such_table_type", name="FE0")
        nodes = {0: {"expression": Node("UflExpr", name="v"), "mt": Node("ModifiedTerminal", name="mt"), "tr": tr, "target": [(0,)]}}
        F = Node("ExpressionGraph", nodes=nodes, out_edges={0: []}, in_edges={0: []})
        return [F, {}]
    S[("ffcx.ir.integral", "analyse_dependencies")] = run("ffcx.ir.integral", "analyse_dependencies", dep_graph)
    return S


@rule(
    "FAIL-CLOSED",
    ["C19", "C01", "C09"],
    "every type/tag dispatch of the pipeline ends in `raise` for the unmatched case (no implicit None, "
    "no default value): reconstruct, ufl_to_lnodes, as_lexpr, as_statement, merge_dtypes, access.get, "
    "definitions.get, compute_symbols, both formatters' defaults and dtype names, factorization default, "
    "geometry.write_table, integral-type and cell-name maps, dtype_to_c_type, extract_dtype, "
    "analyse_dependencies, check_dependency",
    min_instances=24,
)
def fail_closed(repo, res):
    from ..model import AnalysisError as _AE

    samples = _unmatched_samples(repo)

    def semantic(modname, q):
        """True: raises on the unmatched sample; a string: what it returned instead; None: not decidable by interpretation."""
        th = samples.get((modname, q))
        if th is None:
            return None
        try:
            r = th()
        except _AE:
            return None
        if r == "raised":
            return True
        return f"returns {r[1]!r}"

    for modname, q in DISPATCH_A:
        m = repo.mod(modname)
        f = m.func(q)
        res.functions.add(f.key)
        key = f"{f.key}:default-raises"
        res.ob(key)
        sem = semantic(modname, q)
        if sem is True:
            continue  # interpreted on an input no case matches: it raises, whatever the shape of the code
        if isinstance(sem, str):
            res.fail(key, f"the unmatched case of {f.key} does not raise: on an input none of its cases handles it {sem}, i.e. an unsupported construct is "
                     "silently translated instead of being rejected", m.line(f.node))
            continue
        body = [s for s in f.node.body if not (isinstance(s, ast.Expr) and isinstance(s.value, ast.Constant))]
        if not _ends_in_raise(body):
            res.fail(key, f"the unmatched case of {f.key} does not raise: an unsupported construct is silently "
                     "translated (or returns None) instead of being rejected", m.line(f.node))
            continue
        # no path falls off the end and no bare `return`
        cfg = CFG(f.node)
        if cfg.fallthrough_preds:
            res.fail(key, f"{f.key} can fall off its end (returns None) for some input", m.line(f.node))
        for rid in cfg.return_nodes:
            r = cfg.nodes[rid].ast
            if r.value is None or (isinstance(r.value, ast.Constant) and r.value.value is None):
                res.fail(key, f"{f.key} returns None on some path", m.line(r))
    for modname, q, var in DISPATCH_B:
        m = repo.mod(modname)
        f = m.func(q)
        res.functions.add(f.key)
        key = f"{f.key}:none-check-raises"
        res.ob(key)
        sem = semantic(modname, q)
        if sem is True:
            continue
        if isinstance(sem, str):
            res.fail(key, f"{f.key}: a failed lookup is not rejected with an exception: on an unknown input it {sem}", m.line(f.node))
            continue
        ok = False
        for n in walk_no_nested(f.node):
            if isinstance(n, ast.If):
                t = ast.unparse(n.test).replace(" ", "")
                if t in (f"{var}isNone", f"not{var}", f"{var}==None") and n.body and isinstance(n.body[-1], ast.Raise):
                    ok = True
        if not ok:
            res.fail(key, f"{f.key}: a failed lookup (`{var}` is None) is not rejected with an exception", m.line(f.node))
    for modname, q, var in DISPATCH_C:
        m = repo.mod(modname)
        f = m.func(q)
        res.functions.add(f.key)
        key = f"{f.key}:chain-else-raises"
        res.ob(key)
        sem = semantic(modname, q)
        if sem is True:
            continue
        if isinstance(sem, str):
            res.fail(key, f"{f.key}: the case analysis on `{var}` has no raising default: on an unknown input it {sem}", m.line(f.node))
            continue
        chains = []
        for n in walk_no_nested(f.node):
            if isinstance(n, ast.If) and var in {x.id for x in ast.walk(n.test) if isinstance(x, ast.Name)}:
                # top of a chain: not itself the orelse of another If on the same variable
                chains.append(n)
        tops = [c for c in chains if not any(len(o.orelse) == 1 and o.orelse[0] is c for o in chains)]
        good = [c for c in tops if _ends_in_raise([c])]
        if not good:
            res.fail(key, f"{f.key}: the case analysis on `{var}` has no raising default", m.line(f.node))
    # singledispatch defaults of the formatters: the body is only a raise
    for modname in ("ffcx.codegeneration.C.formatter", "ffcx.codegeneration.numba.formatter"):
        m = repo.mod(modname)
        f = m.func("Formatter.__call__")
        key = f"{f.key}:only-raise"
        res.ob(key)
        body = [s for s in f.node.body if not (isinstance(s, ast.Expr) and isinstance(s.value, ast.Constant))]
        if len(body) != 1 or not isinstance(body[0], ast.Raise):
            res.fail(key, "the fallback formatter handler does more than raise: unknown nodes are formatted somehow", m.line(f.node))
    # dict-based lookups must not use a permissive default
    m = repo.mod("ffcx.codegeneration.lnodes")
    f = m.func("ufl_to_lnodes")
    key = f"{f.key}:lookup-strict"
    res.ob(key)
    for c in calls_in(f.node):
        if isinstance(c.func, ast.Attribute) and c.func.attr == "get" and "_ufl_call_lookup" in ast.unparse(c.func.value) and len(c.args) > 1:
            res.fail(key, "ufl_to_lnodes looks operators up with a default handler", m.line(c))


@rule(
    "CLOSED-DOMAINS",
    ["C19", "C02", "C06"],
    "closed tag domains are handled exhaustively: every supported integral type has an entity type, "
    "every entity type is handled by symbols.entity and by the table-name suffix map, every integral-type "
    "family of ufl.measure is matched by the quadrature and entity-dimension case analyses",
    min_instances=8,
)
def closed_domains(repo, res):
    d = repo.mod("ffcx.definitions")

    def literal_values(name):
        v = d.assign(name)
        if isinstance(v, ast.Subscript):
            sl = v.slice
            elts = sl.elts if isinstance(sl, ast.Tuple) else [sl]
            return [const_value(e) for e in elts]
        raise AnalysisError(f"ffcx.definitions.{name} is not a typing.Literal[...]")

    entity_types = literal_values("entity_types")
    itypes = literal_values("supported_integral_types")
    rep = repo.mod("ffcx.ir.representation")
    f = rep.func("_compute_integral_ir")
    res.functions.add(f.key)
    table = None
    # the table the function subscripts with the integral type: a local of the function or a module-level constant
    for n in list(walk_no_nested(f.node)) + list(rep.tree.body):
        if isinstance(n, (ast.Assign, ast.AnnAssign)) and isinstance(n.value, ast.Dict):
            t = n.targets[0] if isinstance(n, ast.Assign) else n.target
            if isinstance(t, ast.Name) and t.id == "_entity_types" and table is None:
                table = n.value
    if table is None:
        # no literal table of that name: the entity type of every integral type is decided by GEN-INTEGRAL-IR (function interpreted)
        res.notes.append("_compute_integral_ir: no literal `_entity_types` table; entity type per integral type decided by GEN-INTEGRAL-IR alone")
        tv = {}
    else:
        tv = {const_value(k): const_value(v) for k, v in zip(table.keys, table.values)}
        key = f"{f.key}:_entity_types"
        res.ob(key)
        if set(tv) != set(itypes):
            res.fail(key, f"_entity_types has keys {sorted(tv)} but supported_integral_types is {sorted(itypes)}", rep.line(table))
    want = {"cell": "cell", "exterior_facet": "facet", "interior_facet": "facet", "vertex": "vertex", "ridge": "ridge"}
    for k, v in tv.items():
        kk = f"{f.key}:_entity_types:{k}"
        res.ob(kk)
        if v not in entity_types:
            res.fail(kk, f"integral type {k} maps to unknown entity type {v!r}", rep.line(table))
        elif want.get(k) != v:
            res.fail(kk, f"integral type {k} is given entity type {v!r} (tables would be tabulated on the wrong sub-entity); expected {want.get(k)!r}", rep.line(table))
    # symbols.entity handles every entity type: interpreted for each declared type (object built by its constructor) - the result must be
    # an index expression, never None
    from ..absint import Node as _Nd, Raised as _Rsd
    from .genkernel import _world as _gk_world

    sym = repo.mod("ffcx.codegeneration.symbols")
    ef = sym.func("FFCXBackendSymbols.entity")
    res.functions.add(ef.key)
    for e in entity_types:
        key = f"{ef.key}:handles:{e}"
        res.ob(key)
        for restr in (None, "+", "-"):
            itw = _gk_world(repo)
            try:
                symb = itw.overrides["FFCXBackendSymbols"].fn({}, {}, {})
                got = itw.call_f(ef, [symb, e, restr])
            except _Rsd as ex:
                res.fail(key, f"symbols.entity({e!r}, {restr!r}) raises ({ex.what})", sym.line(ef.node))
                break
            if not isinstance(got, _Nd):
                res.fail(key, f"symbols.entity has no case for entity type {e!r} (restriction {restr!r}): the entity index silently becomes {got!r}", sym.line(ef.node))
                break
    # psi table name suffix map
    et = repo.mod("ffcx.ir.elementtables")
    gn = et.func("generate_psi_table_name")
    res.functions.add(gn.key)
    for n in walk_no_nested(gn.node):
        if isinstance(n, ast.Subscript) and isinstance(n.value, ast.Dict) and ast.unparse(n.slice) == "entity_type":
            keys = {const_value(k) for k in n.value.keys}
            key = f"{gn.key}:entity-suffix"
            res.ob(key)
            if keys != set(entity_types):
                res.fail(key, f"table-name suffix map covers {sorted(keys)}, entity types are {sorted(entity_types)}", et.line(n))
            vals = [const_value(v) for v in n.value.values]
            if len(set(vals)) != len(vals):
                res.fail(key, f"two entity types share a table-name suffix {vals}: tables of different entities collide", et.line(n))
    # integral-type families in representationutils
    ru = repo.mod("ffcx.ir.representationutils")
    for fname in ("create_quadrature_points_and_weights", "integral_type_to_entity_dim"):
        g = ru.func(fname)
        res.functions.add(g.key)
        src = ast.unparse(g.node)
        for fam in ("'cell'", "facet_integral_types", "ridge_integral_types", "point_integral_types"):
            key = f"{g.key}:family:{fam}"
            res.ob(key)
            if fam not in src:
                res.fail(key, f"{fname} has no case for {fam}", ru.line(g.node))


def _loop_body_nodes(cfg: CFG, loop: ast.AST) -> set[int]:
    inside = set()
    ids = {}
    for n in cfg.nodes:
        if n.ast is not None:
            ids.setdefault(id(n.ast), []).append(n.id)
    for st in loop.body:
        for x in ast.walk(st):
            for nid in ids.get(id(x), []):
                inside.add(nid)
    return inside


def _cond_vars(test: ast.AST) -> set[str]:
    return {n.id for n in ast.walk(test) if isinstance(n, ast.Name)}


@rule(
    "STALE-LOOPVAR",
    ["C19", "C11"],
    "S1: a variable with no definition before a loop, assigned in the loop body and read in it, is "
    "assigned on every path of the current iteration before that read (guards with syntactically "
    "equal, unmodified conditions are correlated); S2: the target of an inner `for` does not reach, "
    "through the back edge of an enclosing loop, a read that also sees a definition from before that loop",
    min_instances=150,
)
def stale_loopvar(repo, res):
    for m in repo.modules.values():
        for f in m.funcs.values():
            loops = [n for n in walk_no_nested(f.node) if isinstance(n, (ast.For, ast.While))]
            if not loops:
                continue
            cfg = CFG(f.node)
            IN, OUT = reaching_definitions(cfg, set(f.params))
            res.functions.add(f.key)
            defs_of = {n.id: node_defs(n) for n in cfg.nodes}
            for lp in loops:
                res.ob(f"{f.key}:loop:L{lp.lineno}")
                inside = _loop_body_nodes(cfg, lp)
                head = [n for n in cfg.nodes if n.ast is lp and n.label == "for-head"] or \
                       [n for n in cfg.nodes if n.kind == "test" and n.ast is getattr(lp, "test", None)]
                if not head or not inside:
                    continue
                head = head[0]
                entries = [y for y, k in cfg.succ[head.id] if y in inside]
                # ---------------- S1 ----------------
                assigned_in_loop = set()
                for nid in inside:
                    assigned_in_loop |= defs_of[nid]
                for v in sorted(assigned_in_loop):
                    # defined before the loop on some path? then a read may legitimately see that value
                    outside_defs = [d for d in IN.get(head.id, {}).get(v, set()) if d not in inside and d != head.id]
                    if outside_defs or v in defs_of[head.id]:
                        continue
                    reads = [(nid, u) for nid in inside for u in node_uses(cfg.nodes[nid]) if u.id == v]
                    if not reads:
                        continue
                    def_nodes = {nid for nid in inside if v in defs_of[nid]}
                    bad = _reach_without_def(cfg, entries, inside, def_nodes, {nid for nid, _ in reads}, head.id)
                    for nid in sorted(bad):
                        n = cfg.nodes[nid]
                        # accumulator idiom `x = f(x)` / `if not x: x = ...` is excluded: the read is in the defining node
                        if nid in def_nodes:
                            continue
                        res.fail(f"{f.key}:stale:{v}",
                                 f"`{v}` is read at line {n.lineno} in the loop at line {lp.lineno} of {f.key} on a path of the "
                                 "current iteration that does not assign it: the previous iteration's value is used "
                                 "silently (or UnboundLocalError on the first)", m.line(n.ast))
                        break
                # ---------------- S2 ----------------
                inner_fors = [x for st in lp.body for x in ast.walk(st) if isinstance(x, (ast.For,))]
                for inner in inner_fors:
                    ihead = [n for n in cfg.nodes if n.ast is inner and n.label == "for-head"]
                    if not ihead:
                        continue
                    ihead = ihead[0]
                    for v in defs_of[ihead.id]:
                        outside = [d for d in IN.get(head.id, {}).get(v, set()) if d not in inside and d != head.id and d != -1 or d == -1]
                        if not outside:
                            continue
                        for nid in inside:
                            n = cfg.nodes[nid]
                            if not any(u.id == v for u in node_uses(n)):
                                continue
                            rd = IN.get(nid, {}).get(v, set())
                            if ihead.id in rd and any(d in rd for d in outside):
                                # does the inner-for definition reach this read only via the enclosing loop's back edge?
                                direct = nid in cfg.reachable(ihead.id, blocked={head.id} | {x for x in inside if v in defs_of[x] and x != ihead.id})
                                if not direct:
                                    res.fail(f"{f.key}:carried-for-target:{v}",
                                             f"`{v}` (target of the inner for at line {inner.lineno}) is carried over the back edge of the "
                                             f"loop at line {lp.lineno} into the read at line {n.lineno}, which also sees the value "
                                             "assigned before the loop: the result depends on the order of iterations",
                                             m.line(n.ast))
                                    break


def _reach_without_def(cfg: CFG, entries, inside, def_nodes, read_nodes, head_id):
    """Read nodes reachable from the loop-body entry in ONE iteration without passing a definition.

    Path-sensitive on syntactically equal `if` conditions whose variables are not redefined."""
    # conditions appearing at least twice
    from collections import Counter, deque

    texts = Counter(ast.unparse(st.test) for tid, st in cfg.if_stmt.items() if tid in inside)
    tracked = {t for t, c in texts.items() if c >= 2}
    defs_cache = {n.id: node_defs(n) for n in cfg.nodes}
    bad = set()
    start_states = [(e, frozenset()) for e in entries]
    seen = set(start_states)
    dq = deque(start_states)
    while dq:
        nid, facts = dq.popleft()
        if nid in read_nodes and nid not in def_nodes:
            bad.add(nid)
        elif nid in read_nodes and nid in def_nodes:
            # reads happen before the definition takes effect in the same statement
            node = cfg.nodes[nid]
            if isinstance(node.ast, (ast.Assign, ast.AugAssign, ast.AnnAssign)):
                bad.add(nid)
        if nid in def_nodes:
            continue
        # kill facts whose variables are redefined here
        if defs_cache[nid]:
            facts = frozenset((t, val) for t, val in facts if not (_text_vars(t) & defs_cache[nid]))
        succs = [(y, k) for y, k in cfg.succ[nid] if y in inside and y != head_id]
        st = cfg.if_stmt.get(nid)
        if st is not None:
            t = ast.unparse(st.test)
            known = dict(facts).get(t)
            tset = cfg.if_true.get(nid, set())
            for y, k in succs:
                if k != "n":
                    nf = facts
                    branch = None
                else:
                    branch = y in tset
                    if known is not None and branch != known:
                        continue
                    nf = facts | {(t, branch)} if t in tracked else facts
                s2 = (y, nf)
                if s2 not in seen:
                    seen.add(s2)
                    dq.append(s2)
            continue
        for y, k in succs:
            s2 = (y, facts)
            if s2 not in seen:
                seen.add(s2)
                dq.append(s2)
    return bad


_tv_cache: dict[str, set[str]] = {}


def _text_vars(t: str) -> set[str]:
    if t not in _tv_cache:
        try:
            _tv_cache[t] = {n.id for n in ast.walk(ast.parse(t, mode="eval")) if isinstance(n, ast.Name)}
        except SyntaxError:
            _tv_cache[t] = set()
    return _tv_cache[t]


@rule(
    "REJECTIONS",
    ["C19"],
    "unsupported input is rejected with an exception, decided by interpreting the rejecting functions on one accepted and one "
    "unsupported sample each: untyped operands in merge_dtypes; a non-symbol array base in ArrayAccess; zero tables and non-scalar "
    "integrands in IntegralGenerator.generate_block_parts; zero tables in ExpressionGenerator.generate_block_parts; several point sets "
    "in ExpressionGenerator.__init__. (An element of codimension 3 in build_optimized_tables: GEN-TABLES. Empty forms, custom integral types, "
    "vertex integrals with discontinuous elements, inconsistent quadrature elements: QMETA-INTERP; unknown objects: ANALYZE-OBJECTS; "
    "codimension in the tabulation: GEN-TABVALUES; mixed-rank sums: FACT-LAWS; invalid namespaces, duplicate aliases: COMPILE-PIPELINE, "
    "ALIAS-NAMES; oversized or negative subdomain ids: SUBDOMAIN-IDS.)",
    min_instances=6,
)
def rejections(repo, res):
    from ..absint import Interp, Node, Raised, _PyCall
    from ..lnodes_model import load_classes

    LN = "ffcx.codegeneration.lnodes"
    lm = repo.mod(LN)

    def expect(key, fn, accepted, rejected, what, loc):
        """accepted / rejected: zero-argument callables that interpret the function on a sample"""
        res.ob(key)
        try:
            accepted()
        except Raised as e:
            res.fail(key, f"{fn}: a supported sample is rejected ({e.what})", loc)
            return
        try:
            out = rejected()
            res.fail(key, f"{fn} accepts {what} (result {str(out)[:60]}) instead of raising: unsupported input reaches the code generator / the C compiler", loc)
        except Raised:
            pass

    # 1. merge_dtypes
    f = lm.func("merge_dtypes")
    res.functions.add(f.key)
    it = Interp(repo, load_classes(repo), primary=LN)
    expect(f"{f.key}:rejects:untyped operands in arithmetic", "merge_dtypes", lambda: it.call_f(f, [["DataType.REAL", "DataType.INT"]]),
           lambda: it.call_f(f, [["DataType.REAL", "DataType.NONE"]]), "an operand without a data type", lm.line(f.node))
    # 2. ArrayAccess
    f = lm.func("ArrayAccess.__init__")
    res.functions.add(f.key)
    it2 = Interp(repo, load_classes(repo), primary=LN)
    sym = it2.construct("Symbol", ["t", "DataType.REAL"], {})
    expect(f"{f.key}:rejects:non-symbol array bases", "ArrayAccess", lambda: it2.construct("ArrayAccess", [sym, [0]], {}),
           lambda: it2.construct("ArrayAccess", [it2.construct("LiteralFloat", [1.5], {}), [0]], {}), "an array base that is neither a symbol nor an array declaration", lm.line(f.node))
    # 2b. Bessel functions of non-integer order: <math.h>'s jn / yn take an `int` order, a real order would silently be truncated (J_0 for J_0.5)
    f = lm.func("_math_function")
    res.functions.add(f.key)
    it2b = Interp(repo, load_classes(repo), primary=LN)
    xs = it2b.construct("Symbol", ["x", "DataType.REAL"], {})
    for hn in ("bessel_j", "bessel_y"):
        expect(f"{f.key}:rejects:{hn} of non-integer order", "_math_function",
               lambda hn=hn: it2b.call_f(f, [Node("UflOperator", _ufl_handler_name_=hn), it2b.construct("LiteralInt", [2], {}), xs]),
               lambda hn=hn: it2b.call_f(f, [Node("UflOperator", _ufl_handler_name_=hn), it2b.construct("LiteralFloat", [0.5], {}), xs]),
               f"a {hn} of order 0.5 (C's jn / yn take an int order: the kernel would compute order 0)", lm.line(f.node))
    # 3. integral generator blocks
    from .genblocks import IG, _World
    igm = repo.mod(IG)
    g = igm.func("IntegralGenerator.generate_block_parts")
    res.functions.add(g.key)

    def ig_run(ttype0="varying", extra_factor=False):
        w = _World(repo)
        T = w.table
        terms = [("f0", [(T("FE0", (1, 1, 2, 3), ttype=ttype0), None), (T("FE1", (1, 1, 2, 3)), None)])]
        gen, blocklist = w.setup("cell", "cell", (3, 3), terms)
        if extra_factor:
            blocklist[0].f["factor_indices_comp_indices"] = [(0, 0), (0, 1)]
        return w.I.call_f(g, [gen, w.rule, "triangle", ((0, 1, 2), (0, 1, 2)), blocklist])
    expect(f"{g.key}:rejects:zero tables in blocks", "IntegralGenerator.generate_block_parts", ig_run, lambda: ig_run(ttype0="zeros"), "a block whose argument table is identically zero",
           igm.line(g.node))
    expect(f"{g.key}:rejects:non-scalar integrands", "IntegralGenerator.generate_block_parts", ig_run, lambda: ig_run(extra_factor=True), "a block with several integrand components",
           igm.line(g.node))
    # 4. expression generator
    EG = "ffcx.codegeneration.expression_generator"
    em = repo.mod(EG)
    init = em.func("ExpressionGenerator.__init__")
    res.functions.add(init.key)

    def eg_init(nkeys):
        it3 = Interp(repo, load_classes(repo), primary=EG)
        r_ = Node("QuadratureRule", id=_PyCall(lambda: "r"))
        integrand = {("c", Node("QuadratureRule", id=_PyCall(lambda k=k: f"r{k}"))): {} for k in range(nkeys)}
        ir = Node("ExpressionIR", expression=Node("CommonExpressionIR", integrand=integrand))
        o = Node("ExpressionGenerator")
        it3.call_f(init, [o, ir, Node("FFCXBackend")])
        return o
    expect(f"{init.key}:rejects:several point sets", "ExpressionGenerator.__init__", lambda: eg_init(1), lambda: eg_init(2), "an expression IR with two point sets", em.line(init.node))
    gb = em.func("ExpressionGenerator.generate_block_parts")
    res.functions.add(gb.key)

    def eg_block(ttype):
        import itertools as _it
        w = _World(repo)
        w.I.obj_classes["ExpressionGenerator"] = EG
        w.I.primary = em
        w.I.lalias = {a for a, t in em.imports.items() if t == LN}
        w.I.overrides["pairwise"] = _PyCall(lambda x: list(_it.pairwise(list(x))))
        w.I.overrides["product"] = _PyCall(lambda *xs: [tuple(t) for t in _it.product(*[list(x) for x in xs])])
        w.I.overrides["ufl.product"] = _PyCall(lambda seq: __import__("math").prod(list(seq)))
        td = w.table("FE0", (1, 1, 2, 3), ttype=ttype)
        gen0, blocklist = w.setup("cell", "expression", (3,), [("f0", [(td, None)])])
        key_ = next(iter(gen0.f["ir"].f["expression"].f["integrand"]))
        ex = gen0.f["ir"].f["expression"]
        ex.f["shape"] = ()
        pts = Node("ndarray", shape=(2, 2), size=4)
        key_[1].f["points"] = pts
        gen = Node("ExpressionGenerator", ir=gen0.f["ir"], backend=gen0.f["backend"], scope=dict(gen0.f["scopes"][key_]), quadrature_rule=key_, _ufl_names=set())
        return w.I.call_f(gb, [gen, ((0, 1, 2),), blocklist[0]])
    expect(f"{gb.key}:rejects:zero tables in blocks", "ExpressionGenerator.generate_block_parts", lambda: eg_block("varying"), lambda: eg_block("zeros"),
           "a block whose argument table is identically zero", em.line(gb.node))


@rule(
    "SUBDOMAIN-IDS",
    ["C06", "C19"],
    "_compute_form_ir interpreted on sample subdomain-id tuples: UFL's \"otherwise\" becomes -1; every user-supplied id that is "
    "negative (-1 is reserved for the everywhere integral) or does not fit the `int` of ufcx_form.form_integral_ids (> 2^31 - 1: the C "
    "initialiser would wrap to a negative id and break the ordering) is rejected with an exception; all other ids - Python or NumPy "
    "integers - are listed unchanged, once per id of the tuple",
    min_instances=10,
)
def subdomain_ids(repo, res):
    from ..absint import Node, PyNative, Raised
    from .descriptor import form_ir_sample

    rep = repo.mod("ffcx.ir.representation")
    f = rep.func("_compute_form_ir")
    res.functions.add(f.key)
    loc = rep.line(f.node)

    from ..npmodel import NPInt as int64

    INT_MAX = 2**31 - 1
    samples = [(("otherwise",), None), ((0,), None), ((3, "otherwise"), None), ((0, 7, 12), None), ((INT_MAX,), None), ((int64(5), int64(9)), None),
               ((-1,), "negative"), ((-2,), "negative"), ((4, -1), "negative"), ((INT_MAX + 1,), "too large"), ((3, 2**40), "too large"), ((int64(2**31),), "too large")]
    for ids, why in samples:
        key = f"{f.key}:ids:{ids}"
        res.ob(key)
        itg = [Node("IntegralData", integral_type="cell", subdomain_id=ids)]
        it, args, _n = form_ir_sample(repo, 2, "full", itg=itg)
        args[4] = {(5, 0): "integral_a"}
        args[5] = {"integral_a": ["dom_a"]}
        try:
            out = it.call_f(f, args)
            raised = None
        except Raised as e:
            out, raised = None, e.what
        if why is not None:
            if raised is None:
                got = out.f.get("subdomain_ids", {}).get("cell") if isinstance(out, Node) else out
                res.fail(key, f"integral ids {ids} are accepted (listed as {got}): "
                         + ("-1 is reserved for the everywhere integral, m*dx(-1) + 2*m*dx would list both kernels under id -1"
                            if why == "negative" else
                            f"form_integral_ids is an array of C int; {max(i for i in ids if i != 'otherwise')} does not fit and the compiler wraps it to a negative id, "
                            "out of order and indistinguishable from a reserved one"), loc)
            continue
        if raised is not None:
            res.fail(key, f"legitimate integral ids {ids} are rejected ({raised})", loc)
            continue
        got = out.f.get("subdomain_ids", {}).get("cell") if isinstance(out, Node) else None
        want = [(-1 if i == "otherwise" else int(i)) for i in ids]
        if got is None or [(-1 if i == "otherwise" else int(i)) for i in got] != want or any(i == "otherwise" for i in got):
            res.fail(key, f"integral ids {ids} are listed as {got}, expected {want} (\"otherwise\" is id -1, every other id is kept)", loc)
        nm = out.f.get("integral_names", {}).get("cell") if isinstance(out, Node) else None
        if nm != ["integral_a"] * len(ids):
            res.fail(key, f"an integral over the ids {ids} is listed with names {nm}: it counts once for each of its ids", loc)


