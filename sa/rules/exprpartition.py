"""Declared types of intermediate variables in both kernel generators (C19, C09, C04).

PARTITION-DTYPE  IntegralGenerator.generate_partition and ExpressionGenerator.generate_partition are interpreted from source on a
                 sample factorisation graph whose terminal accesses are typed (geometry: REAL, coefficient: SCALAR, an integer
                 literal), with `L.ufl_to_lnodes` replaced by a stub that delivers, like LNodes, the join of its operands' types.
                 For every intermediate `T s_j = expr;` the declared type T must
                   (a) be no narrower than what the operands deliver (BOOL < INT < REAL < SCALAR; comparisons are BOOL, real() /
                       imag() are REAL): a narrower declaration drops the imaginary part;
                   (b) be an *ordered* type when the variable is an operand of <, <=, >, >=: in complex mode SCALAR is
                       `double _Complex`, and `sp_0 < 0.5` with a complex left operand is not C17 (the compiler rejects it), so a
                       value computed from REAL operands must be declared REAL;
                 and both generators must give the same types for the same graph.
"""

from __future__ import annotations

from ..absint import Interp, Node, Raised, _PyCall
from ..lnodes_model import load_classes
from ..model import AnalysisError
from ..registry import rule

IG = "ffcx.codegeneration.integral_generator"
EG = "ffcx.codegeneration.expression_generator"
ORDER = ["DataType.BOOL", "DataType.INT", "DataType.REAL", "DataType.SCALAR"]


def _join(ts):
    return max(ts, key=ORDER.index)


@rule(
    "PARTITION-DTYPE",
    ["C19", "C09", "C04"],
    "generate_partition of the integral and the expression generator interpreted on a typed sample graph: an intermediate variable is "
    "declared no narrower than the join of its operand types, a variable compared with < <= > >= is of an ordered (non-complex) type "
    "whenever its operands are, and both generators agree",
    min_instances=12,
)
def partition_dtype(repo, res):
    def uexpr(cls, name, ops=(), literal=False):
        return Node(cls, name=name, _ufl_is_literal_=literal, ufl_operands=list(ops), _ufl_handler_name_=name)

    x0, x1, f_, g_ = uexpr("SpatialCoordinate", "x0"), uexpr("SpatialCoordinate", "x1"), uexpr("Coefficient", "f"), uexpr("Coefficient", "g")
    half = uexpr("FloatValue", "half", literal=True)
    half.f["value"] = 0.5
    two = uexpr("IntValue", "two", literal=True)
    two.f["value"] = 2
    prod = uexpr("Product", "x0_times_x1", [x0, x1])
    sumx = uexpr("Sum", "prod_plus_x0", [prod, x0])
    lt = uexpr("LT", "sum_lt_half", [sumx, half])
    twof = uexpr("Product", "two_times_f", [two, f_])
    cond = uexpr("Conditional", "cond_f_2f", [lt, f_, twof])
    ref = uexpr("Real", "real_f", [f_])
    gt = uexpr("GT", "real_f_gt_x0", [ref, x0])
    fx = uexpr("Product", "f_times_x0", [f_, x0])
    cond2 = uexpr("Conditional", "cond_x0_fx", [gt, x0, fx])
    sq = uexpr("Sqrt", "sqrt_prod", [prod])
    ge = uexpr("GE", "sqrt_ge_half", [sq, half])
    pw = uexpr("Power", "x0_pow_f", [x0, f_])  # real base, complex exponent: the value is complex
    pw2 = uexpr("Power", "x0_pow_two", [x0, two])
    # integer literals are numbers: a value built from them alone is still divided as a real number (UFL's `/` is true division)
    three = uexpr("IntValue", "three", literal=True)
    three.f["value"] = 3
    cint = uexpr("Conditional", "cond_two_three", [lt, two, three])
    quot = uexpr("Division", "cond_over_two", [cint, two])
    inv = uexpr("Division", "x0_over_cond", [x0, cint])
    terminal_types = {"x0": "DataType.REAL", "x1": "DataType.REAL", "f": "DataType.SCALAR", "g": "DataType.SCALAR"}
    ops_nodes = [prod, sumx, lt, twof, cond, ref, gt, fx, cond2, sq, ge, pw, pw2, cint, quot, inv]
    nodes = {}
    for t in (x0, x1, f_):
        nodes[len(nodes)] = {"status": "varying", "expression": t, "mt": Node("ModifiedTerminal", name=t.f["name"]), "tr": Node("Table", name="FE_" + t.f["name"])}
    for o in ops_nodes:
        nodes[len(nodes)] = {"status": "varying", "expression": o}

    def expected(v, types):
        if v.cls in ("LT", "GT", "LE", "GE", "EQ", "NE"):
            return "DataType.BOOL"
        if v.cls in ("Real", "Imag"):
            return "DataType.REAL"
        ops = [types[o.f["name"]] for o in v.f["ufl_operands"]]
        if v.cls == "Conditional":
            ops = ops[1:]
        t = _join(ops)
        # a value is never an integer variable: `int sv = cond ? 2 : 3; ... sv / 2` is integer division in C
        return "DataType.REAL" if t == "DataType.INT" else t

    lit_types = {"half": "DataType.REAL", "two": "DataType.INT", "three": "DataType.INT"}
    ideal = {**terminal_types, **lit_types}  # what each node's value is, from the terminals up
    for o in ops_nodes:
        ideal[o.f["name"]] = expected(o, ideal)
    declared = {}
    for modname, cls in ((IG, "IntegralGenerator"), (EG, "ExpressionGenerator")):
        m = repo.mod(modname)
        gp = m.func(f"{cls}.generate_partition")
        res.functions.add(gp.key)
        loc = m.line(gp.node)
        I = Interp(repo, load_classes(repo), primary=modname)
        I.obj_classes = {cls: modname}
        for nm in ("get_var", "set_var", "init_scopes", "new_temp_symbol", "get_temp_symbol"):
            if f"{cls}.{nm}" in m.funcs:
                res.functions.add(m.funcs[f"{cls}.{nm}"].key)
        r1 = Node("QuadratureRule", id=_PyCall(lambda: "r1"))

        def access_get(mt, tabledata, rule, _I=I):
            return _I.construct("Symbol", [f"acc_{mt.f['name']}", terminal_types[mt.f["name"]]], {})

        def defs_get(mt, tabledata, rule, acc, _I=I):
            return _I.construct("Section", [f"def_{mt.f['name']}", [], [], [], []], {})  # (built by its own constructor: its own __eq__ compares definitions)

        # the real L.ufl_to_lnodes is interpreted: its dispatch table is keyed by UFL classes, which the sample nodes carry by name
        # (keys: every ufl class the module mentions stands for itself; the table is evaluated as module initialisation leaves it)
        I.install_ufl_classes("ffcx.codegeneration.lnodes")
        for nm_ in ("_ufl_handler_name_",):
            pass
        I.overrides["optimize"] = _PyCall(lambda code, rule=None: code)
        I.extra_bases.update({"LT": ("Condition",), "GT": ("Condition",), "GE": ("Condition",), "LE": ("Condition",)})
        I.overrides["ufl.classes.Condition"] = "Condition"
        backend = Node("FFCXBackend", access=Node("Access", get=_PyCall(access_get)), definitions=Node("Defs", get=_PyCall(defs_get)))
        F = Node("ExpressionGraph", nodes={k: dict(v) for k, v in nodes.items()})
        sym = I.construct("Symbol", ["sv", "DataType.SCALAR"], {})
        if cls == "IntegralGenerator":
            gen = Node(cls, ir=Node("IntegralIR", expression=Node("ExpressionIR", integrand={("triangle", r1): {}})), backend=backend, _ufl_names=set())
            args = [gen, sym, F, "varying", r1, "triangle"]
            try:
                I.call_f(m.func(f"{cls}.init_scopes"), [gen])
            except Raised as e:
                raise AnalysisError(f"init_scopes raises {e.what}")
        else:
            gen = Node(cls, ir=Node("ExpressionIR"), backend=backend, _ufl_names=set(), scope={}, quadrature_rule=("triangle", r1))
            args = [gen, sym, F, "varying"]
        key0 = f"{gp.key}:runs"
        res.ob(key0)
        try:
            # parameter order differs between the two classes: bind by name
            params = gp.params
            byname = {"self": gen, "symbol": sym, "F": F, "mode": "varying", "quadrature_rule": r1, "domain": "triangle"}
            if not set(params) <= set(byname):
                raise AnalysisError(f"{gp.key}: parameters {params} not understood")
            parts = I.call_f(gp, [byname[p_] for p_ in params])
        except Raised as e:
            res.fail(key0, f"{cls}.generate_partition raises ({e.what}) on the typed sample graph", loc)
            continue
        decls = {}
        found = []

        def walk(x):
            if isinstance(x, Node):
                if x.cls == "VariableDecl":
                    s_ = x.f.get("symbol")
                    found.append(s_.f.get("dtype") if isinstance(s_, Node) else None)
                    return
                for y in x.f.values():
                    walk(y)
            elif isinstance(x, (list, tuple)):
                for y in x:
                    walk(y)
            elif isinstance(x, dict):
                for y in x.values():
                    walk(y)
        walk(parts)
        # one intermediate per operator node, in graph order
        if len(found) != len(ops_nodes):
            raise AnalysisError(f"{gp.key}: {len(found)} intermediates declared for {len(ops_nodes)} operator nodes of the sample graph")
        decls = {o.f["name"]: t for o, t in zip(ops_nodes, found)}
        declared[cls] = decls
        types = dict(terminal_types)
        types.update(lit_types)
        for o in ops_nodes:
            nm = o.f["name"]
            key = f"{gp.key}:{nm}"
            res.ob(key)
            want = expected(o, types)
            got = decls.get(nm)
            types[nm] = got if got in ORDER else want
            if got is None:
                res.fail(key, f"{cls}: no declaration of an intermediate for `{nm}` ({o.cls})", loc)
                continue
            if got not in ORDER:
                res.fail(key, f"{cls}: `{nm}` is declared with type {got!r}", loc)
                continue
            if ORDER.index(got) < ORDER.index(want):
                res.fail(key, f"{cls}: the intermediate for `{nm}` ({o.cls}) is declared {got.split('.')[1]} but its operands deliver {want.split('.')[1]}: the "
                         "narrower variable drops the imaginary part (or the fraction) of the value - an `int` intermediate makes every division it takes part in an "
                         "integer division: (conditional(c, 3, 2) / 2) * v * dx tabulates 1/6 instead of 1/4 on the reference triangle", loc, props=("C09", "C19", "C04") if cls == "ExpressionGenerator" else ("C09", "C19"))
        # (b) operands of ordering comparisons
        for o in ops_nodes:
            if o.cls not in ("LT", "GT", "LE", "GE"):
                continue
            for opnd in o.f["ufl_operands"]:
                nm = opnd.f["name"]
                if nm not in decls:
                    continue
                key = f"{gp.key}:ordered-operand:{nm}"
                res.ob(key)
                want = ideal[nm]
                if decls[nm] == "DataType.SCALAR" and want != "DataType.SCALAR":
                    res.fail(key, f"{cls}: `{nm}` ({opnd.cls} of {[x.f['name'] for x in opnd.f['ufl_operands']]}, all real-typed) is declared SCALAR and then compared in "
                             f"`{o.f['name']}` ({o.cls}): in complex mode that is `double _Complex {nm} ...; ... {nm} < ...`, which is not valid C (an accepted "
                             "expression fails in the C compiler)", loc, props=("C19", "C04") if cls == "ExpressionGenerator" else ("C19",))
    key = "generators:partition-types-agree"
    res.ob(key)
    if len(declared) == 2:
        a, b = declared["IntegralGenerator"], declared["ExpressionGenerator"]
        diff = {k: (a.get(k), b.get(k)) for k in sorted(set(a) | set(b)) if a.get(k) != b.get(k)}
        if diff:
            k0 = next(iter(diff))
            res.notes.append(f"the two generators declare different types for the same graph: {k0}: integral {diff[k0][0]}, expression {diff[k0][1]} ({len(diff)} nodes)")


@rule(
    "GEN-GEOMTABLES",
    ["C19", "C04", "C02"],
    "generate_geometry_tables of both generators interpreted on a sample IR with two quadrature rules on one cell type (and a second "
    "cell type): every (reference-geometry class, cell name) that occurs in *any* integrand the kernel generates code for gets its "
    "static table declared, each once - a table needed only by the first of two rules must not be lost (undeclared identifier in C)",
    min_instances=2,
)
def gen_geomtables(repo, res):
    import ast as _ast

    from ..absint import _Cls

    for modname, cls in ((IG, "IntegralGenerator"), (EG, "ExpressionGenerator")):
        m = repo.mod(modname)
        g = m.func(f"{cls}.generate_geometry_tables")
        res.functions.add(g.key)
        loc = m.line(g.node)
        key = f"{g.key}:all-rules"
        res.ob(key)
        # names of the geometry classes the function's own map knows
        gnames = []
        for n in _ast.walk(g.node):
            if isinstance(n, _ast.Dict):
                for k in n.keys:
                    d = _ast.unparse(k)
                    if d.startswith("ufl.geometry."):
                        gnames.append(d.split(".")[-1])
        if len(gnames) < 5:
            raise AnalysisError(f"{g.key}: geometry table map not found")
        I = Interp(repo, load_classes(repo), primary=modname)
        I.obj_classes = {cls: modname}
        for nm in set(gnames) | {"GeometricFacetQuantity", "SpatialCoordinate", "Jacobian"}:
            I.overrides[f"ufl.geometry.{nm}"] = _Cls(nm)
        I.overrides["issubclass"] = _PyCall(lambda a, b: False)
        written = []
        I.overrides["geometry.write_table"] = _PyCall(lambda name, cellname: written.append((name, cellname)) or f"<table {cellname}_{name}>")
        tri = Node("Mesh", ufl_cell=_PyCall(lambda: Node("Cell", cellname="triangle")))
        I.overrides["ufl.domain.extract_unique_domain"] = _PyCall(lambda t: tri)
        use = [gnames[0], gnames[3 % len(gnames)], gnames[-1], gnames[1]]

        def graph(names):
            nodes = {}
            for k, nm in enumerate(names):
                nodes[k] = {"expression": None, "mt": Node("ModifiedTerminal", terminal=Node(nm, name=nm), restriction=None), "status": "piecewise"}
            nodes[len(nodes)] = {"expression": None, "status": "varying"}
            nodes[len(nodes)] = {"expression": None, "mt": Node("ModifiedTerminal", terminal=Node("SpatialCoordinate", name="x")), "status": "varying"}
            return Node("ExpressionGraph", nodes=nodes)

        r1, r2 = Node("QuadratureRule", name="r1"), Node("QuadratureRule", name="r2")
        if cls == "IntegralGenerator":
            integrand = {("CellType.triangle", r1): {"factorization": graph([use[0], use[1]])}, ("CellType.triangle", r2): {"factorization": graph([use[2]])},
                         ("CellType.interval", r1): {"factorization": graph([use[3]])}}
            want = {use[0], use[1], use[2]}
        else:
            integrand = {("CellType.triangle", r1): {"factorization": graph([use[0], use[1], use[2]])}}
            want = {use[0], use[1], use[2]}
        gen = Node(cls, ir=Node("IR", expression=Node("CommonExpressionIR", integrand=integrand, entity_type="facet", integral_type="exterior_facet")),
                   quadrature_rule=("CellType.triangle", r1))
        byname = {"self": gen, "domain": "CellType.triangle"}
        if not set(g.params) <= set(byname):
            raise AnalysisError(f"{g.key}: parameters {g.params} not understood")
        try:
            I.call_f(g, [byname[p_] for p_ in g.params])
        except Raised as e:
            res.fail(key, f"{cls}.generate_geometry_tables raises ({e.what}) on the sample IR", loc)
            continue
        # map class -> table name from the function's own dict
        tname = {}
        for n in _ast.walk(g.node):
            if isinstance(n, _ast.Dict):
                for k, v in zip(n.keys, n.values):
                    if _ast.unparse(k).startswith("ufl.geometry.") and isinstance(v, _ast.Constant):
                        tname[_ast.unparse(k).split(".")[-1]] = v.value
        got = [w_ for w_ in written if w_[1] == "triangle"]
        missing = sorted(tname[c] for c in want if (tname[c], "triangle") not in got)
        if missing:
            res.fail(key, f"{cls}: the integrands of the triangle kernel (two quadrature rules) use the reference-geometry tables {sorted(tname[c] for c in want)}, but "
                     f"{missing} is never declared - a table used only by one of several rules of the kernel is lost and the generated C refers to an undeclared identifier",
                     loc)
        dup = sorted({w_ for w_ in written if written.count(w_) > 1})
        if dup:
            res.fail(key, f"{cls}: the tables {dup} are declared twice (redefinition in C)", loc)


# GEOM-TABLE-DTYPE (f-string matching of table names) is retired: geomaccess.GEOM-ACCESS compares the declared and the accessing symbol's type
# on the interpreted declarations and access expressions.
