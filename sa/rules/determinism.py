"""C12 (and the history part of C13): deterministic, history-independent generation.

ORDER-TAINT   an unordered collection with process-dependent iteration order (unstable element
              hashes) must not be turned into an ordered value that reaches emitted text.
HISTORY-ID    process-history values (ufl_id, id(), zero-argument count(), hash(), clocks, pids, temp
              names) must not reach emitted text, symbol names or signatures.
GLOBAL-STATE  no function mutates a module-level container or a mutable default argument.
"""

from __future__ import annotations

import ast
import re

from ..model import call_name, dotted, walk_no_nested
from ..registry import rule
from ..taint import EMPTY, ORDL, SET, VAL, Config, Engine

GEN_MODULES = ("ffcx.codegeneration.C.", "ffcx.codegeneration.numba.")


def _is_sink(fa, call, name):
    mod = fa.mod
    head = name.split(".")[0] if name else ""
    last = name.split(".")[-1] if name else ""
    tgt = mod.imports.get(head, "")
    # any call into the LNodes module builds output AST
    if tgt == "ffcx.codegeneration.lnodes" and "." in name:
        return f"LNodes construction {name}(...)"
    if tgt.startswith("ffcx.codegeneration.lnodes.") and last[:1].isupper():
        return f"LNodes construction {name}(...)"
    if mod.name == "ffcx.codegeneration.lnodes":
        return None
    if last in ("format", "format_map") and (mod.name + ".").startswith(GEN_MODULES):
        return f"template {name}(...)"
    if last in ("CodeBlocks", "write_code", "format_code"):
        return f"{last}(...) (order of emitted blocks)"
    return None


# ufl.algorithms.analysis.extract_type "Build a set of all objects found in a whose class is in ufl_types"
LIBRARY_SET_RETURNING = {"extract_type"}
# ufl.cell.Cell: `sub_entity_types(dim)` returns tuple(set(...)) of Cell objects; facet_types, ridge_types, edge_types, face_types, peak_types, vertex_types wrap it
LIBRARY_SET_ORDERED_TUPLES = {"facet_types", "ridge_types", "sub_entity_types", "edge_types", "face_types", "peak_types"}

STABLE_ELEM_ANN = ("set[int]", "set[bool]", "set[tuple[int, ...]]", "set[basix.CellType]", "frozenset[int]")


class OrderClient(Config):
    def __init__(self):
        self._ann_cache = {}

    def _stable_by_annotation(self, fa, expr) -> bool:
        key = fa.func.key
        if key not in self._ann_cache:
            ids = set()
            for n in ast.walk(fa.func.node):
                if isinstance(n, ast.AnnAssign) and n.value is not None and ast.unparse(n.annotation).replace(" ", "") in [a.replace(" ", "") for a in STABLE_ELEM_ANN]:
                    ids.add(id(n.value))
            self._ann_cache[key] = ids
        return id(expr) in self._ann_cache[key]

    def element_unstable(self, fa, expr) -> bool:
        if isinstance(expr, ast.Call) and not expr.args and self._stable_by_annotation(fa, expr):
            return False  # e.g. `_argkeys: set[int] = set()`
        # E6 facts: ints, .number() results, basix.CellType hash like ints (stable across hash seeds)
        if isinstance(expr, (ast.GeneratorExp, ast.ListComp, ast.SetComp)):
            elt = expr.elt
            it = ast.unparse(expr.generators[0].iter)
            if isinstance(elt, ast.Call) and isinstance(elt.func, ast.Attribute) and elt.func.attr == "number":
                return False
            if isinstance(elt, ast.Subscript) and isinstance(elt.slice, ast.Constant) and elt.slice.value == 0 and ".integrand" in it:
                return False  # (CellType, QuadratureRule) keys
            tgt = expr.generators[0].target
            if isinstance(elt, ast.Name) and isinstance(tgt, ast.Tuple) and tgt.elts and isinstance(tgt.elts[0], ast.Name) and tgt.elts[0].id == elt.id \
                    and ".integrand" in it:
                return False  # the same first component, taken by unpacking `for cell_type, _ in ....integrand.keys()`
            return True
        if isinstance(expr, ast.Name) and expr.id in ("facet_types", "ridge_types"):
            return False  # lists of basix.CellType
        if isinstance(expr, ast.Name) and expr.id in ("w", "d1", "d2", "fac0", "fac1", "fac2"):
            return False  # tuples / lists of ints (argument indices, flattened component numbers)
        if isinstance(expr, ast.Call) and isinstance(expr.func, ast.Attribute) and expr.func.attr == "keys" \
                and isinstance(expr.func.value, ast.Name) and expr.func.value.id in ("fac0", "fac1", "fac2"):
            return False
        return True

    def source(self, fa, node):
        # E6 library facts: functions of ufl/basix that return an unordered set of UFL objects
        if isinstance(node, ast.Call):
            last = node.func.attr if isinstance(node.func, ast.Attribute) else (call_name(node) or "")
            if last in LIBRARY_SET_RETURNING:
                return frozenset({(SET, fa.site(node, "library-set:" + last))})
        # Not a source here: ufl.Cell.facet_types / ridge_types are tuple(set(<Cell objects>)), whose order changes with the hash seed, but
        # each element is processed on its own and only the *insertion order* of the (cell type, rule) maps filled from them is affected.
        # Treating the tuple as order-tainted makes every per-kernel loop over such a map (which filters one cell type) a report on
        # the unchanged tree. The consequence that matters - the order in which kernels are emitted - is decided by GEN-CODE-ORDER
        # (generate_code interpreted under every insertion order of the map).
        return EMPTY

    def sink(self, fa, call, name):
        s = _is_sink(fa, call, name)
        if s:
            return s
        last = name.split(".")[-1] if name else ""
        if name.startswith("hashlib.") or last in ("compute_expression_signature",):
            return f"signature hash {name}(...)"
        return None


class HistoryClient(Config):
    def is_sanitiser(self, name):
        return False

    def element_unstable(self, fa, expr):
        return False  # order is the other rule's business

    def clean_call(self, fa, call, name):
        # allowed use: id(obj) as the key of a lookup `names.get(id(obj), default)`
        # ... and a history value used as the *key* of get/setdefault (the value stored is not derived from it)
        if isinstance(call.func, ast.Attribute) and call.func.attr in ("get", "setdefault") and call.args:
            a0 = call.args[0]
            if isinstance(a0, ast.Call) and self.source(fa, a0):
                rest = list(call.args[1:]) + [k.value for k in call.keywords]
                if not any(isinstance(x, ast.Call) and self.source(fa, x) for r in rest for x in ast.walk(r)):
                    return True
        return False

    def source(self, fa, node):
        if not isinstance(node, ast.Call):
            return EMPTY
        if fa.func.node.name in ("__hash__", "__eq__", "__repr__"):
            return EMPTY
        nm = call_name(node) or ""
        last = node.func.attr if isinstance(node.func, ast.Attribute) else nm.split(".")[-1]
        what = None
        if nm == "id" and len(node.args) == 1:
            what = "id()"
        elif last == "ufl_id" and not node.args:
            what = "ufl_id()"
        elif last == "count" and not node.args and not node.keywords and isinstance(node.func, ast.Attribute):
            what = "count()"
        elif nm == "hash":
            what = "hash()"
        elif nm in ("time.time", "time.time_ns", "time.perf_counter", "time.monotonic", "os.getpid", "os.urandom",
                    "uuid.uuid4", "uuid.uuid1", "datetime.now", "datetime.datetime.now", "tempfile.mkdtemp", "tempfile.mktemp",
                    "tempfile.mkstemp") or nm.startswith("random.") or nm.startswith("np.random.") or nm.startswith("secrets."):
            what = nm + "()"
        if nm == "next" and node.args and isinstance(node.args[0], ast.Name) and node.args[0].id in fa.mod.assigns \
                and node.args[0].id not in fa.params:
            what = f"next({node.args[0].id}) on a module-level iterator"
        if what is None:
            return EMPTY
        return frozenset({(VAL, fa.site(node, "history:" + what))})

    def sink(self, fa, call, name):
        s = _is_sink(fa, call, name)
        if s:
            return s
        last = name.split(".")[-1] if name else ""
        if name.startswith("hashlib.") or last in ("compute_signature", "sha1", "sha256", "md5"):
            return f"signature hash {name}(...)"
        if last in ("integral_name", "form_name", "expression_name"):
            return f"object name {name}(...)"
        return None


def _run(repo, client):
    eng = Engine(repo, client)
    eng.run()
    return eng


@rule(
    "ORDER-TAINT",
    ["C12", "C13", "C14"],
    "forward taint analysis over the whole package (flow-sensitive via reaching definitions, "
    "interprocedural summaries, record fields by name): an unordered collection with unstable "
    "element hashes (str, L.Symbol, basix elements, UFL objects) that is iterated / converted to "
    "an ordered value without sorted() must not reach LNodes construction, a template format call, "
    "the list of emitted code blocks or a signature hash",
    min_instances=20,
)
def order_taint(repo, res):
    eng = _run(repo, OrderClient())
    # enumerate all set-valued source sites seen
    sources = set()
    for fa in eng.fas.values():
        res.functions.add(fa.func.key)
    all_t = list(eng.param_taint.values()) + list(eng.ret_taint.values()) + list(eng.field_taint.values())
    for fa in eng.fas.values():
        all_t.extend(fa.def_taint.values())
        all_t.extend(fa.loop_taint.values())
    for t in all_t:
        for k, s in t:
            sources.add(s)
    # every syntactic set construction is an instance (stable or not)
    for m in repo.modules.values():
        for f in m.funcs.values():
            for n in walk_no_nested(f.node):
                if (isinstance(n, ast.Call) and call_name(n) in ("set", "frozenset")) or isinstance(n, (ast.Set, ast.SetComp)):
                    res.ob(f"{f.key}:set:{ast.unparse(n)[:40]}")
    for s in sorted(sources | set(eng.hits)):
        hits = eng.hits.get(s, [])
        if hits:
            sink, fkey, loc, kind = hits[0]
            others = len(hits) - 1
            res.fail(
                s,
                f"unordered collection built at {s.rsplit(':', 2)[0]} is iterated in hash order and reaches "
                f"{sink} in {fkey} ({loc}) as {kind}" + (f" (+{others} more sinks)" if others else "")
                + ": generated text depends on PYTHONHASHSEED",
                _loc_of(repo, s),
                props=_props_for(hits),
            )
    res.notes.append(f"taint fixpoint after {eng.iterations} rounds over {len(eng.fas)} functions; {len(sources)} unstable set sources")


def _props_for(hits):
    """C12/C13 always; C14 (one build per module among concurrent processes) only when a module / object name is affected."""
    names = any(("signature" in str(h[0]) or "hashlib" in str(h[0]) or "naming" in str(h[1]) or "name" in str(h[0])) for h in hits)
    return ("C12", "C13", "C14") if names else ("C12", "C13")


def _loc_of(repo, site):
    parts = site.split(":")
    try:
        f = repo.func(parts[0] + ":" + parts[1])
        return f.module.line(f.node)
    except Exception:
        return ""


@rule(
    "HISTORY-ID",
    ["C12", "C13", "C14"],
    "values that depend on process history (ufl_id(), builtin id(), zero-argument .count(), hash(), "
    "clocks, pids, random, temp names) must not flow into LNodes construction, templates, object "
    "names or signature hashes; allowed: id(obj) used as the key of a `.get` lookup, count() used as "
    "argument of tuple.index",
    min_instances=8,
)
def history_id(repo, res):
    client = HistoryClient()
    eng = _run(repo, client)
    for fa in eng.fas.values():
        for n in walk_no_nested(fa.func.node):
            if isinstance(n, ast.Call) and client.source(fa, n):
                res.ob(next(iter(client.source(fa, n)))[1])
    for s, hits in sorted(eng.hits.items()):
        sink, fkey, loc, kind = hits[0]
        res.fail(
            s,
            f"process-history value {s.split(':')[-2] if s.count(':') >= 3 else s} (site {s.rsplit(':', 2)[0]}) reaches {sink} in {fkey} ({loc})"
            + (f" (+{len(hits) - 1} more sinks)" if len(hits) > 1 else "")
            + ": names / text / signatures differ between processes",
            _loc_of(repo, s),
            props=_props_for(hits),
        )


STATEFUL_CTORS = {"dict", "list", "set", "defaultdict", "OrderedDict", "Counter", "deque", "count", "cycle", "iter",
                  "bytearray", "WeakValueDictionary", "WeakKeyDictionary", "SimpleNamespace"}
MUTATING = {"append", "extend", "insert", "add", "update", "setdefault", "pop", "popitem", "clear", "remove", "discard", "sort", "reverse", "__setitem__"}


@rule(
    "GLOBAL-STATE",
    ["C12"] + [f"C{i:02d}" for i in range(1, 21) if i != 12],
    "no function stores into / mutates a module-level mutable container (or an alias of one that it "
    "publishes into a returned structure), and no mutable default argument is mutated in its function",
    min_instances=3,
)
def global_state(repo, res):
    """Findings count for C12 and for the properties anchored in the file where the state lives (process-lifetime state there makes
    the behaviour they describe depend on earlier compilations)."""
    _global_state(repo, res)
    from ..registry import anchor_props

    kernel_props = {f"C{i:02d}" for i in range(1, 12)} | {"C18", "C20"}  # (numba kernels and the command line run the same stages, all forms of a file in one process)
    for f_ in res.findings:
        mod_ = f_.key.split(":")[0]
        props_ = {"C12"} | anchor_props(mod_)
        # state kept by a stage that kernels are generated from (analysis, IR, code generation - not the JIT driver, the options or the
        # command line) makes every later kernel of the process a function of the earlier requests: every kernel property quantifies over
        # such kernels too
        if mod_.startswith(("ffcx.ir.", "ffcx.codegeneration.", "ffcx.analysis", "ffcx.element_interface")) and not mod_.endswith(".jit"):
            props_ |= kernel_props
        f_.props = tuple(sorted(props_))


def _global_state(repo, res):
    # memoisation decorators are process-lifetime state; harmful when the cache key conflates inputs the function tells apart
    for m in repo.modules.values():
        for f in m.funcs.values():
            decos = [ast.unparse(d) for d in f.node.decorator_list]
            cached = [d for d in decos if re.search(r"\b(lru_cache|cache|cached_property)\b", d) and "cached_property" not in d]
            if not cached:
                continue
            key = f"{f.key}:memoised"
            res.ob(key)
            params = [p for p in f.params if p != "self"]
            tells_types_apart = [ast.unparse(n)[:60] for n in ast.walk(f.node)
                                 if isinstance(n, ast.Call) and call_name(n) in ("isinstance", "type") and n.args
                                 and isinstance(n.args[0], ast.Name) and n.args[0].id in params]
            if tells_types_apart:
                res.fail(key, f"{f.key} is memoised (`@{cached[0]}`) for the life of the process, and its result depends on the *type* of an argument "
                         f"({tells_types_apart[0]}) while cache keys compare by ==/hash: 3 and 3.0 (0 and 0.0, -0.0 and 0.0) share one entry, so the text printed "
                         "for a value depends on what an earlier compilation printed first", m.line(f.node))
            elif "self" in f.params:
                res.fail(key, f"{f.key} is a memoised method: the cache outlives the object and is keyed by `self`", m.line(f.node))
    for m in repo.modules.values():
        mutable_globals = {}
        for name, val in m.assigns.items():
            if isinstance(val, (ast.Dict, ast.List, ast.Set, ast.ListComp, ast.DictComp, ast.SetComp)) or (
                isinstance(val, ast.Call) and (call_name(val) or "").split(".")[-1] in STATEFUL_CTORS):
                mutable_globals[name] = val
        for name, vals in m.cond_assigns.items():
            for val in vals:
                if name not in mutable_globals and (isinstance(val, (ast.Dict, ast.List, ast.Set, ast.ListComp, ast.DictComp, ast.SetComp)) or (
                        isinstance(val, ast.Call) and (call_name(val) or "").split(".")[-1] in STATEFUL_CTORS)):
                    mutable_globals[name] = val
        for g in mutable_globals:
            res.ob(f"{m.name}:global:{g}")
        for f in m.funcs.values():
            local_stores = {t.id for n in walk_no_nested(f.node) if isinstance(n, (ast.Assign, ast.AnnAssign, ast.AugAssign, ast.For))
                            for t in ast.walk(n.targets[0] if isinstance(n, ast.Assign) else n.target) if isinstance(t, ast.Name) and isinstance(t.ctx, ast.Store)}
            declared_global = {nm for n in walk_no_nested(f.node) if isinstance(n, ast.Global) for nm in n.names}
            # flow-sensitive aliases: name -> global, valid only where the aliasing definition reaches
            from ..cfg import CFG, reaching_definitions

            alias_defs = {}
            cfg_ = None
            for n in walk_no_nested(f.node):
                if isinstance(n, ast.Assign) and isinstance(n.value, ast.Name) and n.value.id in mutable_globals and n.value.id not in (local_stores - declared_global):
                    alias_defs[id(n)] = n.value.id
            if alias_defs:
                cfg_ = CFG(f.node)
                IN_, _ = reaching_definitions(cfg_, set(f.params))
                node_alias = {nd.id: alias_defs[id(nd.ast)] for nd in cfg_.nodes if nd.ast is not None and id(nd.ast) in alias_defs}

            def is_glob(expr, at=None):
                if isinstance(expr, ast.Name):
                    if expr.id in mutable_globals and (expr.id not in local_stores or expr.id in declared_global) and expr.id not in f.params:
                        return expr.id
                    if cfg_ is not None and at is not None:
                        for cn in cfg_.stmt_nodes_containing(at):
                            for d in IN_.get(cn.id, {}).get(expr.id, ()):
                                if d in node_alias:
                                    return node_alias[d]
                return None

            for n in walk_no_nested(f.node):
                tgt = None
                if isinstance(n, (ast.Assign, ast.AugAssign)):
                    ts = n.targets if isinstance(n, ast.Assign) else [n.target]
                    for t in ts:
                        if isinstance(t, ast.Subscript) and is_glob(t.value, n):
                            tgt = is_glob(t.value, n)
                        if isinstance(t, ast.Name) and t.id in declared_global:
                            tgt = t.id
                        # `alias += more`: in place for lists, sets and dicts - the module-level object grows
                        if isinstance(n, ast.AugAssign) and isinstance(t, ast.Name) and is_glob(t, n):
                            tgt = is_glob(t, n)
                if isinstance(n, ast.Call) and isinstance(n.func, ast.Attribute) and n.func.attr in MUTATING and is_glob(n.func.value, n):
                    tgt = is_glob(n.func.value, n)
                if isinstance(n, ast.Call) and call_name(n) == "next" and n.args and is_glob(n.args[0], n):
                    tgt = is_glob(n.args[0], n)
                if isinstance(n, (ast.Assign, ast.AugAssign)) and f.cls is not None:
                    ts = n.targets if isinstance(n, ast.Assign) else [n.target]
                    for t in ts:
                        if isinstance(t, ast.Attribute):
                            base = ast.unparse(t.value)
                            if base in (f.cls.name, "cls", "type(self)", "self.__class__") and f.node.name != "__init_subclass__":
                                res.fail(f"{f.key}:mutates-class-attr:{t.attr}", f"{f.key} stores into class attribute {base}.{t.attr}: state shared by all instances and compilations", m.line(n))
                if isinstance(n, ast.Delete):
                    for t in n.targets:
                        if isinstance(t, ast.Subscript) and is_glob(t.value, n):
                            tgt = is_glob(t.value, n)
                if tgt:
                    res.fail(f"{f.key}:mutates-global:{tgt}", f"{f.key} mutates module-level `{tgt}`: state leaks from one compilation into the next", m.line(n))
            # mutable containers bound in the class body and grown through an instance (`self.table[k] = v`, `self.table.setdefault(...)`)
            # without the instance getting its own container first: one object shared by all instances of the process
            if f.cls is not None and "self" in f.params:
                class_mut = {}
                for st in f.cls.body:
                    tg = st.targets[0] if isinstance(st, ast.Assign) else (st.target if isinstance(st, ast.AnnAssign) else None)
                    v_ = getattr(st, "value", None)
                    if isinstance(tg, ast.Name) and v_ is not None and (isinstance(v_, (ast.Dict, ast.List, ast.Set, ast.ListComp, ast.DictComp, ast.SetComp)) or (
                            isinstance(v_, ast.Call) and (call_name(v_) or "").split(".")[-1] in STATEFUL_CTORS)):
                        class_mut[tg.id] = st
                if class_mut:
                    # attributes every instance re-binds in __init__ are per-instance
                    init = m.funcs.get(f"{f.cls.name}.__init__")
                    own = set()
                    if init is not None:
                        for n in walk_no_nested(init.node):
                            if isinstance(n, (ast.Assign, ast.AnnAssign)):
                                for t in (n.targets if isinstance(n, ast.Assign) else [n.target]):
                                    if isinstance(t, ast.Attribute) and isinstance(t.value, ast.Name) and t.value.id == "self":
                                        own.add(t.attr)
                    for n in walk_no_nested(f.node):
                        hit = None
                        if isinstance(n, (ast.Assign, ast.AugAssign)):
                            for t in (n.targets if isinstance(n, ast.Assign) else [n.target]):
                                if isinstance(t, ast.Subscript) and isinstance(t.value, ast.Attribute) and isinstance(t.value.value, ast.Name) and t.value.value.id == "self" \
                                        and t.value.attr in class_mut:
                                    hit = t.value.attr
                        if isinstance(n, ast.Call) and isinstance(n.func, ast.Attribute) and n.func.attr in MUTATING and isinstance(n.func.value, ast.Attribute) \
                                and isinstance(n.func.value.value, ast.Name) and n.func.value.value.id == "self" and n.func.value.attr in class_mut:
                            hit = n.func.value.attr
                        if hit and hit not in own:
                            res.fail(f"{f.key}:mutates-class-container:{hit}", f"{f.key} grows `self.{hit}`, a container bound in the body of class {f.cls.name} and never re-bound per "
                                     "instance: all instances - all kernels and all compilations of the process - share one object", m.line(n))
            # mutable defaults
            a = f.node.args
            pos = a.posonlyargs + a.args
            defaults = [None] * (len(pos) - len(a.defaults)) + list(a.defaults)
            pairs = list(zip(pos, defaults)) + list(zip(a.kwonlyargs, a.kw_defaults))
            for arg, d in pairs:
                if d is None or not isinstance(d, (ast.Dict, ast.List, ast.Set)):
                    continue
                key = f"{f.key}:mutable-default:{arg.arg}"
                res.ob(key)
                rebound = False
                for n in walk_no_nested(f.node):
                    bad = False
                    if isinstance(n, (ast.Assign, ast.AugAssign)):
                        ts = n.targets if isinstance(n, ast.Assign) else [n.target]
                        for t in ts:
                            if isinstance(t, ast.Subscript) and isinstance(t.value, ast.Name) and t.value.id == arg.arg:
                                bad = True
                            if isinstance(t, ast.Name) and t.id == arg.arg and isinstance(n, ast.AugAssign):
                                bad = True
                    if isinstance(n, ast.Call) and isinstance(n.func, ast.Attribute) and n.func.attr in MUTATING \
                            and isinstance(n.func.value, ast.Name) and n.func.value.id == arg.arg:
                        bad = True
                    if bad:
                        res.fail(key, f"mutable default argument `{arg.arg}` of {f.key} is mutated: the change persists across calls", m.line(n))


# ---- the options dictionary is shared by every stage, integral and form of a request (and by all files of one command line): read-only ------------

def _callee_candidates(repo, m, call):
    """repository functions a call may denote (by imported name / attribute name; at most a handful)"""
    name = call_name(call) or ""
    last = name.split(".")[-1]
    if not last:
        return []
    head = name.split(".")[0]
    tgt = m.imports.get(head, "")
    out = []
    if "." not in name and last in m.funcs:
        return [m.funcs[last]]
    if "." not in name and tgt and "." in tgt:
        modname, fn = tgt.rsplit(".", 1)
        if modname in repo.modules and fn in repo.modules[modname].funcs:
            return [repo.modules[modname].funcs[fn]]
    for mod in repo.modules.values():
        for f in mod.funcs.values():
            if f.node.name == last and (f.cls is None or name.startswith("self.") or "." in name):
                out.append(f)
    return out if len(out) <= 4 else []


def _bind_args(f, call):
    """callee parameter name -> argument expression"""
    a = f.node.args
    params = [x.arg for x in a.posonlyargs + a.args]
    if f.cls is not None and params and params[0] in ("self", "cls"):
        params = params[1:]
    out = {}
    for prm, arg in zip(params, call.args):
        if not isinstance(arg, ast.Starred):
            out[prm] = arg
    names = set(params) | {x.arg for x in a.kwonlyargs}
    for kw in call.keywords:
        if kw.arg in names:
            out[kw.arg] = kw.value
    return out


@rule(
    "OPTIONS-READONLY",
    ["C12", "C10", "C20", "C13"],
    "the options dictionary of a request - the result of get_options and every parameter it is handed on to (propagated over call bindings to a fixpoint, "
    "aliases by plain assignment included) - is never stored into, deleted from or updated by a stage: one dictionary serves every integral and form "
    "of the request, is printed into the header and, on the command line, is reused for every file",
    min_instances=10,
)
def options_readonly(repo, res):
    holders: dict[str, set[str]] = {}
    funcs = [(m, f) for m in repo.modules.values() for f in m.funcs.values()]

    def add(f, name):
        s_ = holders.setdefault(f.key, set())
        if name in s_:
            return False
        s_.add(name)
        return True

    # seeds: what get_options returns; parameters called `options` of the public entry points (the JIT passes the merged dictionary on under that name)
    for m, f in funcs:
        if m.name == "ffcx.options":
            continue
        a = f.node.args
        for x in a.posonlyargs + a.args + a.kwonlyargs:
            if x.arg == "options":
                add(f, x.arg)
        for n in walk_no_nested(f.node):
            if isinstance(n, ast.Assign) and isinstance(n.value, ast.Call) and (call_name(n.value) or "").split(".")[-1] == "get_options":
                for t in n.targets:
                    if isinstance(t, ast.Name):
                        add(f, t.id)
    changed = True
    rounds = 0
    while changed and rounds < 20:
        changed = False
        rounds += 1
        for m, f in funcs:
            held = holders.get(f.key, set())
            if not held:
                continue
            for n in walk_no_nested(f.node):
                # aliases
                if isinstance(n, ast.Assign) and isinstance(n.value, ast.Name) and n.value.id in held:
                    for t in n.targets:
                        if isinstance(t, ast.Name):
                            changed |= add(f, t.id)
                if isinstance(n, ast.Call):
                    for g in _callee_candidates(repo, m, n):
                        if g.module.name == "ffcx.options":
                            continue
                        for prm, arg in _bind_args(g, n).items():
                            if isinstance(arg, ast.Name) and arg.id in held:
                                changed |= add(g, prm)
    for m, f in funcs:
        held = holders.get(f.key, set())
        if not held:
            continue
        key = f"{f.key}:options-read-only"
        res.ob(key)
        res.functions.add(f.key)
        for n in walk_no_nested(f.node):
            bad = None
            if isinstance(n, (ast.Assign, ast.AugAssign, ast.AnnAssign)):
                ts = n.targets if isinstance(n, ast.Assign) else [n.target]
                for t in ts:
                    if isinstance(t, ast.Subscript) and isinstance(t.value, ast.Name) and t.value.id in held:
                        bad = f"stores into `{t.value.id}[{ast.unparse(t.slice)}]`"
            if isinstance(n, ast.Delete):
                for t in n.targets:
                    if isinstance(t, ast.Subscript) and isinstance(t.value, ast.Name) and t.value.id in held:
                        bad = f"deletes `{ast.unparse(t)}`"
            if isinstance(n, ast.Call) and isinstance(n.func, ast.Attribute) and n.func.attr in MUTATING and isinstance(n.func.value, ast.Name) \
                    and n.func.value.id in held:
                bad = f"calls `{n.func.value.id}.{n.func.attr}(...)`"
            if bad:
                res.fail(key, f"{f.key} {bad}: `{sorted(held)[0] if len(held) == 1 else '/'.join(sorted(held))}` is the options dictionary of the request (from get_options, handed on "
                         "through the stages), shared by every integral and form compiled with it, printed into the generated header and reused by the command line for "
                         "the next file - the change outlives the integral it was made for, so what is generated depends on what was compiled before", m.line(n))


# ---- objects handed out by a memoised function live as long as the process: nobody may change them in place --------------------------------------

VIEW_METHODS = {"reshape", "view", "ravel", "squeeze", "transpose", "swapaxes", "astype_view", "get", "values", "items", "keys", "__getitem__", "flat"}
VIEW_FUNCS = {"np.asarray", "numpy.asarray", "np.ascontiguousarray", "np.asanyarray", "np.reshape", "np.ravel", "np.squeeze", "np.transpose", "np.atleast_1d",
              "np.atleast_2d", "np.broadcast_to", "list", "tuple", "dict", "iter", "reversed", "zip", "enumerate", "typing.cast", "cast"}
INPLACE_METHODS = MUTATING | {"fill", "put", "itemset", "resize", "setfield", "partition", "byteswap", "setflags"}
INPLACE_FUNCS = {"np.copyto": 0, "np.put": 0, "np.place": 0, "np.putmask": 0, "np.fill_diagonal": 0, "random.shuffle": 0, "np.random.shuffle": 0}


ELEMENT_METHODS = {"get", "values", "items", "pop", "popitem", "__getitem__", "setdefault"}
COPY_CTORS = {"list", "tuple", "dict", "set", "sorted", "reversed", "iter", "zip", "enumerate", "frozenset"}
GROW_METHODS = {"append", "extend", "insert", "add", "setdefault", "update", "appendleft"}


@rule(
    "CACHE-ALIAS",
    ["C12"] + [f"C{i:02d}" for i in range(1, 12)] + ["C18", "C20"],
    "what a memoised function (functools.cache / lru_cache) returns is shared by every later caller of the process: the value - and every view or element "
    "of it, followed through assignments, containers, returns and call bindings to a fixpoint - is never changed in place (subscript store, augmented "
    "assignment, mutating method, NumPy in-place function, out=); containers that merely hold such objects may be rearranged freely",
    min_instances=1,
)
def cache_alias(repo, res):
    funcs = [(m, f) for m in repo.modules.values() for f in m.funcs.values()]
    memo = {}
    for m, f in funcs:
        decos = [ast.unparse(d) for d in f.node.decorator_list]
        if any(re.search(r"\b(lru_cache|cache)\b", d) and "cached_property" not in d for d in decos):
            memo[f.key] = f
            res.ob(f"{f.key}:memoised-result-never-mutated")
            res.functions.add(f.key)
    res.ob("package:memoised-functions-enumerated")
    # per function: local name -> (depth, source): depth 0 = may BE (a view / a part of) a cached object; depth k > 0 = a fresh container with k levels of nesting
    # above such objects (a dict holding the array: 1, a list of such dicts: 2).  Only depth 0 may not be changed in place.
    kinds: dict[str, dict[str, tuple[int, str]]] = {}
    returns: dict[str, tuple[int, str]] = {}

    def setk(fkey, name, depth, src):
        d = kinds.setdefault(fkey, {})
        old = d.get(name)
        if old is not None and old[0] <= depth:
            return False
        d[name] = (depth, src)
        return True

    def best(ks):
        ks = [k for k in ks if k]
        return min(ks, key=lambda k: k[0]) if ks else None

    def kind(m, f, e):
        """(depth, source) or None for an expression"""
        loc = kinds.get(f.key, {})
        if isinstance(e, ast.Name):
            return loc.get(e.id)
        if isinstance(e, (ast.NamedExpr, ast.Starred)):
            return kind(m, f, e.value)
        if isinstance(e, ast.IfExp):
            return best([kind(m, f, e.body), kind(m, f, e.orelse)])
        if isinstance(e, ast.Subscript):
            k = kind(m, f, e.value)
            return (max(k[0] - 1, 0), k[1]) if k else None      # a view of an array / an element of a holder
        if isinstance(e, ast.Attribute):
            k = kind(m, f, e.value)
            return k if k and k[0] == 0 and e.attr in ("T", "real", "imag", "flat", "base") else None
        if isinstance(e, (ast.Tuple, ast.List, ast.Set)):
            k = best([kind(m, f, x) for x in e.elts])
            return (k[0] + 1, k[1]) if k else None
        if isinstance(e, ast.Dict):
            k = best([kind(m, f, x) for x in e.values if x is not None])
            return (k[0] + 1, k[1]) if k else None
        if isinstance(e, (ast.ListComp, ast.SetComp, ast.GeneratorExp, ast.DictComp)):
            # the element expression, with the loop variables bound to elements of what is iterated over
            saved = dict(loc)
            try:
                for g in e.generators:
                    k = kind(m, f, g.iter)
                    if k:
                        for nm in ast.walk(g.target):
                            if isinstance(nm, ast.Name):
                                kinds.setdefault(f.key, {})[nm.id] = (max(k[0] - 1, 0), k[1])
                elt = e.value if isinstance(e, ast.DictComp) else e.elt
                k = kind(m, f, elt)
            finally:
                kinds[f.key] = saved
            return (k[0] + 1, k[1]) if k else None
        if isinstance(e, ast.Call):
            name = call_name(e) or ""
            for g in _callee_candidates(repo, m, e):
                if g.key in memo:
                    return (0, g.key)
                if g.key in returns:
                    return returns[g.key]
            if isinstance(e.func, ast.Attribute):
                k = kind(m, f, e.func.value)
                if k:
                    if e.func.attr in VIEW_METHODS and k[0] == 0:
                        return k
                    if e.func.attr in ("get", "pop", "__getitem__", "setdefault"):
                        return (max(k[0] - 1, 0), k[1])
                    if e.func.attr in ("values", "items", "keys"):
                        return k
                    if e.func.attr == "copy":
                        return k if k[0] > 0 else None   # (a copy of an array is new; a copy of a holder still holds the same objects)
            if name in VIEW_FUNCS - COPY_CTORS and e.args:
                return kind(m, f, e.args[0])
            if name in COPY_CTORS and e.args:
                k = best([kind(m, f, a_) for a_ in e.args])
                return (max(k[0], 1), k[1]) if k else None
        return None

    changed, rounds = True, 0
    while changed and rounds < 25:
        changed = False
        rounds += 1
        for m, f in funcs:
            for n in walk_no_nested(f.node):
                if isinstance(n, (ast.Assign, ast.AnnAssign)) and getattr(n, "value", None) is not None:
                    k = kind(m, f, n.value)
                    if k:
                        for t in (n.targets if isinstance(n, ast.Assign) else [n.target]):
                            if isinstance(t, ast.Name):
                                changed |= setk(f.key, t.id, k[0], k[1])
                            elif isinstance(t, (ast.Tuple, ast.List)):
                                for nm in ast.walk(t):   # unpacking: the parts of a cached tuple / the elements of a holder
                                    if isinstance(nm, ast.Name):
                                        changed |= setk(f.key, nm.id, max(k[0] - 1, 0), k[1])
                            elif isinstance(t, ast.Subscript) and isinstance(t.value, ast.Name):
                                kt = kind(m, f, t.value)
                                if kt is None or kt[0] > k[0] + 1:
                                    changed |= setk(f.key, t.value.id, k[0] + 1, k[1])   # a local container now holds it
                if isinstance(n, ast.For):
                    k = kind(m, f, n.iter)
                    if k:
                        for nm in ast.walk(n.target):
                            if isinstance(nm, ast.Name):
                                changed |= setk(f.key, nm.id, max(k[0] - 1, 0), k[1])
                if isinstance(n, ast.Call) and isinstance(n.func, ast.Attribute) and n.func.attr in GROW_METHODS and isinstance(n.func.value, ast.Name):
                    kt = kind(m, f, n.func.value)
                    for a_ in list(n.args) + [kw.value for kw in n.keywords]:
                        k = kind(m, f, a_)
                        if k:
                            d_ = k[0] + (0 if n.func.attr in ("extend", "update") else 1)
                            d_ = max(d_, 1)
                            if kt is None or kt[0] > d_:
                                changed |= setk(f.key, n.func.value.id, d_, k[1])
                if isinstance(n, ast.Return) and n.value is not None and f.key not in memo:
                    k = kind(m, f, n.value)
                    if k and (f.key not in returns or returns[f.key][0] > k[0]):
                        returns[f.key] = k
                        changed = True
                if isinstance(n, ast.Call):
                    for g in _callee_candidates(repo, m, n):
                        if g.key in memo:
                            continue
                        for prm, arg in _bind_args(g, n).items():
                            k = kind(m, f, arg)
                            if k:
                                changed |= setk(g.key, prm, k[0], k[1])
    for m, f in funcs:
        if not kinds.get(f.key):
            continue
        res.functions.add(f.key)

        rd_cache = {}

        def root_name(e):
            while isinstance(e, (ast.Subscript, ast.Attribute, ast.Starred)):
                e = e.value
            if isinstance(e, ast.Call) and isinstance(e.func, ast.Attribute):
                return root_name(e.func.value)
            return e.id if isinstance(e, ast.Name) else None

        def reaches(stmt, name):
            """does a definition of `name` that makes it an alias reach `stmt`? (branches that bind the name to a fresh object do not count)"""
            from ..cfg import CFG, reaching_definitions
            if "cfg" not in rd_cache:
                try:
                    rd_cache["cfg"] = CFG(f.node)
                    rd_cache["IN"], _ = reaching_definitions(rd_cache["cfg"], set(f.params))
                except Exception:
                    rd_cache["cfg"] = None
            cfg_ = rd_cache["cfg"]
            if cfg_ is None:
                return True
            byid = {nd.id: nd for nd in cfg_.nodes}
            nodes_ = cfg_.stmt_nodes_containing(stmt)
            if not nodes_:
                return True
            for cn in nodes_:
                for d in rd_cache["IN"].get(cn.id, {}).get(name, ()):
                    if d == -1:
                        return True   # a parameter
                    a_ = byid[d].ast
                    if isinstance(a_, (ast.Assign, ast.AnnAssign)) and getattr(a_, "value", None) is not None:
                        tg = a_.targets if isinstance(a_, ast.Assign) else [a_.target]
                        if any(isinstance(t_, ast.Name) and t_.id == name for t_ in tg):
                            k_ = kind(m, f, a_.value)
                            if k_ and k_[0] == 0:
                                return True
                            continue
                    return True   # loop targets, unpacking, with-items ...: not resolved further
            return False

        def is_alias(e, stmt=None):
            k = kind(m, f, e)
            if not (k and k[0] == 0):
                return None
            rn = root_name(e)
            if stmt is not None and rn is not None and isinstance(e, ast.Name) and not reaches(stmt, rn):
                return None
            return k
        for n in walk_no_nested(f.node):
            bad = None
            if isinstance(n, (ast.Assign, ast.AugAssign)):
                for t in (n.targets if isinstance(n, ast.Assign) else [n.target]):
                    if isinstance(t, ast.Subscript) and is_alias(t.value, n):
                        bad = (f"stores into `{ast.unparse(t)[:50]}`", is_alias(t.value, n)[1])
                    if isinstance(n, ast.AugAssign) and isinstance(t, ast.Name) and is_alias(t, n):
                        bad = (f"updates `{t.id}` in place (`{ast.unparse(n)[:50]}`)", is_alias(t, n)[1])
            if isinstance(n, ast.Delete):
                for t in n.targets:
                    if isinstance(t, ast.Subscript) and is_alias(t.value):
                        bad = (f"deletes `{ast.unparse(t)[:50]}`", is_alias(t.value)[1])
            if isinstance(n, ast.Call) and isinstance(n.func, ast.Attribute) and n.func.attr in INPLACE_METHODS and is_alias(n.func.value):
                bad = (f"calls `{ast.unparse(n.func)[:50]}(...)`", is_alias(n.func.value)[1])
            if isinstance(n, ast.Call) and (call_name(n) or "") in INPLACE_FUNCS and n.args and is_alias(n.args[INPLACE_FUNCS[call_name(n)]]):
                bad = (f"calls `{call_name(n)}` on it", is_alias(n.args[INPLACE_FUNCS[call_name(n)]])[1])
            if isinstance(n, ast.Call):
                for kw in n.keywords:
                    if kw.arg == "out" and is_alias(kw.value):
                        bad = (f"writes into it through `out=` of `{call_name(n)}`", is_alias(kw.value)[1])
            if bad:
                what, src = bad
                res.fail(f"{src}:memoised-result-never-mutated", f"{f.key} {what}: the object may be (a view or a part of) what the memoised function {src} returned, "
                         "which every later caller of the process gets again - the change, made with this request's data or tolerances, is what the next compilation "
                         "starts from", m.line(n))


# ---- C09: the scalar type selects arithmetic and literals, never the numbers that are tabulated ------------------------

NUMERIC_CHOICES = {
    "build_optimized_tables", "clamp_table_small_numbers", "analyse_table_type", "equal_tables", "is_zeros_table", "is_ones_table", "is_quadrature_table",
    "is_permuted_table", "is_piecewise_table", "is_uniform_table", "get_ffcx_table_values", "create_quadrature_points_and_weights", "create_quadrature",
    "make_quadrature", "_group_integrands_by_quadrature_rule", "permute_quadrature_interval", "permute_quadrature_triangle", "permute_quadrature_quadrilateral",
    "map_integral_points", "isclose", "allclose", "compute_argument_factorization", "build_scalar_graph", "rebuild_with_scalar_subexpressions",
}


class ScalarTypeClient(Config):
    """Source: a read of the option "scalar_type"; sinks: the functions that decide tabulated values, their classification and the
    quadrature rule. The complex-mode flag (np.issubdtype(.., np.complexfloating)) is a legitimate boolean and is not tracked."""

    def is_sanitiser(self, name):
        return False

    def element_unstable(self, fa, expr):
        return False

    def clean_call(self, fa, call, name):
        return name.split(".")[-1] in ("issubdtype", "iscomplexobj", "dtype_to_c_type", "dtype_to_scalar_dtype")

    def source(self, fa, node):
        if isinstance(node, ast.Subscript) and isinstance(node.slice, ast.Constant) and node.slice.value == "scalar_type" and isinstance(node.ctx, ast.Load):
            return frozenset({(VAL, fa.site(node, "scalar_type"))})
        if isinstance(node, ast.Call) and isinstance(node.func, ast.Attribute) and node.func.attr == "get" and node.args \
                and isinstance(node.args[0], ast.Constant) and node.args[0].value == "scalar_type":
            return frozenset({(VAL, fa.site(node, "scalar_type"))})
        return EMPTY

    def sink(self, fa, call, name):
        last = name.split(".")[-1] if name else ""
        if last in NUMERIC_CHOICES:
            return f"{last}(...)"
        return None


@rule(
    "TYPE-INDEPENDENT-NUMBERS",
    ["C09"],
    "forward taint analysis over the whole package: a value derived from the option scalar_type (other than the boolean complex-mode "
    "flag) must not reach the functions that decide the tabulated numbers, their tolerances and classification, the quadrature rule, or "
    "the factorisation - otherwise the float32 / float64 / complex kernels of one form are generated from different tables or rules and "
    "differ by more than rounding",
    min_instances=4,
)
def type_independent_numbers(repo, res):
    client = ScalarTypeClient()
    eng = _run(repo, client)
    for fa in eng.fas.values():
        res.functions.add(fa.func.key)
        for n in ast.walk(fa.func.node):
            src = client.source(fa, n)
            if src:
                res.ob(next(iter(src))[1])
    for s, hits in sorted(eng.hits.items()):
        sink, fkey, loc, kind = hits[0]
        res.fail(s, f"a value derived from options['scalar_type'] (read at {s.rsplit(':', 2)[0]}) reaches {sink} in {fkey} ({loc})"
                 + (f" (+{len(hits) - 1} more)" if len(hits) > 1 else "")
                 + ": the tables / quadrature rule / tolerances then depend on the scalar type, so the four kernels of one form no longer agree to the "
                 "precision of the narrower type", _loc_of(repo, s))
