"""A whole kernel body interpreted from source and given its meaning (C01, C07, C08, C11, C05).

GEN-KERNEL  FFCXBackend / FFCXBackendSymbols / FFCXBackendAccess / FFCXBackendDefinitions are constructed by interpreting their own
            constructors, IntegralGenerator.generate(domain) is interpreted as a whole (quadrature / element / geometry tables,
            piecewise and varying partitions with the real access and definition handlers and the real ufl -> LNodes table,
            dof-block partition, optimiser passes, loop nest) on a sample IntegralIR with TWO quadrature rules in one kernel:
              rule r1 (2 points):  factor  J00 * f   with  J00 = sum_ic coordinate_dofs[3 ic] * FE_J[ic]   (piecewise)
                                                           f   = sum_ic w[ic] * FE_f_r1[q][ic]             (varying)
              rule r2 (1 point):   factor  g          with  g   = sum_ic w[3 + ic] * FE_g_r2[0][ic]        (piecewise under this rule)
            and bilinear blocks FE_v x FE_u of each rule.  The emitted statement list is executed symbolically (lnexec) with the
            UFCx extents of A, w, coordinate_dofs enforced and every table entry / weight an indeterminate.  Specification, written
            directly from the IR:   A[3 i + j] = A0[3 i + j] + sum_rules sum_q factor_r(q) * weight_r[q] * FE_v_r[q][i] * FE_u_r[q][j].
            It decides at once: tables declared before use with the values of the IR, loop ranges per rule, definitions inside the
            right loop, piecewise values outside, the scopes of two rules not mixing, accumulate-only, every read inside its extent.
"""

from __future__ import annotations

import ast as _ast

from ..absint import Interp, Node, Raised, Rat, _Cls, _PyCall
from ..lnexec import Exec, ExecError
from ..lnodes_model import load_classes
from ..model import AnalysisError, dotted
from ..npmodel import NDArr
from ..registry import rule
from .genblocks import _show

IG = "ffcx.codegeneration.integral_generator"
MODS = {"IntegralGenerator": IG, "FFCXBackend": "ffcx.codegeneration.backend", "FFCXBackendSymbols": "ffcx.codegeneration.symbols",
        "FFCXBackendAccess": "ffcx.codegeneration.access", "FFCXBackendDefinitions": "ffcx.codegeneration.definitions"}


def _table_values(name, shape):
    """nested lists of REAL symbols named <name>[p, e, q, d]"""
    def build(prefix, dims):
        if not dims:
            return Node("Symbol", name=f"{name}[{', '.join(map(str, prefix))}]", dtype="DataType.REAL")
        return [build(prefix + [i], dims[1:]) for i in range(dims[0])]
    return NDArr(build([], list(shape)), tuple(shape))


def _world(repo):
    it = Interp(repo, load_classes(repo), primary=IG)
    it.obj_classes = dict(MODS)

    def maker(cls):
        mod = repo.mod(MODS[cls])
        init = mod.func(f"{cls}.__init__")

        def make(*a, **k):
            o = Node(cls)
            it.call_f(init, [o] + list(a), k)
            return o
        return make
    for cls in MODS:
        it.overrides[cls] = _PyCall(maker(cls))
    # UFL classes named by the dispatch tables (as keys of dict displays or added by module-level loops): each stands for itself, by name
    it.install_ufl_classes("ffcx.codegeneration.access", "ffcx.codegeneration.definitions", "ffcx.codegeneration.lnodes", IG)
    it.overrides["ufl.custom_integral_types"] = ("cutcell", "interface", "overlap", "custom")
    it.overrides["logger"] = Node("Logger", info=_PyCall(lambda *a: None), debug=_PyCall(lambda *a: None), exception=_PyCall(lambda *a: None))
    it.extra_bases.update({"Coefficient": ("FormArgument", "Terminal"), "Jacobian": ("GeometricCellQuantity", "GeometricQuantity", "Terminal"),
                           "Product": ("Operator",), "Sum": ("Operator",)})
    return it


@rule(
    "GEN-KERNEL",
    ["C01", "C07", "C08", "C11", "C05"],
    "the backend objects are built by their own constructors and IntegralGenerator.generate is interpreted as a whole on a sample "
    "IntegralIR with two quadrature rules in one kernel (a piecewise Jacobian component times a varying coefficient under a two-point "
    "rule, another coefficient under a one-point rule, bilinear blocks); the emitted statements, executed symbolically with the UFCx "
    "extents enforced, must leave A = A0 + sum over rules and points of factor * weight * test table * trial table",
    min_instances=2,
)
def gen_kernel(repo, res):
    m = repo.mod(IG)
    g = m.func("IntegralGenerator.generate")
    res.functions.add(g.key)
    for nm in ("generate_quadrature_tables", "generate_element_tables", "declare_table", "generate_geometry_tables", "generate_quadrature_loop", "generate_piecewise_partition",
               "generate_varying_partition", "generate_partition", "generate_dofblock_partition", "generate_block_parts", "get_arg_factors", "__init__", "init_scopes", "set_var",
               "get_var", "get_temp_symbol", "new_temp_symbol"):
        res.functions.add(m.func(f"IntegralGenerator.{nm}").key)
    for cls, modname in MODS.items():
        if cls != "IntegralGenerator":
            res.functions.add(repo.mod(modname).func(f"{cls}.__init__").key)
    loc = m.line(g.node)

    def build(part="TensorPart.full"):
        it = _world(repo)
        mesh = Node("Mesh", geometric_dimension=2, topological_dimension=2, ufl_id=_PyCall(lambda: 123),
                    ufl_coordinate_element=_PyCall(lambda: Node("CoordinateElement", _sub_element=Node("Element", dim=3))))
        it.overrides["ufl.domain.extract_unique_domain"] = _PyCall(lambda t: mesh)
        cf, cg = Node("Coefficient", name="f", ufl_shape=()), Node("Coefficient", name="g", ufl_shape=())
        Jt = Node("Jacobian", name="J", ufl_shape=(2, 2))

        def mt(term, **k):
            d = dict(terminal=term, expr=term, restriction=None, averaged=None, global_derivatives=(), local_derivatives=(), component=(), flat_component=0, reference_value=False)
            d.update(k)
            return Node("ModifiedTerminal", **d)

        def table(name, shape, offset=0, bs=1, ttype="varying"):
            uniform = ttype in ("fixed", "ones", "zeros", "uniform")
            piecewise = ttype in ("fixed", "ones", "zeros", "piecewise")
            return Node("UniqueTableReferenceT", name=name, values=Node("ndarray", shape=tuple(shape), size=shape[0] * shape[1] * shape[2] * shape[3]), offset=offset,
                        block_size=bs, ttype=ttype, is_permuted=False, is_uniform=uniform, is_piecewise=piecewise, has_tensor_factorisation=False, tensor_factors=None,
                        tensor_permutation=None)

        def rule_(name, nq):
            w = NDArr([Node("Symbol", name=f"weights_{name}[{q}]", dtype="DataType.REAL") for q in range(nq)], (nq,))
            return Node("QuadratureRule", weights=w, points=Node("ndarray", shape=(nq, 2), size=2 * nq), has_tensor_factors=False, tensor_factors=None, id=_PyCall(lambda: name))

        r1, r2 = rule_("r1", 2), rule_("r2", 1)
        tabs = {"FE_J": table("FE_J", (1, 1, 1, 3), ttype="piecewise"), "FE_f_r1": table("FE_f_r1", (1, 1, 2, 3)), "FE_v_r1": table("FE_v_r1", (1, 1, 2, 3)),
                "FE_u_r1": table("FE_u_r1", (1, 1, 2, 3)), "FE_g_r2": table("FE_g_r2", (1, 1, 1, 3), ttype="piecewise"), "FE_v_r2": table("FE_v_r2", (1, 1, 1, 3), ttype="piecewise"),
                "FE_u_r2": table("FE_u_r2", (1, 1, 1, 3), ttype="piecewise")}

        def uexpr(cls, name, ops=()):
            return Node(cls, name=name, _ufl_is_literal_=False, ufl_operands=list(ops), _ufl_handler_name_=name, ufl_shape=())
        eJ, ef, eg = uexpr("JacobianComponent", "J00"), uexpr("CoefficientValue", "f"), uexpr("CoefficientValue", "g")
        prod = uexpr("Product", "product", [eJ, ef])
        F1 = Node("ExpressionGraph", nodes={
            0: {"expression": eJ, "status": "piecewise", "mt": mt(Jt, component=(0, 0), flat_component=0), "tr": tabs["FE_J"]},
            1: {"expression": ef, "status": "varying", "mt": mt(cf), "tr": tabs["FE_f_r1"]},
            2: {"expression": prod, "status": "varying", "target": [(0, 1)]},
        })
        F2 = Node("ExpressionGraph", nodes={0: {"expression": eg, "status": "piecewise", "mt": mt(cg), "tr": tabs["FE_g_r2"], "target": [(0, 1)]}})

        def block(factor_index, tv, tu, piecewise):
            mads = (Node("ModifiedArgumentDataT", ma_index=0, tabledata=tv), Node("ModifiedArgumentDataT", ma_index=1, tabledata=tu))
            return Node("BlockDataT", ttypes=(tv.f["ttype"], tu.f["ttype"]), factor_indices_comp_indices=[(factor_index, 0)], all_factors_piecewise=piecewise,
                        unames=(tv.f["name"], tu.f["name"]), restrictions=(None, None), transposed=False, is_uniform=False, ma_data=mads, is_permuted=False)
        bm = ((0, 1, 2), (0, 1, 2))
        margs = {0: mt(Node("Argument", name="v")), 1: mt(Node("Argument", name="u"))}
        integrand = {
            ("triangle", r1): {"factorization": F1, "modified_arguments": dict(margs), "block_contributions": {bm: [block(2, tabs["FE_v_r1"], tabs["FE_u_r1"], False)]}},
            ("triangle", r2): {"factorization": F2, "modified_arguments": dict(margs), "block_contributions": {bm: [block(0, tabs["FE_v_r2"], tabs["FE_u_r2"], True)]}},
        }
        uniq = {name: _table_values(name, t.f["values"].f["shape"]) for name, t in tabs.items()}
        expr = Node("CommonExpressionIR", integrand=integrand, tensor_shape=[3, 3], entity_type="cell", integral_type="cell", name="integral_x",
                    unique_tables={"triangle": uniq}, unique_table_types={"triangle": {n: t.f["ttype"] for n, t in tabs.items()}},
                    coefficient_numbering={cf: 0, cg: 1}, coefficient_offsets={cf: 0, cg: 3}, original_constant_offsets={}, needs_facet_permutations=False,
                    coordinate_element_hash=1, number_coordinate_dofs=3, shape=())
        ir = Node("IntegralIR", expression=expr, part=part, rank=2, enabled_coefficients=[True, True])
        backend = it.overrides["FFCXBackend"].fn(ir, {"scalar_type": "float64"})
        gen = it.overrides["IntegralGenerator"].fn(ir, backend)
        return it, gen

    key = f"{g.key}:two-rules-one-kernel"
    res.ob(key)
    try:
        it, gen = build()
        prog = it.call_f(g, [gen, "triangle"])
    except Raised as e:
        res.fail(key, f"building the backend / IntegralGenerator.generate raises ({e.what}) on the two-rule sample", loc)
        return
    extents = {"A": (9,), "w": (6,), "coordinate_dofs": (9,), "c": (0,)}
    ex = Exec(("A",), extents=extents, max_steps=400000)
    try:
        ex.run(prog)
    except ExecError as e:
        res.fail(key, f"the generated kernel body is ill-formed: {e}", loc)
        return
    got = ex.result()
    # ---- specification
    def T(name, q, d):
        return Rat.var(f"{name}[0, 0, {q}, {d}]")
    J = sum((Rat.var(f"coordinate_dofs[{3 * ic}]") * T("FE_J", 0, ic) for ic in range(3)), Rat.const(0))
    want = {}
    for i in range(3):
        for j in range(3):
            tot = Rat.var(f"A[{3 * i + j}]")
            for q in range(2):
                fq = sum((Rat.var(f"w[{ic}]") * T("FE_f_r1", q, ic) for ic in range(3)), Rat.const(0))
                tot = tot + J * fq * Rat.var(f"weights_r1[{q}]") * T("FE_v_r1", q, i) * T("FE_u_r1", q, j)
            gq = sum((Rat.var(f"w[{3 + ic}]") * T("FE_g_r2", 0, ic) for ic in range(3)), Rat.const(0))
            tot = tot + gq * Rat.var("weights_r2[0]") * T("FE_v_r2", 0, i) * T("FE_u_r2", 0, j)
            want[("A", (3 * i + j,))] = tot
    bad = None
    for k_, w_ in want.items():
        g_ = got.get(k_, Rat.var(f"A[{k_[1][0]}]"))
        if not (g_ == w_):
            bad = (k_, g_, w_)
            break
    extra = sorted(k_ for k_ in got if k_ not in want)
    if bad:
        res.fail(key, f"the kernel leaves A[{bad[0][1][0]}] = {_show(bad[1])[:260]}; the integral of the sample IR is {_show(bad[2])[:260]}", loc)
    elif extra:
        res.fail(key, f"the kernel writes {extra[:3]} outside the element tensor", loc)
    # ---- the same kernel as the diagonal part
    key = f"{g.key}:two-rules-one-kernel:diagonal"
    res.ob(key)
    try:
        it, gen = build(part="TensorPart.diagonal")
        gen.f["ir"].f["expression"].f["tensor_shape"] = [3]
        prog = it.call_f(g, [gen, "triangle"])
        ex = Exec(("A",), extents={**extents, "A": (3,)}, max_steps=400000)
        ex.run(prog)
        got = ex.result()
        for i in range(3):
            w_ = want[("A", (4 * i,))]
            # A0 of the diagonal kernel is A[i]
            expect = Rat.var(f"A[{i}]") + (w_ - Rat.var(f"A[{4 * i}]"))
            g_ = got.get(("A", (i,)), Rat.var(f"A[{i}]"))
            if not (g_ == expect):
                res.fail(key, f"part=diagonal: A[{i}] = {_show(g_)[:200]}, the diagonal entry ({i},{i}) of the full tensor is {_show(expect)[:200]}", loc, props=("C10", "C01"))
                break
    except Raised as e:
        res.fail(key, f"IntegralGenerator.generate raises ({e.what}) for part=diagonal", loc)
    except ExecError as e:
        res.fail(key, f"part=diagonal: the generated kernel body is ill-formed: {e}", loc)


@rule(
    "GEN-KERNEL-FACET",
    ["C02", "C03", "C05", "C08", "C01"],
    "IntegralGenerator.generate interpreted as a whole on an interior-facet sample IR: a coefficient restricted to the '-' cell with a "
    "permuted, entity-dependent table, test function on '+', trial function on '-'; executed symbolically with the macro extents of "
    "ufcx.h enforced (A 6x6, w[coefficient][restriction][dof], two entity / permutation slots), the kernel must read slot 1 of "
    "entity_local_index / quadrature_permutation and the '-' half of w for the '-' operands and write exactly the [+,-] block of A",
    min_instances=1,
)
def gen_kernel_facet(repo, res):
    m = repo.mod(IG)
    g = m.func("IntegralGenerator.generate")
    res.functions.add(g.key)
    loc = m.line(g.node)
    key = f"{g.key}:interior-facet"
    res.ob(key)
    it = _world(repo)
    mesh = Node("Mesh", geometric_dimension=2, topological_dimension=2, ufl_id=_PyCall(lambda: 9),
                ufl_coordinate_element=_PyCall(lambda: Node("CoordinateElement", _sub_element=Node("Element", dim=3))))
    it.overrides["ufl.domain.extract_unique_domain"] = _PyCall(lambda t: mesh)
    cf = Node("Coefficient", name="f", ufl_shape=())

    def mt(term, **k):
        d = dict(terminal=term, expr=term, restriction=None, averaged=None, global_derivatives=(), local_derivatives=(), component=(), flat_component=0, reference_value=False)
        d.update(k)
        return Node("ModifiedTerminal", **d)

    def table(name, shape, offset=0, bs=1, ttype="varying", permuted=False):
        return Node("UniqueTableReferenceT", name=name, values=Node("ndarray", shape=tuple(shape), size=shape[0] * shape[1] * shape[2] * shape[3]), offset=offset, block_size=bs,
                    ttype=ttype, is_permuted=permuted, is_uniform=False, is_piecewise=False, has_tensor_factorisation=False, tensor_factors=None, tensor_permutation=None)
    NQ, NE = 2, 3
    r = Node("QuadratureRule", weights=NDArr([Node("Symbol", name=f"weights_rf[{q}]", dtype="DataType.REAL") for q in range(NQ)], (NQ,)),
             points=Node("ndarray", shape=(NQ, 1), size=NQ), has_tensor_factors=False, tensor_factors=None, id=_PyCall(lambda: "rf"))
    tabs = {"FE_fm": table("FE_fm", (2, NE, NQ, 3), offset=3, permuted=True), "FE_vp": table("FE_vp", (2, NE, NQ, 3), offset=0, permuted=True),
            "FE_um": table("FE_um", (2, NE, NQ, 3), offset=3, permuted=True)}
    ef = Node("CoefficientValue", name="f_minus", _ufl_is_literal_=False, ufl_operands=[], _ufl_handler_name_="f", ufl_shape=())
    F = Node("ExpressionGraph", nodes={0: {"expression": ef, "status": "varying", "mt": mt(cf, restriction="-"), "tr": tabs["FE_fm"], "target": [(0, 1)]}})
    mads = (Node("ModifiedArgumentDataT", ma_index=0, tabledata=tabs["FE_vp"]), Node("ModifiedArgumentDataT", ma_index=1, tabledata=tabs["FE_um"]))
    bd = Node("BlockDataT", ttypes=("varying", "varying"), factor_indices_comp_indices=[(0, 0)], all_factors_piecewise=False, unames=("FE_vp", "FE_um"), restrictions=("+", "-"),
              transposed=False, is_uniform=False, ma_data=mads, is_permuted=True)
    integrand = {("interval", r): {"factorization": F, "modified_arguments": {0: mt(Node("Argument", name="v"), restriction="+"), 1: mt(Node("Argument", name="u"), restriction="-")},
                                   "block_contributions": {((0, 1, 2), (3, 4, 5)): [bd]}}}
    expr = Node("CommonExpressionIR", integrand=integrand, tensor_shape=[6, 6], entity_type="facet", integral_type="interior_facet", name="integral_dS",
                unique_tables={"interval": {n: _table_values(n, t.f["values"].f["shape"]) for n, t in tabs.items()}},
                unique_table_types={"interval": {n: "varying" for n in tabs}}, coefficient_numbering={cf: 0}, coefficient_offsets={cf: 0}, original_constant_offsets={},
                needs_facet_permutations=True, coordinate_element_hash=1, number_coordinate_dofs=3, shape=())
    ir = Node("IntegralIR", expression=expr, part="TensorPart.full", rank=2, enabled_coefficients=[True])
    concrete = {"entity_local_index": {(0,): 1, (1,): 2}, "quadrature_permutation": {(0,): 1, (1,): 0}}
    try:
        backend = it.overrides["FFCXBackend"].fn(ir, {"scalar_type": "float64"})
        gen = it.overrides["IntegralGenerator"].fn(ir, backend)
        prog = it.call_f(g, [gen, "interval"])
    except Raised as e:
        res.fail(key, f"IntegralGenerator.generate raises ({e.what}) on the interior-facet sample", loc)
        return
    ex = Exec(("A",), concrete=concrete, extents={"A": (36,), "w": (6,), "coordinate_dofs": (18,), "entity_local_index": (2,), "quadrature_permutation": (2,)}, max_steps=400000)
    try:
        ex.run(prog)
    except ExecError as e:
        res.fail(key, f"the generated interior-facet kernel is ill-formed: {e}", loc)
        return
    got = ex.result()

    def T(name, side, q, d):
        s_ = 1 if side == "-" else 0
        return Rat.var(f"{name}[{concrete['quadrature_permutation'][(s_,)]}, {concrete['entity_local_index'][(s_,)]}, {q}, {d}]")
    want = {}
    for i in range(3):
        for j in range(3):
            idx = i * 6 + (3 + j)
            tot = Rat.var(f"A[{idx}]")
            for q in range(NQ):
                fm = sum((Rat.var(f"w[{3 + ic}]") * T("FE_fm", "-", q, ic) for ic in range(3)), Rat.const(0))
                tot = tot + fm * Rat.var(f"weights_rf[{q}]") * T("FE_vp", "+", q, i) * T("FE_um", "-", q, j)
            want[("A", (idx,))] = tot
    for k_, w_ in want.items():
        g_ = got.get(k_, Rat.var(f"A[{k_[1][0]}]"))
        if not (g_ == w_):
            res.fail(key, f"A[{k_[1][0]}] = {_show(g_)[:240]}; the [+,-] block entry of f('-')*v('+')*u('-')*dS is {_show(w_)[:240]} (tables as T[permutation][local facet][point][dof] with "
                     "slot 0 for '+' and slot 1 for '-')", loc)
            return
    extra = sorted(k_[1][0] for k_ in got if k_ not in want)
    if extra:
        res.fail(key, f"the kernel also writes A{extra[:4]}, outside the [+,-] block", loc)


EG = "ffcx.codegeneration.expression_generator"


@rule(
    "EXPR-KERNEL",
    ["C04", "C07", "C08"],
    "ExpressionGenerator.generate interpreted as a whole (with the backend objects built by their own constructors) on a sample "
    "ExpressionIR: a two-component rank-1 expression at two points of a facet, component 0 = J00 * f, component 1 = g, argument table "
    "permuted and entity dependent; executed symbolically with the extents enforced, the kernel must leave "
    "A[(point*2 + component)*3 + dof] = A0[..] + component value at the point * argument table[permutation][facet][point][dof]",
    min_instances=1,
)
def expr_kernel(repo, res):
    m = repo.mod(EG)
    g = m.func("ExpressionGenerator.generate")
    res.functions.add(g.key)
    for nm in ("__init__", "generate_element_tables", "generate_geometry_tables", "generate_piecewise_partition", "generate_varying_partition", "generate_partition",
               "generate_quadrature_loop", "generate_dofblock_partition", "generate_block_parts", "get_arg_factors", "get_var"):
        res.functions.add(m.func(f"ExpressionGenerator.{nm}").key)
    loc = m.line(g.node)
    key = f"{g.key}:facet-expression-two-components"
    res.ob(key)
    it = _world(repo)
    it.primary = repo.mod(EG)
    it.lalias = {a for a, t in it.primary.imports.items() if t == "ffcx.codegeneration.lnodes"}
    it.obj_classes["ExpressionGenerator"] = EG
    init = m.func("ExpressionGenerator.__init__")
    import itertools as _it
    it.overrides["pairwise"] = _PyCall(lambda x: list(_it.pairwise(list(x))))
    it.overrides["product"] = _PyCall(lambda *xs: [tuple(t) for t in _it.product(*[list(x) for x in xs])])
    it.overrides["ufl.product"] = _PyCall(lambda seq: __import__("math").prod(list(seq)))
    mesh = Node("Mesh", geometric_dimension=2, topological_dimension=2, ufl_id=_PyCall(lambda: 5),
                ufl_coordinate_element=_PyCall(lambda: Node("CoordinateElement", _sub_element=Node("Element", dim=3))))
    it.overrides["ufl.domain.extract_unique_domain"] = _PyCall(lambda t: mesh)
    cf, cg = Node("Coefficient", name="f", ufl_shape=()), Node("Coefficient", name="g", ufl_shape=())
    Jt = Node("Jacobian", name="J", ufl_shape=(2, 2))

    def mt(term, **k):
        d = dict(terminal=term, expr=term, restriction=None, averaged=None, global_derivatives=(), local_derivatives=(), component=(), flat_component=0, reference_value=False)
        d.update(k)
        return Node("ModifiedTerminal", **d)

    def table(name, shape, offset=0, bs=1, ttype="varying", permuted=False):
        uniform = ttype in ("fixed", "ones", "zeros", "uniform")
        piecewise = ttype in ("fixed", "ones", "zeros", "piecewise")
        return Node("UniqueTableReferenceT", name=name, values=Node("ndarray", shape=tuple(shape), size=shape[0] * shape[1] * shape[2] * shape[3]), offset=offset, block_size=bs,
                    ttype=ttype, is_permuted=permuted, is_uniform=uniform, is_piecewise=piecewise, has_tensor_factorisation=False, tensor_factors=None, tensor_permutation=None)
    NQ, NE = 2, 3
    r = Node("QuadratureRule", weights=NDArr([1, 1], (2,)), points=Node("ndarray", shape=(NQ, 1), size=NQ), has_tensor_factors=False, tensor_factors=None, id=_PyCall(lambda: "pts"))
    tabs = {"FE_J": table("FE_J", (1, NE, 1, 3), ttype="piecewise"), "FE_f": table("FE_f", (1, NE, NQ, 3)), "FE_g": table("FE_g", (1, NE, NQ, 3)),
            "FE_u": table("FE_u", (2, NE, NQ, 3), permuted=True)}

    def uexpr(cls, name, ops=()):
        return Node(cls, name=name, _ufl_is_literal_=False, ufl_operands=list(ops), _ufl_handler_name_=name, ufl_shape=())
    eJ, ef, eg = uexpr("JacobianComponent", "J00"), uexpr("CoefficientValue", "f"), uexpr("CoefficientValue", "g")
    prod = uexpr("Product", "product", [eJ, ef])
    F = Node("ExpressionGraph", nodes={
        0: {"expression": eJ, "status": "piecewise", "mt": mt(Jt, component=(0, 0)), "tr": tabs["FE_J"]},
        1: {"expression": ef, "status": "varying", "mt": mt(cf), "tr": tabs["FE_f"]},
        2: {"expression": eg, "status": "varying", "mt": mt(cg), "tr": tabs["FE_g"]},
        3: {"expression": prod, "status": "varying"},
    })
    bd = Node("BlockDataT", ttypes=("varying",), factor_indices_comp_indices=[(3, 0), (2, 1)], all_factors_piecewise=False, unames=("FE_u",), restrictions=(None,), transposed=False,
              is_uniform=False, ma_data=(Node("ModifiedArgumentDataT", ma_index=0, tabledata=tabs["FE_u"]),), is_permuted=True)
    keyq = ("interval", r)
    integrand = {keyq: {"factorization": F, "modified_arguments": {0: mt(Node("Argument", name="u"))}, "block_contributions": {((0, 1, 2),): [bd]}}}
    expr = Node("CommonExpressionIR", integrand=integrand, tensor_shape=[3], entity_type="facet", integral_type="expression", name="expression_x", shape=(2,),
                unique_tables={"interval": {n: _table_values(n, t.f["values"].f["shape"]) for n, t in tabs.items()}},
                unique_table_types={"interval": {n: t.f["ttype"] for n, t in tabs.items()}}, coefficient_numbering={cf: 0, cg: 1}, coefficient_offsets={cf: 0, cg: 3},
                original_constant_offsets={}, needs_facet_permutations=True, coordinate_element_hash=1, number_coordinate_dofs=3)
    ir = Node("ExpressionIR", expression=expr)
    concrete = {"entity_local_index": {(0,): 1}, "quadrature_permutation": {(0,): 1}}
    try:
        backend = it.overrides["FFCXBackend"].fn(ir, {"scalar_type": "float64"})
        gen = Node("ExpressionGenerator")
        it.call_f(init, [gen, ir, backend])
        prog = it.call_f(g, [gen])
    except Raised as e:
        res.fail(key, f"ExpressionGenerator.generate raises ({e.what}) on the sample expression", loc)
        return
    ex = Exec(("A",), concrete=concrete, extents={"A": (NQ * 2 * 3,), "w": (6,), "coordinate_dofs": (9,), "entity_local_index": (1,), "quadrature_permutation": (1,)}, max_steps=400000)
    try:
        ex.run(prog)
    except ExecError as e:
        res.fail(key, f"the generated expression kernel is ill-formed: {e}", loc)
        return
    got = ex.result()
    ent, perm = 1, 1

    def T(name, p, e_, q, d):
        return Rat.var(f"{name}[{p}, {e_}, {q}, {d}]")
    J = sum((Rat.var(f"coordinate_dofs[{3 * ic}]") * T("FE_J", 0, ent, 0, ic) for ic in range(3)), Rat.const(0))
    for q in range(NQ):
        fq = sum((Rat.var(f"w[{ic}]") * T("FE_f", 0, ent, q, ic) for ic in range(3)), Rat.const(0))
        gq = sum((Rat.var(f"w[{3 + ic}]") * T("FE_g", 0, ent, q, ic) for ic in range(3)), Rat.const(0))
        for comp, val in ((0, J * fq), (1, gq)):
            for d in range(3):
                idx = (q * 2 + comp) * 3 + d
                want = Rat.var(f"A[{idx}]") + val * T("FE_u", perm, ent, q, d)
                g_ = got.get(("A", (idx,)), Rat.var(f"A[{idx}]"))
                if not (g_ == want):
                    res.fail(key, f"A[{idx}] (point {q}, component {comp}, dof {d}) = {_show(g_)[:220]}; the expression there is {_show(want)[:220]}", loc)
                    return
