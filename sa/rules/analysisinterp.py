"""ffcx.analysis._analyze_form interpreted on sample form data (C11, C01, C06, C19).

QMETA-INTERP  The function is interpreted from source with `ufl.algorithms.compute_form_data` replaced by a stub that returns a
              sample FormData: groups of integrals, each integral with its own metadata dictionary, estimated degrees and
              elements (ordinary, quadrature elements with their own points / weights, discontinuous ones).  What the function
              leaves in `form_data.integral_data[g].integrals[i].metadata()` is compared with the specification of C11, written
              independently and evaluated *per integral*:
                - an integral containing a quadrature element gets that element's points and weights, rule "custom";
                - otherwise degree = the requested quadrature_degree when it is >= 0 (0 included), else the maximum estimated
                  polynomial degree; rule = the requested quadrature_rule, "default" when absent;
                - nothing chosen for one integral depends on the integrals before it in the group or on earlier groups
                  (each sample group lists integrals whose neighbours would give a different answer);
                - integrals are replaced in place, position by position, by a reconstruction carrying that metadata;
                - vertex integrals with a discontinuous element anywhere in the integrand are rejected; empty forms and custom
                  integral types are rejected; compute_form_data is asked for the lowering the generator relies on.
"""

from __future__ import annotations

from ..absint import Interp, Node, PyNative, Raised, _PyCall
from ..lnodes_model import load_classes
from ..model import AnalysisError
from ..npmodel import NDArr, install, install_arrays
from ..registry import rule

AN = "ffcx.analysis"


class _Integral(PyNative):
    def __init__(self, label, itype, md, elements, est=(2,), version=0):
        self.label, self._itype, self._md, self._elements, self._est, self.version = label, itype, dict(md), list(elements), est, version
        self._md.setdefault("estimated_polynomial_degree", NDArr(list(est)))

    def metadata(self):
        return self._md  # UFL hands out the integral's own dict; the function under analysis copies or updates it as it sees fit

    def integral_type(self):
        return self._itype

    def reconstruct(self, metadata=None, **kw):
        if kw:
            raise AnalysisError(f"integral.reconstruct called with {sorted(kw)}")
        return _Integral(self.label, self._itype, dict(metadata if metadata is not None else self._md), self._elements, self._est, self.version + 1)

    def __repr__(self):
        return f"<integral {self.label}>"


def _el(name, custom=None, discontinuous=False):
    return Node("Element", name=name, has_custom_quadrature=custom is not None, discontinuous=discontinuous,
                custom_quadrature=_PyCall(lambda: (NDArr(custom[0]), NDArr(custom[1]))) if custom else _PyCall(lambda: (_ for _ in ()).throw(Raised("ValueError: no custom quadrature"))))


def _np_max(x):
    v = x.flat() if isinstance(x, NDArr) else (list(x) if isinstance(x, (list, tuple)) else [x])
    return max(v)


@rule(
    "QMETA-INTERP",
    ["C11", "C01", "C06", "C19"],
    "_analyze_form interpreted on sample form data: per integral, the metadata left behind is the requested degree (>= 0, zero "
    "included) or else the maximum estimated degree, the requested scheme or 'default', or the quadrature element's own points and "
    "weights as a 'custom' rule - decided for each integral alone, whatever precedes it in its group or in earlier groups; vertex "
    "integrals with discontinuous elements, empty forms and custom integral types are rejected",
    min_instances=12,
)
def qmeta_interp(repo, res):
    m = repo.mod(AN)
    f = m.func("_analyze_form")
    res.functions.add(f.key)
    res.functions.add(m.func("_has_custom_integrals").key)
    loc = m.line(f.node)
    P = _el("P2")
    DG = _el("DG1", discontinuous=True)
    Q1 = _el("Quadrature-A", custom=([[0.25, 0.25], [0.5, 0.125]], [0.3, 0.2]))
    Q2 = _el("Quadrature-B", custom=([[0.1, 0.7]], [0.5]))

    def groups():
        return [
            # group 0: neighbours that would give each other wrong answers if anything were carried over
            [("requested degree 2", "cell", {"quadrature_degree": 2}, [P], (5,)),
             ("no metadata (estimated 6)", "cell", {}, [P], (6,)),
             ("requested degree 0", "cell", {"quadrature_degree": 0}, [P], (4,)),
             ("negative degree = estimate (3, 1) -> 3", "cell", {"quadrature_degree": -1}, [P], (3, 1)),
             ("GLL scheme, degree 4", "cell", {"quadrature_rule": "GLL", "quadrature_degree": 4}, [P], (2,)),
             ("no scheme after GLL", "cell", {"quadrature_degree": 1}, [P], (2,))],
            # group 1: quadrature element first, ordinary integral after it, then another quadrature element
            [("quadrature element A", "cell", {}, [P, Q1], (2,)),
             ("ordinary integral after a quadrature element", "cell", {"quadrature_degree": 6}, [P], (2,)),
             ("quadrature element B", "cell", {"quadrature_degree": 3}, [Q2, P], (2,)),
             ("vertex scheme", "cell", {"quadrature_rule": "vertex", "quadrature_degree": 1}, [P], (2,))],
            # group 2: facet integrals, first one without metadata
            [("facet, no metadata (estimated 7)", "exterior_facet", {}, [P, DG], (7,)),
             ("facet, degree 3", "exterior_facet", {"quadrature_degree": 3}, [DG], (1,))],
            [("vertex integral, continuous", "vertex", {"quadrature_rule": "vertex"}, [P], (1,))],
        ]

    def expected(md, elements, est):
        cq = [e for e in elements if e.f["has_custom_quadrature"]]
        if cq:
            p, w = cq[0].f["custom_quadrature"].fn()
            return {"quadrature_points": p, "quadrature_weights": w, "quadrature_rule": "custom"}
        qd = md.get("quadrature_degree", -1)
        if qd < 0:
            qd = max(est)
        return {"quadrature_degree": qd, "quadrature_rule": md.get("quadrature_rule", "default")}

    def world(form_groups, empty=False, custom_types=False, calls=None):
        it = install_arrays(install(Interp(repo, load_classes(repo), primary=AN)))
        integrals = [[_Integral(*spec) for spec in g] for g in form_groups]
        idata = [Node("IntegralData", integrals=list(g), integral_type=g[0]._itype if g else "cell", subdomain_id=(k,)) for k, g in enumerate(integrals)]
        # the form's own element lists, consistent with the integrands: the first element is the argument's, the others are coefficients'
        allels = []
        for g in integrals:
            for i_ in g:
                for e_ in i_._elements:
                    if e_ not in allels:
                        allels.append(e_)
        fd = Node("FormData", integral_data=idata, argument_elements=allels[:1], coefficient_elements=allels[1:], rank=1 if allels else 0)
        coord = Node("_ElementBase", name="coordinate element")
        it.extra_bases["_ElementBase"] = ("_ElementBase",)
        dom = Node("Mesh", _ufl_coordinate_element=coord)

        class Integral(PyNative):
            def __init__(self, t):
                self._t = t
                self._ufl_domain = dom

            def integral_type(self):
                return self._t
        it.extra_bases["Form"] = ("Form",)
        fints = [Integral("cutcell" if custom_types else i._itype) for g in integrals for i in g]
        form = Node("Form", empty=_PyCall(lambda: empty), _integrals=fints, integrals=_PyCall(lambda: list(fints)))

        def cfd(form_, **kw):
            if calls is not None:
                calls.append((form_, kw))
            return fd
        it.overrides["ufl.algorithms.compute_form_data"] = _PyCall(cfd)
        it.overrides["ufl.algorithms.extract_elements"] = _PyCall(lambda integral: list(integral._elements))
        it.overrides["ufl.custom_integral_types"] = ("cutcell", "interface", "overlap", "custom")
        it.overrides["ufl.classes.Jacobian"] = "ufl.classes.Jacobian"
        it.overrides["np.max"] = _PyCall(_np_max)
        it.overrides["max"] = _PyCall(lambda *a: _np_max(a[0]) if len(a) == 1 else max(a))
        it.overrides["logger"] = Node("Logger", info=_PyCall(lambda *a: None), debug=_PyCall(lambda *a: None), warning=_PyCall(lambda *a: None))

        return it, form, fd, integrals

    # ---- 1. metadata per integral, every integral judged alone
    it, form, fd, before = world(groups())
    try:
        out = it.call_f(f, [form, "float64"])
    except Raised as e:
        res.ob(f"{f.key}:runs")
        res.fail(f"{f.key}:runs", f"_analyze_form raises ({e.what}) on the sample form (ordinary, quadrature-element, facet and vertex integrals)", loc)
        return
    if out is not fd:
        res.ob(f"{f.key}:returns-form-data")
        if not (isinstance(out, Node) and out.cls == "FormData"):
            res.fail(f"{f.key}:returns-form-data", f"_analyze_form returns {type(out).__name__}, not the form data computed by UFL", loc)
            return
    for g, (specs, idt) in enumerate(zip(groups(), out.f["integral_data"])):
        after = idt.f["integrals"]
        for i, spec in enumerate(specs):
            label, itype, md, elements, est = spec
            key = f"{f.key}:group{g}:{label}"
            res.ob(key)
            if len(after) != len(specs) or not isinstance(after[i], _Integral) or after[i].label != label:
                res.fail(key, f"group {g}: position {i} of integral_data.integrals holds {after[i] if i < len(after) else 'nothing'} after the analysis, expected the "
                         f"reconstruction of `{label}` (integrals are replaced position by position)", loc)
                continue
            got = dict(after[i]._md)
            want = expected(md, elements, est)
            bad = {k: (got.get(k, "<absent>"), v) for k, v in want.items() if not (got.get(k, "<absent>") == v)}
            extra = {k: got[k] for k in ("quadrature_points", "quadrature_weights") if k in got and k not in want}
            if bad or extra:
                prev = specs[i - 1][0] if i else None
                res.fail(key, f"integral `{label}` (metadata {md}, estimated degree {list(est)}, elements {[e.f['name'] for e in elements]}) ends up with "
                         f"{ {k: str(v[0]) for k, v in bad.items()} or extra}, expected { {k: str(v) for k, v in want.items()} }"
                         + (f"; the integral before it in the group is `{prev}`" if prev else ""), loc)
            if after[i].version == 0 and got != before[g][i]._md:
                res.fail(key, f"integral `{label}` was not reconstructed with its new metadata", loc)
    # ---- 2. rejections
    key = f"{f.key}:vertex-discontinuous-rejected"
    res.ob(key)
    for els in ([DG], [P, DG], [DG, P]):
        it, form, fd, _ = world([[("vertex integral with a discontinuous element", "vertex", {}, els, (1,))]])
        try:
            it.call_f(f, [form, "float64"])
            res.fail(key, f"a vertex integral whose integrand contains the discontinuous element(s) {[e.f['name'] for e in els]} is accepted: point evaluation of a "
                     "discontinuous function is not defined", loc)
            break
        except Raised:
            pass
    # quadrature elements of one integral must agree on points *and* weights
    QA = _el("Quadrature-A", custom=([[0.25, 0.25], [0.5, 0.125]], [0.3, 0.2]))
    QA2 = _el("Quadrature-A-again", custom=([[0.25, 0.25], [0.5, 0.125]], [0.3, 0.2]))
    QP = _el("Quadrature-other-points", custom=([[0.5, 0.0], [0.0, 0.5]], [0.3, 0.2]))
    QW = _el("Quadrature-other-weights", custom=([[0.25, 0.25], [0.5, 0.125]], [0.1, 0.4]))
    QN = _el("Quadrature-more-points", custom=([[0.25, 0.25], [0.5, 0.125], [0.1, 0.1]], [0.3, 0.1, 0.1]))
    for label, els, reject in (("two quadrature elements on the same rule", [QA, P, QA2], False), ("same weights, other points", [QA, QP], True),
                               ("same points, other weights", [QA, QW], True), ("another number of points", [QA, QN], True)):
        key = f"{f.key}:quadrature-elements:{label}"
        res.ob(key)
        it, form, fd, _ = world([[("integral with " + label, "cell", {}, els, (2,))]])
        it.overrides["np.shape"] = _PyCall(lambda a: tuple(a.shape) if isinstance(a, NDArr) else (len(a),))
        try:
            out = it.call_f(f, [form, "float64"])
            if reject:
                md = out.f["integral_data"][0].f["integrals"][0]._md if isinstance(out, Node) else {}
                res.fail(key, f"an integral whose quadrature elements live on different rules ({label}) is accepted and integrated with {str(md.get('quadrature_points'))[:60]}: "
                         "the other element's values are paired with the wrong points (silently wrong result); it must be rejected", loc)
        except Raised as e:
            if not reject:
                res.fail(key, f"an integral with {label} is rejected ({e.what})", loc)
    key = f"{f.key}:empty-form-rejected"
    res.ob(key)
    it, form, fd, _ = world(groups()[:1], empty=True)
    try:
        it.call_f(f, [form, "float64"])
        res.fail(key, "an empty (zero) form is analysed instead of being rejected", loc)
    except Raised:
        pass
    key = f"{f.key}:custom-integral-types-rejected"
    res.ob(key)
    it, form, fd, _ = world(groups()[:1], custom_types=True)
    try:
        it.call_f(f, [form, "float64"])
        res.fail(key, "a form with cutcell / interface / overlap / custom integrals is analysed instead of being rejected", loc)
    except Raised:
        pass
    # ---- 3. what UFL is asked to do
    for st in ("float64", "complex128", "float32", "complex64"):
        key = f"{f.key}:compute_form_data:{st}"
        res.ob(key)
        calls = []
        it, form, fd, _ = world(groups()[:1], calls=calls)
        try:
            it.call_f(f, [form, st])
        except Raised as e:
            res.fail(key, f"_analyze_form raises ({e.what}) for scalar type {st}", loc)
            continue
        if len(calls) != 1 or calls[0][0] is not form:
            res.fail(key, f"compute_form_data is called {len(calls)} times / not on the form being analysed", loc)
            continue
        kw = calls[0][1]
        want = {"do_apply_function_pullbacks": True, "do_apply_integral_scaling": True, "do_apply_geometry_lowering": True, "do_apply_restrictions": True,
                "do_append_everywhere_integrals": False, "complex_mode": st.startswith("complex")}
        bad = {k: kw.get(k, "<absent>") for k, v in want.items() if kw.get(k, "<absent>") is not v}
        if bad:
            res.fail(key, f"compute_form_data is called with {bad} for scalar type {st}, the generator relies on {want}", loc)
        pg = kw.get("preserve_geometry_types")
        if not isinstance(pg, (tuple, list)) or "ufl.classes.Jacobian" not in list(pg):
            res.fail(key, f"compute_form_data(preserve_geometry_types={pg!r}): the Jacobian must be preserved (it is computed from coordinate_dofs tables)", loc)


@rule(
    "ANALYZE-OBJECTS",
    ["C20", "C13", "C06", "C04"],
    "analyze_ufl_objects interpreted on a sample object list (forms - two of them distinct objects with the same UFL signature -, "
    "expressions with points, a mesh, an element): form_data has one entry per form, in order, each computed from that very form "
    "object (names and coefficient names are looked up by the identity of the original form); expressions keep their order as "
    "(processed, points, original); elements and coordinate elements of every object are collected; unknown objects are rejected",
    min_instances=5,
)
def analyze_objects(repo, res):
    m = repo.mod(AN)
    f = m.func("analyze_ufl_objects")
    res.functions.add(f.key)
    loc = m.line(f.node)

    class Form(PyNative):
        def __init__(self, name, sig, els, cels):
            self.name, self.sig, self.els, self.cels = name, sig, els, cels

        def signature(self):
            return self.sig

        def __repr__(self):
            return f"<form {self.name}>"

        def __hash__(self):
            return hash(self.sig)  # UFL forms with equal signature compare and hash equal

        def __eq__(self, o):
            return isinstance(o, Form) and o.sig == self.sig

    class Expr(PyNative):
        def __init__(self, name):
            self.name = name

        def __repr__(self):
            return f"<expr {self.name}>"

    class AbstractFiniteElement(PyNative):
        def __init__(self, name):
            self.name = name

        def __repr__(self):
            return f"el({self.name})"

        def __lt__(self, o):
            return self.name < o.name

    class _ElementBase(AbstractFiniteElement):
        pass

    class Mesh(PyNative):
        def __init__(self, ce):
            self.ce = ce

        def ufl_coordinate_element(self):
            return self.ce

    e1, e2, e3, ce1, ce2 = (_ElementBase(n) for n in ("P1", "P2", "DG0", "coordP1", "coordP2"))
    a = Form("a", "SIG-1", [e1], [ce1])
    L1 = Form("L_body", "SIG-2", [e2], [ce1])
    L2 = Form("L_traction", "SIG-2", [e2], [ce1])  # a different object (other coefficient, other name) with the same signature
    x1, x2 = Expr("flux"), Expr("stress")
    objs = [a, (x1, [[0.25, 0.25]]), L1, e3, L2, Mesh(ce2), (x2, [[0.5, 0.5]])]
    it = install_arrays(install(Interp(repo, load_classes(repo), primary=AN)))
    calls = []

    def analyze_form(form, st):
        calls.append(form)
        return Node("FormData", original_form=form, unique_sub_elements=list(form.els), coordinate_elements=list(form.cels), marker=len(calls))
    it.overrides["_analyze_form"] = _PyCall(analyze_form)
    it.overrides["_analyze_expression"] = _PyCall(lambda e, st: Expr("processed " + e.name))
    it.overrides["ufl.algorithms.extract_elements"] = _PyCall(lambda e: [e1] if e.name == "flux" else [e2])
    it.overrides["ufl.algorithms.analysis.extract_sub_elements"] = _PyCall(lambda els: [])
    it.overrides["ufl.algorithms.sort_elements"] = _PyCall(lambda els: sorted(els, key=lambda e: e.name))
    it.overrides["logger"] = Node("Logger", info=_PyCall(lambda *a: None), debug=_PyCall(lambda *a: None))
    it.overrides["UFLData"] = _PyCall(lambda **k: Node("UFLData", **k))
    it.overrides["np.asarray"] = _PyCall(lambda x, **k: x)
    it.overrides["repr"] = _PyCall(lambda x: repr(x))
    try:
        out = it.call_f(f, [objs, "float64"])
    except Raised as e:
        res.ob(f"{f.key}:runs")
        res.fail(f"{f.key}:runs", f"analyze_ufl_objects raises ({e.what}) on a list of forms, expressions, a mesh and an element", loc)
        return
    fd = out.f.get("form_data")
    key = f"{f.key}:one-form-data-per-form"
    res.ob(key)
    got = [d.f.get("original_form") for d in (fd or [])]
    if len(got) != 3 or any(g is not w for g, w in zip(got, [a, L1, L2])):
        res.fail(key, f"form_data belongs to the forms {got}, expected one entry per form in order [a, L_body, L_traction], each computed from that very object: two forms "
                 "with the same signature (f*v*dx and g*v*dx) are different objects with different names - their alias, coefficient names and element list are "
                 "looked up by object identity, so sharing one FormData declares the first alias twice and never the second", loc)
    elif len({id(d) for d in fd}) != 3:
        res.fail(key, "two forms share one FormData object", loc)
    key = f"{f.key}:expressions"
    res.ob(key)
    ex = out.f.get("expressions") or []
    if [(repr(p), pts, o) for p, pts, o in ex] != [("<expr processed flux>", [[0.25, 0.25]], x1), ("<expr processed stress>", [[0.5, 0.5]], x2)]:
        res.fail(key, f"expressions are {ex}, expected (processed, points, original) per expression in order", loc)
    key = f"{f.key}:elements-collected"
    res.ob(key)
    ue = out.f.get("unique_elements") or []
    if [e.name for e in ue] != ["DG0", "P1", "P2"] or out.f.get("element_numbers") != {e: i for i, e in enumerate(ue)}:
        res.fail(key, f"unique elements are {ue} with numbers {out.f.get('element_numbers')}: every element of every form, expression and stand-alone element must be numbered once", loc)
    key = f"{f.key}:unknown-object-rejected"
    res.ob(key)

    class Thing(PyNative):
        def __getitem__(self, k):
            return "not an expression"
    try:
        it.call_f(f, [[a, Thing()], "float64"])
        res.fail(key, "an object that is neither a form, an element, a mesh nor an (expression, points) pair is accepted by analyze_ufl_objects instead of being rejected", loc)
    except Raised:
        pass
    key = f"{f.key}:coordinate-elements-collected"
    res.ob(key)
    uc = out.f.get("unique_coordinate_elements") or []
    if [e.name for e in uc] != ["coordP1", "coordP2"]:
        res.fail(key, f"unique coordinate elements are {uc}, expected those of the forms and of the stand-alone mesh, once each, in a canonical order", loc)


@rule(
    "COMPILE-PIPELINE",
    ["C20", "C19", "C13"],
    "compile_ufl_objects interpreted with recording stubs for its four stages: analysis of the given objects with the scalar type of "
    "the options, IR from that analysis with the caller's object names, namespace, options and visualise flag, code from that IR, "
    "source from that code, returned with the backend's suffixes; a namespace that is not made of [A-Za-z0-9_] (it becomes part of "
    "every C identifier: `ffcx -n a-b` would emit `form_a-b_0`) is rejected before anything is generated",
    min_instances=4,
)
def compile_pipeline(repo, res):
    CM = "ffcx.compiler"
    m = repo.mod(CM)
    f = m.func("compile_ufl_objects")
    res.functions.add(f.key)
    loc = m.line(f.node)

    def run(namespace, names={7: "a"}, visualise=True):
        it = Interp(repo, load_classes(repo), primary=CM)
        log = []
        it.overrides["time"] = _PyCall(lambda: 0.0)
        it.overrides["_print_timing"] = _PyCall(lambda *a: None)
        it.overrides["logger"] = Node("Logger", info=_PyCall(lambda *a: None), debug=_PyCall(lambda *a: None))
        it.overrides["analyze_ufl_objects"] = _PyCall(lambda objs, st: log.append(("analysis", objs, st)) or "ANALYSIS")
        it.overrides["compute_ir"] = _PyCall(lambda an, on, ns, opts, vis=False: log.append(("ir", an, on, ns, opts, vis)) or "IR")
        it.overrides["generate_code"] = _PyCall(lambda ir, opts: log.append(("code", ir, opts)) or ("CODE", (".h", ".c")))
        it.overrides["format_code"] = _PyCall(lambda code: log.append(("format", code)) or ["H", "C"])
        import re as _re

        class _Re(PyNative):
            def fullmatch(self, pat, s_, *a):
                return _re.fullmatch(pat, s_)

            def match(self, pat, s_, *a):
                return _re.match(pat, s_)

            def search(self, pat, s_, *a):
                return _re.search(pat, s_)
        it.overrides["re"] = _Re()
        for fn_ in ("fullmatch", "match", "search"):
            it.overrides[f"re.{fn_}"] = _PyCall(getattr(_Re(), fn_))
        opts = {"scalar_type": "complex64", "part": "full"}
        objs = ["form1", "expr1"]
        kw = {"object_names": dict(names) if names is not None else None, "namespace": namespace, "visualise": visualise}
        out = it.call_f(f, [objs, opts], kw)
        return out, log, objs, opts

    key = f"{f.key}:stages-chained"
    res.ob(key)
    try:
        out, log, objs, opts = run("poisson_2")
        want = [("analysis", objs, "complex64"), ("ir", "ANALYSIS", {7: "a"}, "poisson_2", opts, True), ("code", "IR", opts), ("format", "CODE")]
        if log != want:
            res.fail(key, f"the four stages are called as {log}, expected {want}: each stage works on the previous stage's result with the caller's names, namespace, "
                     "options and visualise flag", loc)
        if not isinstance(out, tuple) or list(out[0]) != ["H", "C"] or tuple(out[1]) != (".h", ".c"):
            res.fail(key, f"compile_ufl_objects returns {out!r}, expected (formatted sources, suffixes of the backend)", loc)
    except Raised as e:
        res.fail(key, f"compile_ufl_objects raises ({e.what}) on a plain request", loc)
    key = f"{f.key}:defaults"
    res.ob(key)
    try:
        out, log, objs, opts = run(None, names=None, visualise=False)
        irc = [e for e in log if e[0] == "ir"]
        if not irc or irc[0][2] != {} or irc[0][3] != "" or irc[0][5] is not False:
            res.fail(key, f"without names / namespace the IR stage receives {irc[0][2:] if irc else None}, expected ({{}}, '', options, False)", loc)
    except Raised as e:
        res.fail(key, f"compile_ufl_objects raises ({e.what}) without object names and namespace", loc)
    # names are registered under the identity of the objects the caller listed: whatever compile_ufl_objects hands to the analysis
    # (the objects themselves, or - for part="diagonal" - forms derived from them) must be found under its own identity in the names
    # the IR stage receives, with the name of the object it stands for
    key = f"{f.key}:names-follow-the-objects"
    res.ob(key)

    class Arg(PyNative):
        def __init__(self, n):
            self.n = n

        def number(self):
            return self.n

    class Form(PyNative):
        def __init__(self, name, numbers, blocks=None):
            self.name, self.numbers, self.blocks = name, numbers, blocks

        def arguments(self):
            return [Arg(n) for n in self.numbers]

        def __repr__(self):
            return self.name

        def __add__(self, o):
            return Form(f"({self.name}+{o.name})", self.numbers)

        __radd__ = __add__

        def __eq__(self, o):
            return self is o

        def __hash__(self):
            return id(self)

    class Zero(Form):
        def __init__(self):
            super().__init__("0", [0, 1])

        def __add__(self, o):
            return Form(f"diag:{o.name}", o.numbers)

        def __eq__(self, o):
            return (isinstance(o, int) and o == 0) or self is o

        def __hash__(self):
            return 0
    for part in ("full", "diagonal"):
        a_ = Form("a", [0, 1], [[Form("a00", [0, 1]), Form("a01", [0, 1])], [Form("a10", [0, 1]), Form("a11", [0, 1])]])
        L_ = Form("L", [0], [[Form("L0", [0])]])
        it = Interp(repo, load_classes(repo), primary=CM)
        log = []
        it.overrides["time"] = _PyCall(lambda: 0.0)
        it.overrides["_print_timing"] = _PyCall(lambda *a: None)
        it.overrides["logger"] = Node("Logger", info=_PyCall(lambda *a: None), debug=_PyCall(lambda *a: None))
        it.overrides["analyze_ufl_objects"] = _PyCall(lambda objs, st: log.append(("analysis", list(objs))) or "ANALYSIS")
        it.overrides["compute_ir"] = _PyCall(lambda an, on, ns, opts, vis=False: log.append(("ir", dict(on))) or "IR")
        it.overrides["generate_code"] = _PyCall(lambda ir, opts: ("CODE", (".h", ".c")))
        it.overrides["format_code"] = _PyCall(lambda code: ["H", "C"])
        it.overrides["id"] = _PyCall(lambda o: id(o))
        for nm_ in ("ufl.Form", "ufl.form.Form"):
            it.overrides[nm_] = Form
        it.overrides["ufl.ZeroBaseForm"] = _PyCall(lambda args=(): Zero())
        it.overrides["ufl.extract_blocks"] = _PyCall(lambda form, *a_, **k_: [list(r) for r in form.blocks])
        import re as _re2
        it.overrides["re.fullmatch"] = _PyCall(lambda pat, s_, *a: _re2.fullmatch(pat, s_))
        names = {id(a_): "a", id(L_): "L"}
        try:
            it.call_f(f, [[a_, L_], {"scalar_type": "float64", "part": part}], {"object_names": dict(names), "namespace": "ns"})
        except Raised as e:
            res.fail(key, f"compile_ufl_objects raises ({e.what}) on [a, L] with part={part!r}", loc)
            continue
        analysed = next((e[1] for e in log if e[0] == "analysis"), None)
        on = next((e[1] for e in log if e[0] == "ir"), None)
        if not isinstance(analysed, list) or len(analysed) != 2 or on is None:
            res.fail(key, f"with part={part!r} the analysis receives {analysed} and the IR stage the names {on}", loc)
            continue
        got = [on.get(id(o)) for o in analysed]
        if got != ["a", "L"]:
            res.fail(key, f"with part={part!r} the objects handed to the analysis are {analysed} and the names the IR stage looks them up in give {got} for them, the caller "
                     "named them ['a', 'L']: names are found by object identity, so a form replaced before the analysis loses its name and its alias "
                     "form_<prefix>_<name> is never emitted", loc, props=("C20",))
    for ns in ("a-b", "my ns", "x.y", "ns;"):
        key = f"{f.key}:namespace-rejected:{ns}"
        res.ob(key)
        try:
            out, log, *_ = run(ns)
            res.fail(key, f"the namespace {ns!r} is accepted and handed to the IR stage; it becomes part of every generated identifier (form_{ns}_<name>, the object names), "
                     "which is then not a C identifier - the error appears in the C compiler, not in Python", loc)
        except Raised:
            pass
    for ns in ("Poisson", "_x9", "libffcx_forms_0123abcdef"):
        key = f"{f.key}:namespace-accepted:{ns}"
        res.ob(key)
        try:
            run(ns)
        except Raised as e:
            res.fail(key, f"the valid namespace {ns!r} is rejected ({e.what})", loc)


@rule(
    "EXPR-PREPROCESS",
    ["C19", "C09", "C04"],
    "_analyze_expression interpreted with recording stand-ins for the UFL passes: an expression gets the complex-mode treatment UFL's "
    "compute_form_data gives a form - in complex mode the comparison check (ordering of complex values is rejected, real operands are "
    "wrapped in Real) right after algebra lowering, in real mode the removal of complex nodes as the last step - and the lowering passes "
    "in UFL's order (algebra, derivatives, pullbacks, geometry with the Jacobian preserved, derivatives again)",
    min_instances=4,
)
def expr_preprocess(repo, res):
    from ..npmodel import install as _install_np

    m = repo.mod(AN)
    f = m.func("_analyze_expression")
    res.functions.add(f.key)
    loc = m.line(f.node)
    passes = ["apply_algebra_lowering", "apply_derivatives", "apply_function_pullbacks", "apply_geometry_lowering", "remove_complex_nodes", "do_comparison_check",
              "apply_coefficient_splitting", "apply_integral_scaling", "apply_default_expansions", "apply_coordinate_element_mapping"]
    for st in ("float32", "float64", "complex64", "complex128"):
        key = f"{f.key}:{st}"
        res.ob(key)
        it = _install_np(Interp(repo, load_classes(repo), primary=AN))
        log = []

        def stub(name):
            def run(e, *a, **k):
                log.append((name, a, k))
                return ("after", name, e)
            return _PyCall(run)
        for p_ in passes:
            for pre in (f"ufl.algorithms.{p_}.{p_}", f"ufl.algorithms.{p_}", p_, f"ufl.algorithms.comparison_checker.{p_}", f"ufl.algorithms.remove_complex_nodes.{p_}"):
                it.overrides[pre] = stub(p_)
        it.overrides["ufl.classes.Jacobian"] = "Jacobian"
        try:
            out = it.call_f(f, ["EXPR", st])
        except Raised as e:
            res.fail(key, f"_analyze_expression raises ({e.what}) for scalar type {st}", loc)
            continue
        chain = [n_ for n_, _a, _k in log]
        is_complex = st.startswith("complex")
        msgs = []
        if chain[:1] != ["apply_algebra_lowering"]:
            msgs.append(f"the first pass is {chain[:1]}, not algebra lowering")
        if is_complex:
            if "do_comparison_check" not in chain:
                msgs.append("in complex mode the comparison check is not applied: `conditional(lt(f, 0.5), 1.0, 2.0)` with a complex coefficient f is emitted as "
                            "`w0 < 0.5` on a `double _Complex` (not valid C), and comparisons of real-valued operands are not wrapped in Real - UFL's "
                            "compute_form_data applies do_comparison_check to forms right after algebra lowering, expressions are not checked by UFL")
            elif chain.index("do_comparison_check") != 1:
                msgs.append(f"the comparison check runs as pass {chain.index('do_comparison_check')}, not right after algebra lowering (derivatives of the inserted Real nodes "
                            "must be handled by the later passes, as for forms)")
            if "remove_complex_nodes" in chain:
                msgs.append("complex nodes are removed in complex mode")
        else:
            if chain[-1:] != ["remove_complex_nodes"]:
                msgs.append(f"in real mode the last pass is {chain[-1:]}, not the removal of complex nodes (conj / real / imag survive into a real kernel)")
            if "do_comparison_check" in chain:
                msgs.append("the comparison check is applied in real mode (it wraps operands in Real)")
        want_core = ["apply_derivatives", "apply_function_pullbacks", "apply_geometry_lowering", "apply_derivatives"]
        core = [n_ for n_ in chain if n_ in ("apply_derivatives", "apply_function_pullbacks", "apply_geometry_lowering")]
        if core[:4] != want_core:
            msgs.append(f"the lowering passes run as {core}, expected derivatives, pullbacks, geometry lowering, derivatives (...) as in compute_form_data")
        for n_, a_, k_ in log:
            if n_ == "apply_geometry_lowering" and not (a_ and "Jacobian" in str(a_[0])) and "Jacobian" not in str(k_):
                msgs.append("geometry lowering is not told to preserve the Jacobian (FFCx generates it from the coordinate dofs itself)")
                break
        # the result is what the last pass returned, each pass applied to the previous result
        x = out
        depth = 0
        while isinstance(x, tuple) and len(x) == 3 and x[0] == "after":
            x = x[2]
            depth += 1
        if x != "EXPR" or depth != len(chain):
            msgs.append(f"the result is not the chain of all {len(chain)} passes applied to the expression (a pass result is dropped)")
        for msg in msgs:
            res.fail(key, f"scalar type {st}: {msg}", loc, props=("C19", "C09", "C04"))
