"""Reference-entity point maps and the tabulation driver, interpreted from source (C02, C01, C04, C11).

ENTITY-POINT-MAPS  ffcx.element_interface.map_facet_points / map_edge_points / reference_cell_vertices and
                   ffcx.ir.representationutils.map_integral_points / integral_type_to_entity_dim are interpreted on
                   exact rational sample points for every (cell type, integral type, local entity).  basix.geometry and
                   basix.topology are library facts (the reference cells, written in the checker).  Specification,
                   written independently as a barycentric combination: a point p of the reference entity is sent to
                   (1 - sum p_i) v_0 + sum p_i v_i with v_0.. the entity's vertices in basix's order - in particular
                   reference vertex k goes to the k-th vertex of *that* entity, of *that* cell.
GEN-TABVALUES      ffcx.ir.elementtables.get_ffcx_table_values interpreted with an element model whose tabulate() returns
                   values that are a known injective function of (derivative index, point coordinates, dof): the
                   returned table must be [0][entity][point][dof] = component element's derivative `basix.index(counts)`
                   at the image of point q on entity e (codimension 0) or at the unmapped points (codimension 1, 2),
                   with (offset, stride) of the requested flat component.
"""

from __future__ import annotations

from fractions import Fraction as Fr

from ..absint import Interp, Node, PyNative, Raised, _PyCall
from ..lnodes_model import load_classes
from ..model import AnalysisError
from ..npmodel import NDArr, install_arrays
from ..registry import rule

EI = "ffcx.element_interface"
RU = "ffcx.ir.representationutils"
ET = "ffcx.ir.elementtables"

# ---- library facts: basix reference cells (geometry, topology by dimension) ----
GEOM = {
    "interval": [[0], [1]],
    "triangle": [[0, 0], [1, 0], [0, 1]],
    "tetrahedron": [[0, 0, 0], [1, 0, 0], [0, 1, 0], [0, 0, 1]],
    "quadrilateral": [[0, 0], [1, 0], [0, 1], [1, 1]],
    "hexahedron": [[0, 0, 0], [1, 0, 0], [0, 1, 0], [1, 1, 0], [0, 0, 1], [1, 0, 1], [0, 1, 1], [1, 1, 1]],
    "prism": [[0, 0, 0], [1, 0, 0], [0, 1, 0], [0, 0, 1], [1, 0, 1], [0, 1, 1]],
    "pyramid": [[0, 0, 0], [1, 0, 0], [0, 1, 0], [1, 1, 0], [0, 0, 1]],
}
EDGES = {
    "interval": [[0, 1]],
    "triangle": [[1, 2], [0, 2], [0, 1]],
    "tetrahedron": [[2, 3], [1, 3], [1, 2], [0, 3], [0, 2], [0, 1]],
    "quadrilateral": [[0, 1], [0, 2], [1, 3], [2, 3]],
    "hexahedron": [[0, 1], [0, 2], [0, 4], [1, 3], [1, 5], [2, 3], [2, 6], [3, 7], [4, 5], [4, 6], [5, 7], [6, 7]],
    "prism": [[0, 1], [0, 2], [0, 3], [1, 2], [1, 4], [2, 5], [3, 4], [3, 5], [4, 5]],
    "pyramid": [[0, 1], [0, 2], [0, 4], [1, 3], [1, 4], [2, 3], [2, 4], [3, 4]],
}
FACES = {
    "tetrahedron": [[1, 2, 3], [0, 2, 3], [0, 1, 3], [0, 1, 2]],
    "hexahedron": [[0, 1, 2, 3], [0, 1, 4, 5], [0, 2, 4, 6], [1, 3, 5, 7], [2, 3, 6, 7], [4, 5, 6, 7]],
    "prism": [[0, 1, 2], [0, 1, 3, 4], [0, 2, 3, 5], [1, 2, 4, 5], [3, 4, 5]],
    "pyramid": [[0, 1, 2, 3], [0, 1, 4], [0, 2, 4], [1, 3, 4], [2, 3, 4]],
}
TDIM = {"interval": 1, "triangle": 2, "quadrilateral": 2, "tetrahedron": 3, "hexahedron": 3, "prism": 3, "pyramid": 3}


def topology(c):
    n = len(GEOM[c])
    t = [[[i] for i in range(n)], [list(e) for e in EDGES[c]]]
    if TDIM[c] == 2:
        t.append([list(range(n))])
    elif TDIM[c] == 3:
        t.append([list(f) for f in FACES[c]])
        t.append([list(range(n))])
    return t


def sub_entities(c, dim):
    return topology(c)[dim]


def basix_index(*ix):
    if len(ix) == 1:
        return ix[0]
    if len(ix) == 2:
        x, y = ix
        return (x + y) * (x + y + 1) // 2 + y
    x, y, z = ix
    s = x + y + z
    return s * (s + 1) * (s + 2) // 6 + (y + z) * (y + z + 1) // 2 + z


class _CellTypes(PyNative):
    def __getitem__(self, name):
        if name not in GEOM:
            raise Raised(f"KeyError: {name}")
        return name


def _world(repo, primary):
    it = install_arrays(Interp(repo, load_classes(repo), primary=primary))
    it.overrides["_CellType"] = _CellTypes()
    it.overrides["basix.CellType"] = _CellTypes()
    it.overrides["basix.geometry"] = _PyCall(lambda c: NDArr([[Fr(v) for v in p] for p in GEOM[c]]))
    it.overrides["basix.topology"] = _PyCall(lambda c: topology(c))
    it.overrides["basix.index"] = _PyCall(basix_index)
    for k in ("facet_integral_types", "ridge_integral_types", "point_integral_types"):
        pass
    it.overrides["ufl.measure.facet_integral_types"] = ("exterior_facet", "interior_facet")
    it.overrides["ufl.measure.ridge_integral_types"] = ("ridge",)
    it.overrides["ufl.measure.point_integral_types"] = ("vertex",)
    it.overrides["ufl.custom_integral_types"] = ("cutcell", "interface", "overlap", "custom")
    it.overrides["logger"] = Node("Logger", exception=_PyCall(lambda *a: None), info=_PyCall(lambda *a: None), debug=_PyCall(lambda *a: None))
    return it


def _cell(c):
    return Node("Cell", cellname=c, topological_dimension=TDIM[c], num_sub_entities=_PyCall(lambda d, _c=c: len(sub_entities(_c, d))))


def _expected_image(c, verts, p):
    """barycentric combination of the entity's vertices"""
    g = GEOM[c]
    lam0 = 1 - sum(p, Fr(0))
    out = [lam0 * Fr(v) for v in g[verts[0]]]
    for pi, vi in zip(p, verts[1:]):
        out = [o + pi * Fr(x) for o, x in zip(out, g[vi])]
    return out


def _ref_points(dim):
    """reference vertices of the entity plus generic rational points (nothing symmetric)"""
    if dim == 0:
        return [[]]
    if dim == 1:
        return [[Fr(0)], [Fr(1)], [Fr(2, 7)]]
    return [[Fr(0), Fr(0)], [Fr(1), Fr(0)], [Fr(0), Fr(1)], [Fr(1, 5), Fr(3, 11)], [Fr(2, 3), Fr(1, 7)]]


def _rows(v):
    if isinstance(v, NDArr):
        return v.tolist()
    if isinstance(v, (list, tuple)):
        return [list(r.tolist() if isinstance(r, NDArr) else r) for r in v]
    raise AnalysisError(f"point map returned {type(v).__name__}")


@rule(
    "ENTITY-POINT-MAPS",
    ["C02", "C01", "C04", "C11"],
    "the maps from a reference facet / edge / vertex into the reference cell (map_facet_points, map_edge_points, "
    "reference_cell_vertices, map_integral_points, integral_type_to_entity_dim) are interpreted on exact sample points for every "
    "(cell type, integral type, local entity): reference vertex k of the entity must go to the k-th vertex of that entity of "
    "that cell and the map must be affine in between (barycentric specification over the basix reference cells)",
    min_instances=60,
)
def entity_point_maps(repo, res):
    ei, ru = repo.mod(EI), repo.mod(RU)
    mf, me, rv = ei.func("map_facet_points"), ei.func("map_edge_points"), ei.func("reference_cell_vertices")
    mi, ed = ru.func("map_integral_points"), ru.func("integral_type_to_entity_dim")
    res.functions.update({mf.key, me.key, rv.key, mi.key, ed.key})

    # 1. the dimension of the integration entity
    for itype, codim in (("cell", 0), ("exterior_facet", 1), ("interior_facet", 1), ("ridge", 2), ("vertex", None), ("custom", 0), ("cutcell", 0),
                         ("interface", 0), ("overlap", 0), ("expression", 0)):
        for tdim in (1, 2, 3):
            if codim is not None and tdim - codim < 0:
                continue
            key = f"{ed.key}:{itype}:tdim{tdim}"
            res.ob(key)
            want = 0 if codim is None else tdim - codim
            try:
                got = _world(repo, RU).call_f(ed, [itype, tdim])
            except Raised as e:
                got = f"raises {e.what}"
            if got != want:
                res.fail(key, f"integral_type_to_entity_dim({itype!r}, {tdim}) = {got}, the integration entity of a {itype} integral has dimension {want}", ru.line(ed.node))
    key = f"{ed.key}:unknown-type-rejected"
    res.ob(key)
    try:
        got = _world(repo, RU).call_f(ed, ["no_such_type", 2])
        res.fail(key, f"integral_type_to_entity_dim accepts an unknown integral type and returns {got}", ru.line(ed.node))
    except Raised:
        pass

    # 2. the maps themselves, through map_integral_points (what the tabulation uses) and directly
    def check(key, what, call, c, verts, pts, loc):
        try:
            got = _rows(call())
        except Raised as e:
            res.fail(key, f"{what} raises ({e.what})", loc)
            return
        want = [_expected_image(c, verts, p) for p in pts]
        if got != want:
            bad = next((i for i in range(min(len(got), len(want))) if got[i] != want[i]), None)
            if bad is None:
                res.fail(key, f"{what}: {len(got)} points returned for {len(want)} reference points", loc)
            else:
                res.fail(key, f"{what}: reference point {tuple(str(x) for x in pts[bad])} is sent to {tuple(str(x) for x in got[bad])}, but entity vertices "
                         f"{verts} of the reference {c} (at {[GEOM[c][v] for v in verts]}) put it at {tuple(str(x) for x in want[bad])}: the tables would be "
                         "tabulated on another sub-entity or with another orientation than the one entity_local_index selects", loc)

    for c in GEOM:
        tdim = TDIM[c]
        for itype, edim in (("cell", tdim), ("exterior_facet", tdim - 1), ("interior_facet", tdim - 1), ("ridge", tdim - 2), ("vertex", 0)):
            if edim < 0:
                continue
            ents = sub_entities(c, edim)
            for e, verts in enumerate(ents):
                if itype == "cell":
                    # identity on the cell itself: points are handed through
                    pts = [[Fr(1, 5)] * tdim, [Fr(1, 3)] + [Fr(1, 7)] * (tdim - 1)]
                    key = f"{mi.key}:{c}:{itype}"
                    res.ob(key)
                    try:
                        got = _rows(_world(repo, RU).call_f(mi, [NDArr(pts), itype, _cell(c), 0]))
                        if got != pts:
                            res.fail(key, f"map_integral_points on a cell integral changes the points: {got}", ru.line(mi.node))
                    except Raised as ex:
                        res.fail(key, f"map_integral_points({itype!r}) raises ({ex.what})", ru.line(mi.node))
                    continue
                key = f"{mi.key}:{c}:{itype}:entity{e}"
                res.ob(key)
                if itype == "vertex":
                    # vertex integrals carry one 0-dimensional point
                    pts_in, pts = NDArr([[]], (1, 0)), [[]]
                elif edim == 0:
                    pts_in, pts = NDArr([[]], (1, 0)), [[]]
                else:
                    pts = _ref_points(edim)
                    # the reference entity of a quadrilateral face is the unit square: its third listed vertex is (0,1)
                    pts_in = NDArr(pts)
                vv = verts[:1] + verts[1:edim + 1] if len(verts) <= edim + 1 else [verts[0], verts[1], verts[2]][:edim + 1]
                check(key, f"map_integral_points(points, {itype!r}, {c}, entity {e})",
                      lambda: _world(repo, RU).call_f(mi, [pts_in, itype, _cell(c), e]), c, vv, pts, ru.line(mi.node))
        # direct calls (used by other callers as well)
        if tdim >= 2:
            for e, verts in enumerate(sub_entities(c, tdim - 1)):
                key = f"{mf.key}:{c}:facet{e}"
                res.ob(key)
                pts = _ref_points(tdim - 1)
                check(key, f"map_facet_points(points, {e}, {c!r})", lambda: _world(repo, EI).call_f(mf, [NDArr(pts), e, c]), c, verts[:tdim], pts, ei.line(mf.node))
        if tdim == 3:
            for e, verts in enumerate(sub_entities(c, 1)):
                key = f"{me.key}:{c}:edge{e}"
                res.ob(key)
                pts = _ref_points(1)
                check(key, f"map_edge_points(points, {e}, {c!r})", lambda: _world(repo, EI).call_f(me, [NDArr(pts), e, c]), c, verts[:2], pts, ei.line(me.node))
        key = f"{rv.key}:{c}"
        res.ob(key)
        try:
            got = _rows(_world(repo, EI).call_f(rv, [c]))
            if got != [[Fr(x) for x in p] for p in GEOM[c]]:
                res.fail(key, f"reference_cell_vertices({c!r}) = {got}, not the reference geometry", ei.line(rv.node))
        except Raised as ex:
            res.fail(key, f"reference_cell_vertices({c!r}) raises ({ex.what})", ei.line(rv.node))


def _phi(comp_id, didx, X, d):
    """value of dof d's derivative no. didx of component element comp_id at point X: injective in every argument for the samples"""
    return Fr(1000 * (comp_id + 1) + 100 * didx + d + 1) + sum((Fr(7 * (k + 1) + didx) * x for k, x in enumerate(X)), Fr(0)) * (d + 2)


@rule(
    "GEN-TABVALUES",
    ["C02", "C01", "C04"],
    "get_ffcx_table_values interpreted with an element model whose tabulate() is a known injective function of (derivative index, "
    "point, dof): table[0][entity][point][dof] must be the requested component element's derivative basix.index(counts) at the "
    "image of quadrature point q on local entity e (codimension 0) or at the points as given (codimension 1 and 2), one slice per "
    "sub-entity of the integration dimension, with the component's (offset, stride)",
    min_instances=20,
)
def gen_tabvalues(repo, res):
    et = repo.mod(ET)
    f = et.func("get_ffcx_table_values")
    res.functions.add(f.key)
    loc = et.line(f.node)

    def element(ncomp=3, ndofs=(3, 2, 4)):
        comps = []
        for cid in range(ncomp):
            nd = ndofs[cid % len(ndofs)]

            def tabulate(nderiv, points, _cid=cid, _nd=nd):
                pts = _rows(points) if not (isinstance(points, NDArr) and points.ndim == 2 and points.shape[1] == 0) else [[] for _ in range(points.shape[0])]
                gd = len(pts[0]) if pts and pts[0] else 0
                # number of derivative slots up to order nderiv in gd variables
                import math
                nslots = math.comb(nderiv + max(gd, 1), max(gd, 1)) if gd else 1
                return NDArr([[[_phi(_cid, k, X, d) for d in range(_nd)] for X in pts] for k in range(nslots)], (nslots, len(pts), _nd))
            comps.append(Node("ComponentElement", cid=cid, dim=nd, tabulate=_PyCall(tabulate)))

        def get_component_element(fc):
            if fc is None:
                fc = 0
            return comps[fc], 10 + fc, ncomp
        return Node("Element", get_component_element=_PyCall(get_component_element), embedded_superdegree=_PyCall(lambda: 2)), comps

    def run(c, itype, etype, derivs, fc, codim, pts, entity_type_for_expression=None):
        it = _world(repo, ET)
        it.extra_bases["Element"] = ()
        el, comps = element()
        out = it.call_f(f, [NDArr(pts) if pts and pts[0] else NDArr([[] for _ in pts], (len(pts), 0)), _cell(c), itype, el, None, etype, tuple(derivs), fc, codim])
        return out, comps

    def scenario(label, c, itype, etype, edim, derivs, fc, codim, pts, mapped=True):
        key = f"{f.key}:{label}"
        res.ob(key)
        try:
            out, comps = run(c, itype, etype, derivs, fc, codim, pts)
        except Raised as e:
            res.fail(key, f"get_ffcx_table_values raises ({e.what}) on `{label}`", loc)
            return
        if not isinstance(out, dict) or "array" not in out:
            raise AnalysisError("get_ffcx_table_values did not return a dict with an array")
        comp = comps[fc or 0]
        ents = sub_entities(c, edim)
        didx = basix_index(*derivs) if derivs else 0
        want = []
        for e, verts in enumerate(ents):
            if mapped and edim < TDIM[c]:
                vv = verts[:edim + 1] if len(verts) >= edim + 1 else verts
                X = [_expected_image(c, vv, p) for p in pts]
            else:
                X = [list(p) for p in pts]
            want.append([[_phi(comp.f["cid"], didx, x, d) for d in range(comp.f["dim"])] for x in X])
        arr = out["array"]
        got = arr.tolist() if isinstance(arr, NDArr) else arr
        exp_shape = (1, len(ents), len(pts), comp.f["dim"])
        if isinstance(arr, NDArr) and tuple(arr.shape) != exp_shape:
            res.fail(key, f"`{label}`: table has shape {tuple(arr.shape)}, expected {exp_shape} = (1, entities of dimension {edim}, points, dofs of the component element)", loc)
        elif got != [want]:
            bad = next(((e, q, d) for e in range(exp_shape[1]) for q in range(exp_shape[2]) for d in range(exp_shape[3]) if got[0][e][q][d] != want[e][q][d]), None)
            res.fail(key, f"`{label}`: entry [entity {bad[0]}][point {bad[1]}][dof {bad[2]}] is not derivative {tuple(derivs)} (basix index {didx}) of flat component "
                     f"{fc}'s element at {'the image of the point on that entity' if mapped else 'the given point'}: the kernel would read the basis function at another "
                     "point, of another derivative, or of another component", loc)
        if out.get("offset") != 10 + (fc or 0) or out.get("stride") != 3:
            res.fail(key, f"`{label}`: (offset, stride) = ({out.get('offset')}, {out.get('stride')}), the component element of flat component {fc} has (offset, stride) = "
                     f"({10 + (fc or 0)}, 3)", loc)

    P1 = [[Fr(1, 5)], [Fr(3, 4)]]
    P2 = [[Fr(1, 5), Fr(1, 3)], [Fr(1, 2), Fr(1, 8)], [Fr(1, 7), Fr(2, 7)]]
    P3 = [[Fr(1, 5), Fr(1, 3), Fr(1, 11)], [Fr(1, 2), Fr(1, 8), Fr(1, 9)]]
    scenario("cell integral on a triangle, value", "triangle", "cell", "cell", 2, (0, 0), 0, 0, P2)
    scenario("cell integral on a triangle, d/dy of component 1", "triangle", "cell", "cell", 2, (0, 1), 1, 0, P2)
    scenario("cell integral on a triangle, d2/dxdy of component 2", "triangle", "cell", "cell", 2, (1, 1), 2, 0, P2)
    scenario("cell integral on a tetrahedron, d/dz", "tetrahedron", "cell", "cell", 3, (0, 0, 1), 1, 0, P3)
    scenario("cell integral on a hexahedron, d2/dydz", "hexahedron", "cell", "cell", 3, (0, 1, 1), 0, 0, P3)
    scenario("cell integral on an interval, d/dx", "interval", "cell", "cell", 1, (1,), 1, 0, P1)
    scenario("custom integral on a triangle (cell points)", "triangle", "custom", "cell", 2, (1, 0), 0, 0, P2)
    for c in ("triangle", "quadrilateral"):
        scenario(f"exterior facet integral on a {c}", c, "exterior_facet", "facet", 1, (1, 0), 1, 0, P1)
        scenario(f"interior facet integral on a {c}", c, "interior_facet", "facet", 1, (0, 1), 2, 0, P1)
    for c in ("tetrahedron", "hexahedron", "prism", "pyramid"):
        scenario(f"exterior facet integral on a {c}", c, "exterior_facet", "facet", 2, (0, 0, 1), 1, 0, P2)
    scenario("interior facet integral on a tetrahedron, d/dx", "tetrahedron", "interior_facet", "facet", 2, (1, 0, 0), 0, 0, P2)
    scenario("interior facet integral on an interval", "interval", "interior_facet", "facet", 0, (1,), 0, 0, [[]])
    scenario("vertex integral on a triangle", "triangle", "vertex", "vertex", 0, (0, 0), 1, 0, [[]])
    scenario("vertex integral on a tetrahedron", "tetrahedron", "vertex", "vertex", 0, (0, 1, 0), 1, 0, [[]])
    scenario("ridge integral on a tetrahedron", "tetrahedron", "ridge", "ridge", 1, (0, 1, 0), 2, 0, P1)
    scenario("ridge integral on a hexahedron", "hexahedron", "ridge", "ridge", 1, (1, 0, 0), 0, 0, P1)
    scenario("ridge integral on a triangle", "triangle", "ridge", "ridge", 0, (1, 0), 0, 0, [[]])
    scenario("cell expression on a triangle", "triangle", "expression", "cell", 2, (0, 1), 1, 0, P2)
    scenario("facet expression on a tetrahedron", "tetrahedron", "expression", "facet", 2, (0, 0, 1), 0, 0, P2)
    scenario("facet expression on a quadrilateral", "quadrilateral", "expression", "facet", 1, (1, 0), 0, 0, P1)
    # mixed-dimensional: an element living on the facet mesh (codimension 1) is tabulated at the facet's own reference points, once per parent facet
    scenario("codimension-1 element in a facet integral on a tetrahedron", "tetrahedron", "exterior_facet", "facet", 2, (0, 1), 1, 1, P2, mapped=False)
    scenario("codimension-2 element in a ridge integral on a tetrahedron", "tetrahedron", "ridge", "ridge", 1, (1,), 0, 2, P1, mapped=False)
    key = f"{f.key}:codimension-3-rejected"
    res.ob(key)
    try:
        run("tetrahedron", "vertex", "vertex", (0, 0, 0), 0, 3, [[]])
        res.fail(key, "an element of codimension 3 is tabulated instead of being rejected", loc)
    except Raised:
        pass


class _Mask(PyNative):
    def __init__(self, flags, shape):
        self.flags, self.shape = flags, shape


@rule(
    "TABLE-CLAMP",
    ["C10", "C01"],
    "clamp_table_small_numbers interpreted on a sample table with an element-wise model of np.isclose / np.where: an entry x becomes "
    "n in {-1, 0, 1} exactly when |x - n| <= atol + rtol*|n| for the tolerances it was called with, and every other entry is "
    "returned unchanged (so that table_rtol / table_atol bound the change of every tabulated value)",
    min_instances=3,
)
def table_clamp(repo, res):
    et = repo.mod(ET)
    f = et.func("clamp_table_small_numbers")
    res.functions.add(f.key)
    loc = et.line(f.node)

    def isclose(a, b, rtol=Fr(1, 100000), atol=Fr(1, 100000000), **k):
        if not isinstance(a, NDArr):
            raise AnalysisError("np.isclose: first operand is not the table")
        if isinstance(b, NDArr):
            raise AnalysisError("np.isclose against an array is not modelled")
        b = Fr(b)
        return _Mask([abs(Fr(x) - b) <= Fr(atol) + Fr(rtol) * abs(b) for x in a.flat()], a.shape)

    class _Arr(NDArr):
        def __setitem__(self, idx, value):
            if isinstance(idx, _Mask):
                flat = self.flat()
                new = [value if m_ else x for x, m_ in zip(flat, idx.flags)]
                from ..npmodel import _rebuild
                self.data = _rebuild(new, self.shape)
                return
            return super().__setitem__(idx, value)

    vals = [Fr(0), Fr(1, 10**12), Fr(-1, 10**12), Fr(1, 1000), Fr(1) + Fr(1, 10**12), Fr(1) - Fr(1, 1000), Fr(-1) + Fr(1, 10**12), Fr(-1) - Fr(1, 20), Fr(1, 2), Fr(2),
            Fr(-3, 2), Fr(19, 20), Fr(1, 3), Fr(-1, 3)]
    for label, rtol, atol in (("default-like tolerances", Fr(1, 10**6), Fr(1, 10**9)), ("coarse tolerances", Fr(1, 10), Fr(1, 10)), ("zero tolerances", Fr(0), Fr(0)),
                              ("relative tolerance only", Fr(1, 10), Fr(0)), ("absolute tolerance only", Fr(0), Fr(1, 10))):
        key = f"{f.key}:{label}"
        res.ob(key)
        it = install_arrays(Interp(repo, load_classes(repo), primary=ET))
        it.overrides["np.isclose"] = _PyCall(isclose)
        it.overrides["np.where"] = _PyCall(lambda m_: m_)
        it.overrides["np.nonzero"] = _PyCall(lambda m_: m_)
        it.overrides["np.asarray"] = _PyCall(lambda x, **k: x if isinstance(x, _Arr) else _Arr(x.tolist() if isinstance(x, NDArr) else x))
        it.overrides["np.array"] = _PyCall(lambda x, **k: _Arr(x.tolist() if isinstance(x, NDArr) else list(x)))
        tbl = _Arr([[list(vals[:7]), list(vals[7:])]], (1, 2, 7))
        try:
            out = it.call_f(f, [tbl], {"rtol": rtol, "atol": atol})
        except Raised as e:
            res.fail(key, f"clamp_table_small_numbers raises ({e.what})", loc)
            continue
        if not isinstance(out, NDArr) or tuple(out.shape) != (1, 2, 7):
            res.fail(key, f"clamp_table_small_numbers returns {type(out).__name__} of shape {getattr(out, 'shape', None)}, expected the (1, 2, 7) table", loc)
            continue
        want = []
        for x in vals:
            y = x
            for n in (-1, 0, 1):
                if abs(x - n) <= atol + rtol * abs(n):
                    y = Fr(n)
            want.append(y)
        got = out.flat()
        bad = [(str(x), str(g), str(w)) for x, g, w in zip(vals, got, want) if g != w]
        if bad:
            x, g, w = bad[0]
            res.fail(key, f"with rtol={rtol}, atol={atol} the table value {x} becomes {g}, expected {w}: a value is moved by more than the configured tolerances allow, "
                     "or a value within tolerance of -1, 0, 1 is not clamped (the table classification zeros/ones and the generated constants depend on it)", loc)
